"""C06 — Accepted meta-models satisfy the structural rules."""
from __future__ import annotations

import ast
import pathlib
import shutil
import sys
from typing import Any, Dict, List, Tuple

from hypothesis import strategies as st

from vlib import c06_ops, c06_rules, mmgen, runner, sut

PID = "C06"
RULE = (
    "Hypothesis: a valid vlib.mmgen model (2-6 classes with diamonds, constrained primitives, enumerations, constants, "
    "pattern functions, typed invariants, plain docstrings) + exactly ONE operator of vlib.c06_ops from a "
    "table keyed by the rule of the property it breaks: inheritance cycle (length 1-4), base that is missing / a constant / "
    "a function / an enumeration, duplicate type / constant / function / property / method, reserved type / property / "
    "method / constant / function names (frozen copy of the documented lists, random case), I_ and Must_ prefixes, mutable* "
    "members, over*_or_empty methods, property re-declared in a descendant (parent, deeper, through a diamond), method "
    "overridden, constructor argument missing / extra / wrong type / wrong order / optional without default / optional with "
    "non-None default, Optional[Optional[T]], List[Optional[T]], equal invariant descriptions (same class, inherited; classes "
    "and constrained primitives), dangling :class: / :attr: / :const: references (class, property, module, constant, "
    "enumeration docstrings), pattern empty / without ^ / without $ / top-level alternation (literal, f-string, composed). "
    "Independent rule checker vlib.c06_rules (Python ast over the text, no repository code) must flag the rule on the mutant "
    "and nothing on the base model. Oracle: checker says 'breaks R' => run.load_model returns an error; acceptance = "
    "violation accepted:<R>; an exception is counted (crash:<bucket>, C01's domain), not flagged. Four further rules of the "
    "implementation that the property does not list (x-...) are measured only. Every rule of the table gets the same number of "
    "cases (one Hypothesis campaign per rule and replica). Second stage, exhaustive: every name of the documented reserved "
    "lists (365 type, 329 member, 376 constant/function names) once per entity kind it is reserved for, in a minimal model, "
    "lower-case where Python allows it else capitalised (30 %: random case). Non-trivial = mutant parses as Python and the "
    "checker flags exactly the intended rule of the property; distinct by mutant text."
)
ASSUMPTIONS = [
    "the reserved names are the documented lists of the pinned revision (vlib/c06_reserved.py, a frozen copy); a name is reserved when its lower-cased form is listed",
    "'members' = properties and methods; over*_or_empty is reserved for methods only, mutable* for properties and methods (as documented in the lists' comments)",
    "constructor argument order is compared separately for arguments without and with default (Python forces defaults last); "
    "properties are ordered ancestors first (bases in declaration order, de-duplicated), own last",
    "a top-level alternation like ^a|b$ or ^a$|b$ is not anchored as a whole (some alternative lacks '^' or '$'); ^a$|^b$, where every alternative is anchored, is not used",
    "an exception instead of an error report is not an acceptance; it is counted and left to C01",
    "rejection of an unmutated generator model is generator health (exit 2 below 90 %), not a violation",
    "missing __version__/__xml_namespace__, missing with_model_type and never-assigned properties are not listed by the property: measured, never asserted",
]

ASSERTED = list(c06_rules.RULES)
EXTRA = list(c06_rules.EXTRA_RULES)


# Every rule gets the same number of cases by construction: a shard runs one Hypothesis campaign per rule of its
# window of the table (Hypothesis' own ``sampled_from`` is strongly biased towards a few entries).
TABLE = ASSERTED + EXTRA
REPLICAS = 2


@st.composite
def cases(draw: Any, rule: str) -> Dict[str, Any]:
    tried = 0
    for _ in range(5):
        opts = mmgen.Opts(max_classes=6, max_props=3, max_invs=2, max_cps=3, p_diamond=0.5,
                          docs=draw(st.sampled_from(["none", "plain"])))
        spec = draw(mmgen.specs(opts).filter(lambda s: len(s.classes) >= 2))
        base = mmgen.render(spec)
        res = c06_ops.OPS[rule](draw, spec)
        if res is None:
            tried += 1
            continue
        text, detail = res
        return {"rule": rule, "text": text, "base": base, "detail": detail, "na": tried}
    return {"rule": None, "text": "", "base": "", "detail": "", "na": tried, "wanted": rule}


def verdict(text: str, base: pathlib.Path) -> Tuple[str, str]:
    """-> (rejected|accepted|crash:<bucket>, message)"""
    try:
        symtab, _, err = sut.load_text(text, base)
    except RecursionError:
        return "crash:RecursionError", ""
    except BaseException as e:  # noqa
        if type(e).__name__ in ("KeyboardInterrupt", "SystemExit", "MemoryError"):
            raise
        return f"crash:{runner.exc_bucket(e)}", runner.exc_text(e)
    if err is not None:
        return "rejected", str(err)
    return "accepted", ""


def evaluate(rule: str, text: str, base: pathlib.Path) -> Tuple[str, List[Tuple[str, str]], Dict[str, List[str]]]:
    """Re-derive that ``text`` breaks ``rule``; if so it must not be accepted."""
    try:
        ast.parse(text)
    except (SyntaxError, ValueError, RecursionError, MemoryError):
        return "not-python", [], {}
    try:
        flagged = c06_rules.check(text)
    except Exception:  # noqa: the checker does not understand the text: no claim
        return "checker-failed", [], {}
    if rule not in flagged:
        return "rule-not-broken", [], flagged
    v, msg = verdict(text, base)
    fails = []  # type: List[Tuple[str, str]]
    if v == "accepted" and rule in ASSERTED:
        fails.append((f"accepted:{rule}",
                      f"the model breaks the rule {rule!r} ({'; '.join(flagged[rule])[:300]}) but run.load_model accepted it"))
    return v, fails, flagged


def shard(ctx: runner.Ctx) -> None:
    n = ctx.n(4_000, 200_000)
    counter = {"i": 0}

    def one(case: Dict[str, Any]) -> None:
        counter["i"] += 1
        rule = case["rule"]
        if case["na"]:
            ctx.classes[f"not-applicable:{rule or case.get('wanted')}"] += case["na"]
        if rule is None:
            ctx.exclude(f"operator-not-applicable:{case.get('wanted')}")
            return
        text = case["text"]
        # the base model obeys every rule (checker) and is accepted (front end; every 4th case)
        try:
            base_flags = c06_rules.check(case["base"])
        except Exception as e:  # noqa
            raise runner.HarnessError(f"rule checker failed on a base model: {runner.exc_text(e)}")
        if base_flags:
            ctx.notes["checker-flags-base-model"] = ctx.notes.get("checker-flags-base-model", 0) + 1
            ctx.exclude("checker-flags-base-model:" + ",".join(sorted(base_flags)))
            return
        if counter["i"] % 4 == 0:
            bv, _ = verdict(case["base"], ctx.scratch)
            ctx.classes[f"base:{bv.split(':')[0]}"] += 1
        v, fails, flagged = evaluate(rule, text, ctx.scratch)
        if v in ("not-python", "checker-failed", "rule-not-broken"):
            ctx.exclude(f"{v}:{rule}")
            ctx.notes[v] = ctx.notes.get(v, 0) + 1
            return
        others = sorted(k for k in flagged if k != rule)
        # the rules outside the property's list do not count for "exactly one rule of the property"
        exactly_one = not [k for k in others if not k.startswith("x-")] or rule in EXTRA and not others
        cls = [f"rule:{rule}", f"{rule}:{v.split('@')[0]}", "exactly-one-rule" if exactly_one else "several-rules"]
        cls.extend(f"several:{rule}+{o}" for o in others)
        detail = case["detail"]
        if detail.endswith("]") and " [" in detail:
            cls.append(f"variant:{rule}:{detail[detail.rindex(' [') + 2:-1]}")
        if v.startswith("crash:"):
            cls.append(v)
            ctx.notes["crashes (C01)"] = ctx.notes.get("crashes (C01)", 0) + 1
        if rule in EXTRA and v == "accepted":
            ctx.notes[f"accepted-unlisted-rule:{rule}"] = ctx.notes.get(f"accepted-unlisted-rule:{rule}", 0) + 1
        ctx.case(exactly_one, key=text, sample={"rule": rule, "what": case["detail"], "verdict": v, "also-flagged": others},
                 classes=cls)
        for b, m in fails:
            ctx.fail(b, {"rule": rule, "text": text}, m + f"\noperator: {case['detail']}")

    # units of work = (rule, replica); unit u goes to shard u % nshards, so every rule gets REPLICAS campaigns overall
    units = [u for u in range(len(TABLE) * REPLICAS) if u % ctx.nshards == ctx.shard]
    per = max(1, (n * ctx.nshards) // (len(TABLE) * REPLICAS))
    for u in units:
        rule = TABLE[u % len(TABLE)]
        # the rules which the property does not list get a quarter of the share
        k = per if rule in ASSERTED else max(1, per // 4)
        runner.hyp_run(cases(rule), one, k, ctx.base_seed * 1000 + u)
    reserved_stage(ctx)


FOOTER = '\n\n__version__ = "V1"\n\n__xml_namespace__ = "https://example.com/ns/1"\n'
TEMPLATES = {
    "reserved-type": "class {w}(DBC):\n    pass",
    "reserved-property": "class Something(DBC):\n    {w}: int\n\n    def __init__(self, {w}: int) -> None:\n        self.{w} = {w}",
    "reserved-method": "class Something(DBC):\n    @implementation_specific\n    def {w}(self) -> int:\n        pass",
    "reserved-constant": "{w}: int = constant_int(\n    value=1,\n)",
    "reserved-function": "@verification\ndef {w}(text: str) -> bool:\n    pattern = \"^a$\"\n    return match(pattern, text) is not None",
}
TEMPLATE_WORDS = {"self", "int", "bool", "str", "text", "pattern", "match", "something", "dbc"}


def reserved_units() -> List[Tuple[str, str]]:
    """Every documented reserved name, once per kind of entity it is reserved for."""
    from vlib import c06_reserved

    out = []  # type: List[Tuple[str, str]]
    for rule, pool in (("reserved-type", c06_reserved.RESERVED_TYPE_NAMES),
                       ("reserved-property", c06_reserved.RESERVED_MEMBER_NAMES),
                       ("reserved-method", c06_reserved.RESERVED_MEMBER_NAMES),
                       ("reserved-constant", c06_reserved.RESERVED_CONSTANT_OR_FUNCTION_NAMES),
                       ("reserved-function", c06_reserved.RESERVED_CONSTANT_OR_FUNCTION_NAMES)):
        out.extend((rule, w) for w in sorted(pool))
    return out


def reserved_stage(ctx: runner.Ctx) -> None:
    """Enumeration: each reserved name in a minimal model (lower-case where Python allows it, else capitalised)."""
    import keyword
    import random

    rnd = random.Random(ctx.seed)
    units = reserved_units()
    for i, (rule, w) in enumerate(units):
        if i % ctx.nshards != ctx.shard:
            continue
        variants = [w, w.capitalize(), w.upper()]
        if keyword.iskeyword(w) or w in TEMPLATE_WORDS:
            variants = variants[1:]
        v = variants[0] if rnd.random() < 0.7 else rnd.choice(variants)
        if keyword.iskeyword(v) or not v.isidentifier():
            ctx.exclude("reserved-name-not-usable-as-identifier")
            continue
        text = mmgen.HEADER + "\n" + TEMPLATES[rule].format(w=v) + FOOTER
        verdict_, fails, flagged = evaluate(rule, text, ctx.scratch)
        if verdict_ in ("not-python", "checker-failed", "rule-not-broken"):
            ctx.exclude(f"{verdict_}:{rule}")
            ctx.notes[verdict_] = ctx.notes.get(verdict_, 0) + 1
            continue
        others = sorted(k for k in flagged if k != rule)
        ctx.case(not others, key=text, classes=[f"enumerated:{rule}", f"enumerated:{verdict_.split('@')[0]}"])
        for b, m in fails:
            ctx.fail(b, {"rule": rule, "text": text}, m + f"\nreserved name {w!r} used as {v!r}")


def replay(case: Any) -> List[Tuple[str, str]]:
    if not isinstance(case, dict) or not isinstance(case.get("text"), str) or case.get("rule") not in ASSERTED:
        return []
    base = runner.make_scratch("c06-replay")
    try:
        _, fails, _ = evaluate(case["rule"], case["text"], base)
    finally:
        shutil.rmtree(base, ignore_errors=True)
    return fails


def health(m: Any, tier: str) -> Any:
    cl = m["classes"]
    ev = max(1, m["evaluations"])
    base_ok = cl.get("base:accepted", 0)
    base_all = sum(v for k, v in cl.items() if k.startswith("base:"))
    if base_all and base_ok < 0.9 * base_all:
        return f"only {base_ok} of {base_all} unmutated models are accepted by the front end"
    bad = sum(v for k, v in m["excluded"].items() if k.startswith(("rule-not-broken", "checker-flags-base-model", "checker-failed")))
    if bad > 0.02 * ev:
        return f"{bad} generated cases are inconsistent with the rule checker (operator did not break its rule / checker flags a base model)"
    need = 20 if tier == "quick" else 200
    scale = float(__import__("os").environ.get("VERIF_SCALE", "1"))
    for r in ASSERTED:
        if cl.get(f"rule:{r}", 0) < need * min(1.0, scale):
            return f"rule {r!r} has only {cl.get(f'rule:{r}', 0)} cases (< {need})"
    if m["nontrivial_n"] < 0.6 * ev:
        return f"only {m['nontrivial_n']} of {ev} cases break exactly one rule"
    return None


if __name__ == "__main__":
    runner.main(sys.modules[__name__])
