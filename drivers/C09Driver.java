import com.fasterxml.jackson.databind.JsonNode;
import com.fasterxml.jackson.databind.ObjectMapper;
import com.fasterxml.jackson.databind.node.ArrayNode;
import com.fasterxml.jackson.databind.node.JsonNodeFactory;
import com.fasterxml.jackson.databind.node.ObjectNode;

import java.io.BufferedReader;
import java.io.File;
import java.io.InputStreamReader;
import java.io.PrintStream;
import java.lang.reflect.Field;
import java.lang.reflect.InvocationTargetException;
import java.lang.reflect.Method;
import java.lang.reflect.Modifier;
import java.nio.charset.StandardCharsets;
import java.util.ArrayList;
import java.util.Collection;
import java.util.HashMap;
import java.util.List;
import java.util.Locale;
import java.util.Map;
import java.util.Optional;

/**
 * C09 driver for the generated Java SDK; model-independent (the SDK is reached through reflection
 * and entities are matched by canonical name = lower case without underscores).
 *
 * Usage: java C09Driver &lt;package&gt; &lt;classes dir&gt; &lt; corpus
 * stdin: line 1 manifest, then {"cls": ..., "doc": ...} per line. stdout: one JSON line each.
 */
public class C09Driver {
  static final ObjectMapper MAPPER = new ObjectMapper();
  static final JsonNodeFactory F = JsonNodeFactory.instance;

  static String canon(String name) {
    return name.replace("_", "").toLowerCase(Locale.ROOT);
  }

  static String describe(Throwable t) {
    return t.getClass().getSimpleName() + ": " + t.getMessage();
  }

  static Throwable unwrap(Throwable t) {
    while (t instanceof InvocationTargetException && t.getCause() != null) {
      t = t.getCause();
    }
    return t;
  }

  static JsonNode plain(Object value, String kind, Method enumToString) throws Exception {
    if (kind.equals("bytearray")) {
      ObjectNode o = F.objectNode();
      ArrayNode a = o.putArray("bytes");
      for (byte b : (byte[]) value) {
        a.add(b & 0xff);
      }
      return o;
    }
    if (kind.startsWith("set_")) {
      ArrayNode a = F.arrayNode();
      for (Object x : (Collection<?>) value) {
        if (kind.equals("set_enum")) {
          a.add(enumString(enumToString, x));
        } else {
          a.add(MAPPER.valueToTree(x));
        }
      }
      return a;
    }
    if (value instanceof Double && (((Double) value).isNaN() || ((Double) value).isInfinite())) {
      ObjectNode o = F.objectNode();
      o.put("nonfinite", String.valueOf(value));
      return o;
    }
    return MAPPER.valueToTree(value);
  }

  static JsonNode enumString(Method toString, Object literal) throws Exception {
    Object r = toString.invoke(null, literal);
    if (r instanceof Optional) {
      Optional<?> o = (Optional<?>) r;
      return o.isPresent() ? F.textNode((String) o.get()) : F.nullNode();
    }
    return F.textNode(String.valueOf(r));
  }

  public static void main(String[] args) throws Exception {
    String pkg = args[0];
    File classesDir = new File(args[1]);
    PrintStream out = new PrintStream(System.out, false, "UTF-8");
    BufferedReader in = new BufferedReader(new InputStreamReader(System.in, StandardCharsets.UTF_8));

    Class<?> deserialize = Class.forName(pkg + ".jsonization.Jsonization$Deserialize");
    Class<?> serialize = Class.forName(pkg + ".jsonization.Jsonization$Serialize");
    Class<?> deserializeException = Class.forName(pkg + ".jsonization.Jsonization$DeserializeException");
    Class<?> verification = Class.forName(pkg + ".verification.Verification");
    Class<?> constants = Class.forName(pkg + ".constants.Constants");
    Class<?> stringification = Class.forName(pkg + ".stringification.Stringification");
    Class<?> iclass = Class.forName(pkg + ".types.model.IClass");
    Class<?> nameSegment = Class.forName(pkg + ".reporting.Reporting$NameSegment");
    Class<?> indexSegment = Class.forName(pkg + ".reporting.Reporting$IndexSegment");
    Class<?> reportingError = Class.forName(pkg + ".reporting.Reporting$Error");

    Map<String, Method> des = new HashMap<>();
    for (Method m : deserialize.getMethods()) {
      if (Modifier.isStatic(m.getModifiers())) {
        des.put(canon(m.getName()), m);
      }
    }
    Method toJsonObject = serialize.getMethod("toJsonObject", iclass);
    Method verify = verification.getMethod("verify", iclass);
    Method getCause = reportingError.getMethod("getCause");
    Method getPathSegments = reportingError.getMethod("getPathSegments");
    Method getName = nameSegment.getMethod("getName");
    Method getIndex = indexSegment.getMethod("getIndex");

    Map<String, Class<?>> enumClasses = new HashMap<>();
    File enumDir = new File(classesDir, pkg.replace('.', '/') + "/types/enums");
    File[] enumFiles = enumDir.listFiles();
    if (enumFiles != null) {
      for (File f : enumFiles) {
        String n = f.getName();
        if (n.endsWith(".class") && !n.contains("$")) {
          String simple = n.substring(0, n.length() - 6);
          enumClasses.put(canon(simple), Class.forName(pkg + ".types.enums." + simple));
        }
      }
    }
    Map<String, Field> constantFields = new HashMap<>();
    for (Field f : constants.getFields()) {
      if (Modifier.isStatic(f.getModifiers())) {
        constantFields.put(canon(f.getName()), f);
      }
    }

    JsonNode manifest = MAPPER.readTree(in.readLine());
    {
      ObjectNode meta = F.objectNode();
      ObjectNode cs = meta.putObject("constants");
      for (JsonNode c : manifest.get("constants")) {
        String name = c.get("name").asText();
        String kind = c.get("kind").asText();
        try {
          Field f = constantFields.get(canon(name));
          if (f == null) {
            cs.putObject(name).put("missing", true);
            continue;
          }
          Method enumToString = null;
          if (kind.equals("set_enum")) {
            Class<?> ec = enumClasses.get(canon(c.get("enum").asText()));
            enumToString = stringification.getMethod("toString", ec);
          }
          cs.set(name, plain(f.get(null), kind, enumToString));
        } catch (Throwable t) {
          cs.putObject(name).put("exception", describe(unwrap(t)));
        }
      }
      ObjectNode es = meta.putObject("enums");
      for (JsonNode e : manifest.get("enums")) {
        String name = e.asText();
        try {
          Class<?> ec = enumClasses.get(canon(name));
          if (ec == null) {
            es.putObject(name).put("missing", true);
            continue;
          }
          Method enumToString = stringification.getMethod("toString", ec);
          ArrayNode lits = F.arrayNode();
          for (Object lit : ec.getEnumConstants()) {
            ArrayNode pair = lits.addArray();
            pair.add(((Enum<?>) lit).name());
            pair.add(enumString(enumToString, lit));
          }
          es.set(name, lits);
        } catch (Throwable t) {
          es.putObject(name).put("exception", describe(unwrap(t)));
        }
      }
      out.println(MAPPER.writeValueAsString(meta));
    }

    String line;
    while ((line = in.readLine()) != null) {
      if (line.isEmpty()) {
        continue;
      }
      ObjectNode res = F.objectNode();
      try {
        JsonNode item = MAPPER.readTree(line);
        String cls = canon(item.get("cls").asText());
        JsonNode doc = item.get("doc");
        // the interface entry point dispatches by modelType (like Python's X_from_jsonable)
        Method m = des.get("deserializei" + cls);
        if (m == null) {
          m = des.get("deserialize" + cls);
        }
        if (m == null) {
          res.put("ok", "missing");
          res.put("text", "no deserialize method for " + cls);
        } else {
          Object instance = null;
          boolean refused = false;
          try {
            instance = m.invoke(null, doc);
          } catch (InvocationTargetException ite) {
            Throwable t = unwrap(ite);
            if (deserializeException.isInstance(t)) {
              refused = true;
              res.put("ok", false);
              res.put("msg", String.valueOf(t.getMessage()));
            } else {
              throw t;
            }
          }
          if (!refused) {
            JsonNode json = (JsonNode) toJsonObject.invoke(null, instance);
            ArrayNode errors = F.arrayNode();
            for (Object error : (Iterable<?>) verify.invoke(null, instance)) {
              ArrayNode pair = errors.addArray();
              ArrayNode segs = pair.addArray();
              for (Object seg : (Collection<?>) getPathSegments.invoke(error)) {
                if (nameSegment.isInstance(seg)) {
                  segs.add((String) getName.invoke(seg));
                } else {
                  segs.add((Integer) getIndex.invoke(seg));
                }
              }
              pair.add((String) getCause.invoke(error));
            }
            res.put("ok", true);
            res.set("json", json);
            res.set("errors", errors);
          }
        }
      } catch (Throwable t) {
        t = unwrap(t);
        res = F.objectNode();
        res.put("ok", "exception");
        res.put("text", describe(t));
      }
      String text;
      try {
        text = MAPPER.writeValueAsString(res);
      } catch (Throwable t) {
        ObjectNode r2 = F.objectNode();
        r2.put("ok", "exception");
        r2.put("text", "serialising the result: " + describe(t));
        text = MAPPER.writeValueAsString(r2);
      }
      out.println(text);
    }
    out.flush();
  }
}
