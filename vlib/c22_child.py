"""
Child process of C22: runs a batch of generator invocations under *this* process' hash seed.

    cd /verif && PYTHONHASHSEED=n /venv/bin/python -m vlib.c22_child jobs.json results.json

Every job goes through ``aas_core_codegen.main.main`` (argv parsing included); the files written
are determined by an audit hook. One process for many jobs amortises the ~0.6 s import time.
"""
from __future__ import annotations

import contextlib
import io
import json
import os
import sys
import tempfile
import traceback
from typing import Any, Dict, List

import vlib  # noqa: F401  (puts VERIF_REPO first on sys.path)
from vlib import fsaudit


def _exc_bucket(exc: BaseException) -> str:
    tb = traceback.extract_tb(exc.__traceback__)
    where = "?"
    for fr in reversed(tb):
        fn = fr.filename.replace("\\", "/")
        if "/aas_core_codegen/" in fn:
            where = fn.split("/aas_core_codegen/", 1)[1] + ":" + fr.name
            break
    return f"{type(exc).__name__}@{where}"


def run_argv(argv: List[str]) -> Dict[str, Any]:
    from aas_core_codegen import main as cg_main

    out, err = io.StringIO(), io.StringIO()
    old_argv = sys.argv
    sys.argv = ["aas-core-codegen"] + list(argv)
    res = {"rc": None, "exc": None, "exc_bucket": None}  # type: Dict[str, Any]
    try:
        with fsaudit.record() as events, contextlib.redirect_stdout(out), contextlib.redirect_stderr(err):
            try:
                res["rc"] = cg_main.main(prog="aas-core-codegen")
            except SystemExit as e:
                res["rc"] = e.code if isinstance(e.code, int) else 1
            except BaseException as e:  # noqa
                if isinstance(e, (KeyboardInterrupt, MemoryError)):
                    raise
                res["rc"] = "exception"
                res["exc"] = "".join(traceback.format_exception(type(e), e, e.__traceback__))[-3000:]
                res["exc_bucket"] = _exc_bucket(e)
    finally:
        sys.argv = old_argv
    res["stdout"] = out.getvalue()
    res["stderr"] = err.getvalue()
    res["events"] = [list(e) for e in events if e[0] in fsaudit.MUTATING]
    return res


def main() -> int:
    jobs_path, results_path = sys.argv[1], sys.argv[2]
    with open(jobs_path, "r", encoding="utf-8") as f:
        jobs = json.load(f)
    fsaudit.install()
    results = []
    for job in jobs:
        tmp = job["tmp"]
        os.makedirs(tmp, exist_ok=True)
        os.environ["TMPDIR"] = tmp
        tempfile.tempdir = tmp
        if job.get("prime"):
            run_argv(job["prime"])
        r = run_argv(job["argv"])
        r["id"] = job["id"]
        results.append(r)
    with open(results_path, "w", encoding="utf-8") as f:
        json.dump(results, f)
    return 0


if __name__ == "__main__":
    sys.exit(main())
