"""
C09: render the C++ driver for a model (C++ has no reflection: entry points, constants and
enumerations are named here by the SDK's documented convention — CamelCase of the underscore
separated parts, constants and literals prefixed with ``k``).
"""
from __future__ import annotations

import json
from typing import List

from vlib.mmgen import Spec


def cap_camel(identifier: str) -> str:
    return "".join(p.capitalize() for p in identifier.split("_"))


def cstr(s: str) -> str:
    """A C++ narrow string literal of the UTF-8 bytes of ``s`` (octal escapes, never greedy)."""
    out = []
    for b in s.encode("utf-8"):
        if 0x20 <= b < 0x7F and chr(b) not in '"\\?':
            out.append(chr(b))
        else:
            out.append("\\%03o" % b)
    return '"' + "".join(out) + '"'


PRELUDE = r"""
// C09 driver for the generated C++ SDK (rendered per model by vlib/c09_cppdriver.py).
#include "verif/gen/common.hpp"
#include "verif/gen/constants.hpp"
#include "verif/gen/iteration.hpp"
#include "verif/gen/jsonization.hpp"
#include "verif/gen/stringification.hpp"
#include "verif/gen/types.hpp"
#include "verif/gen/verification.hpp"

#include <nlohmann/json.hpp>

#include <cmath>
#include <cstdint>
#include <exception>
#include <functional>
#include <iostream>
#include <map>
#include <memory>
#include <string>
#include <unordered_set>
#include <vector>

namespace sdk = verif::gen;
using json = nlohmann::json;

typedef std::function<
  sdk::common::expected<std::shared_ptr<sdk::types::IClass>, sdk::jsonization::DeserializationError>(const json&)
> Entry;

template <typename T>
Entry MakeEntry(
  sdk::common::expected<std::shared_ptr<T>, sdk::jsonization::DeserializationError> (*fn)(const json&, bool)
) {
  return [fn](const json& doc)
    -> sdk::common::expected<std::shared_ptr<sdk::types::IClass>, sdk::jsonization::DeserializationError> {
    auto result = fn(doc, false);
    if (!result.has_value()) {
      return sdk::common::make_unexpected(std::move(result.error()));
    }
    return std::shared_ptr<sdk::types::IClass>(std::move(result.value()));
  };
}

json J(bool value) { return json(value); }
json J(int64_t value) { return json(value); }
json J(double value) {
  if (!std::isfinite(value)) {
    json o = json::object();
    o["nonfinite"] = std::to_string(value);
    return o;
  }
  return json(value);
}
json J(const std::wstring& value) { return json(sdk::common::WstringToUtf8(value)); }
json J(const std::string& value) { return json(value); }
json J(const std::vector<std::uint8_t>& value) {
  json o = json::object();
  json a = json::array();
  for (std::uint8_t b : value) { a.push_back(static_cast<int>(b)); }
  o["bytes"] = a;
  return o;
}
"""

MAIN = r"""
std::string Dump(const json& value) {
  return value.dump(-1, ' ', true, json::error_handler_t::strict);
}

int main() {
  std::ios::sync_with_stdio(false);
  std::string line;
  if (!std::getline(std::cin, line)) { return 3; }
  // the manifest is not needed: everything is compiled in
  try {
    std::cout << Dump(Meta()) << "\n";
  } catch (const std::exception& exception) {
    json r = json::object();
    r["constants"] = json::object();
    r["enums"] = json::object();
    r["exception"] = std::string(exception.what());
    std::cout << Dump(r) << "\n";
  }
  const std::map<std::string, Entry> entries = Entries();
  while (std::getline(std::cin, line)) {
    if (line.empty()) { continue; }
    json res = json::object();
    try {
      const json item = json::parse(line);
      const std::string cls = item.at("cls").get<std::string>();
      const json& doc = item.at("doc");
      auto it = entries.find(cls);
      if (it == entries.end()) {
        res["ok"] = "missing";
        res["text"] = "no entry point for " + cls;
      } else {
        auto result = it->second(doc);
        if (!result.has_value()) {
          res["ok"] = false;
          res["msg"] = sdk::common::WstringToUtf8(result.error().cause);
          res["path"] = sdk::common::WstringToUtf8(result.error().path.ToWstring());
        } else {
          const std::shared_ptr<sdk::types::IClass> instance = result.value();
          res["json"] = sdk::jsonization::Serialize(*instance);
          json errors = json::array();
          for (const sdk::verification::Error& error : sdk::verification::RecursiveVerification(instance)) {
            json segs = json::array();
            for (const auto& segment : error.path.segments) {
              const auto* prop = dynamic_cast<const sdk::iteration::PropertySegment*>(segment.get());
              if (prop != nullptr) {
                segs.push_back(sdk::common::WstringToUtf8(sdk::iteration::PropertyToWstring(prop->property)));
              } else {
                const auto* index = dynamic_cast<const sdk::iteration::IndexSegment*>(segment.get());
                segs.push_back(static_cast<std::uint64_t>(index->index));
              }
            }
            json pair = json::array();
            pair.push_back(segs);
            pair.push_back(sdk::common::WstringToUtf8(error.cause));
            errors.push_back(pair);
          }
          res["errors"] = errors;
          res["ok"] = true;
        }
      }
    } catch (const std::exception& exception) {
      res = json::object();
      res["ok"] = "exception";
      res["text"] = std::string("std::exception: ") + exception.what();
    } catch (...) {
      res = json::object();
      res["ok"] = "exception";
      res["text"] = "unknown exception";
    }
    std::string text;
    try {
      text = Dump(res);
    } catch (const std::exception& exception) {
      json r2 = json::object();
      r2["ok"] = "exception";
      r2["text"] = std::string("dump: ") + exception.what();
      text = r2.dump(-1, ' ', true, json::error_handler_t::replace);
    }
    std::cout << text << "\n";
  }
  std::cout.flush();
  return 0;
}
"""


def render(spec: Spec) -> str:
    out = [PRELUDE]  # type: List[str]
    for e in spec.enums:
        out.append(f"json J(sdk::types::{cap_camel(e.name)} value) {{ return json(sdk::stringification::to_string(value)); }}")
    out.append(r"""
template <typename T, typename H, typename E, typename A>
json J(const std::unordered_set<T, H, E, A>& value) {
  json a = json::array();
  for (const T& item : value) { a.push_back(J(item)); }
  return a;
}
""")
    out.append("json Meta() {")
    out.append("  json constants = json::object();")
    for c in spec.consts:
        out.append(f"  constants[{cstr(c.name)}] = J(sdk::constants::k{cap_camel(c.name)});")
    out.append("  json enums = json::object();")
    for e in spec.enums:
        cn = cap_camel(e.name)
        out.append("  {")
        out.append("    json lits = json::array();")
        out.append(f"    const std::vector<sdk::types::{cn}> named = {{")
        for ln, _ in e.literals:
            out.append(f"      sdk::types::{cn}::k{cap_camel(ln)},")
        out.append("    };")
        out.append(f"    const std::vector<std::string> names = {{{', '.join(cstr(ln) for ln, _ in e.literals)}}};")
        out.append(f"    if (sdk::iteration::kOver{cn}.size() != named.size()) {{")
        out.append(f"      lits.push_back(\"kOver{cn} has \" + std::to_string(sdk::iteration::kOver{cn}.size()) + \" literals\");")
        out.append("    }")
        out.append(f"    for (size_t i = 0; i < sdk::iteration::kOver{cn}.size() && i < named.size(); ++i) {{")
        out.append("      json pair = json::array();")
        out.append(f"      pair.push_back(sdk::iteration::kOver{cn}[i] == named[i] ? names[i] : std::string(\"<order differs>\"));")
        out.append(f"      pair.push_back(sdk::stringification::to_string(sdk::iteration::kOver{cn}[i]));")
        out.append("      lits.push_back(pair);")
        out.append("    }")
        out.append(f"    enums[{cstr(e.name)}] = lits;")
        out.append("  }")
    out.append("  json meta = json::object();")
    out.append('  meta["constants"] = constants;')
    out.append('  meta["enums"] = enums;')
    out.append("  return meta;")
    out.append("}")
    out.append("")
    out.append("std::map<std::string, Entry> Entries() {")
    out.append("  std::map<std::string, Entry> entries;")
    for c in spec.classes:
        out.append(f"  entries[{cstr(c.name)}] = MakeEntry(&sdk::jsonization::{cap_camel(c.name)}From);")
    out.append("  return entries;")
    out.append("}")
    out.append(MAIN)
    return "\n".join(out) + "\n"
