"""
Helpers shared by C03 / C04 / C28 (wraps ``mmgen``; nothing here imports the repository):

* ``Src``          — a meta-model text with its Python ``ast``, character offsets (``col_offset`` is converted
                      from UTF-8 bytes to characters), parent links, node-start table.
* entity operators — plant ONE known error at ONE known entity (class, property, invariant, constructor
                      argument, pattern function, enumeration literal); they are addressed by *names*, so two
                      of them compose (``apply(apply(text, s1), s2)``).
* report parsing   — headline / bullets / located lines of an error report, written from the property text.
"""
from __future__ import annotations

import ast
import io
import re
import tokenize
from typing import Any, Callable, Dict, List, Optional, Sequence, Set, Tuple

# ---------------------------------------------------------------------------
# Source model
# ---------------------------------------------------------------------------

Pos = Tuple[int, int]  # (line, column), both 1-based, column in characters


class Src:
    """Text + ast; all positions 1-based in characters."""

    def __init__(self, text: str) -> None:
        self.text = text
        self.tree = ast.parse(text)
        self.lines = text.split("\n")
        self.offs = [0]
        for ln in self.lines:
            self.offs.append(self.offs[-1] + len(ln) + 1)
        self.parent = {}  # type: Dict[int, ast.AST]
        for node in ast.walk(self.tree):
            for ch in ast.iter_child_nodes(node):
                self.parent[id(ch)] = node

    # -- positions ---------------------------------------------------------
    def col_chars(self, lineno: int, col_bytes: int) -> int:
        """0-based character column of a 0-based UTF-8 byte column."""
        line = self.lines[lineno - 1]
        return len(line.encode("utf-8")[:col_bytes].decode("utf-8", errors="ignore"))

    def start(self, node: ast.AST) -> Pos:
        return node.lineno, self.col_chars(node.lineno, node.col_offset) + 1  # type: ignore

    def span(self, node: ast.AST) -> Tuple[int, int]:
        """Character offsets [a, b) of the node in the text."""
        a = self.offs[node.lineno - 1] + self.col_chars(node.lineno, node.col_offset)  # type: ignore
        b = self.offs[node.end_lineno - 1] + self.col_chars(node.end_lineno, node.end_col_offset)  # type: ignore
        return a, b

    def replace(self, node: ast.AST, new: str) -> str:
        a, b = self.span(node)
        return self.text[:a] + new + self.text[b:]

    def get(self, node: ast.AST) -> str:
        a, b = self.span(node)
        return self.text[a:b]

    def ancestors(self, node: ast.AST) -> List[ast.AST]:
        out = []
        cur = self.parent.get(id(node))
        while cur is not None:
            out.append(cur)
            cur = self.parent.get(id(cur))
        return out

    # -- tables -----------------------------------------------------------
    def decorator_ats(self, node: ast.AST) -> List[Pos]:
        """Positions of the ``@`` of every decorator of a def/class (searching backwards from the expression)."""
        out = []
        for d in getattr(node, "decorator_list", []):
            a, _ = self.span(d)
            i = a - 1
            while i >= 0 and self.text[i] != "@":
                i -= 1
            if i >= 0:
                out.append(self.pos_of_offset(i))
        return out

    def pos_of_offset(self, off: int) -> Pos:
        import bisect

        li = bisect.bisect_right(self.offs, off) - 1
        return li + 1, off - self.offs[li] + 1

    def node_starts(self) -> Set[Pos]:
        """Starts of all ast nodes (and of their lines), decorator ``@`` and ``(`` tokens (see C04 ASSUMPTIONS), (1, 1)."""
        out = {(1, 1)}  # type: Set[Pos]
        for node in ast.walk(self.tree):
            if hasattr(node, "lineno") and hasattr(node, "col_offset"):
                out.add(self.start(node))
                out.update(self.decorator_ats(node))
                # "... or of the first character of its line"
                out.add((node.lineno, 1))  # type: ignore
        try:
            for t in tokenize.generate_tokens(io.StringIO(self.text).readline):
                if t.type == tokenize.OP and t.string == "(":
                    out.add((t.start[0], t.start[1] + 1))
        except (tokenize.TokenError, IndentationError, SyntaxError):
            pass
        return out

    def first_statement_start(self) -> Optional[Pos]:
        body = getattr(self.tree, "body", [])
        if not body:
            return None
        ps = [self.start(body[0])] + self.decorator_ats(body[0])
        return min(ps)

    def candidates(self, nodes: Sequence[ast.AST]) -> Set[Pos]:
        """
        Acceptable locations for an error about one of ``nodes``: the start of the node, of any node that encloses
        it (expression or statement; for a decorated definition both the ``@`` of a decorator and the keyword), the
        first (non-blank) character of those lines, and (1, 1).
        """
        out = {(1, 1)}  # type: Set[Pos]
        for n in nodes:
            chain = [n] + self.ancestors(n)
            for c in chain:
                if not hasattr(c, "lineno"):
                    continue
                p = self.start(c)
                out.add(p)
                out.update(self.decorator_ats(c))
                for q in [p] + self.decorator_ats(c):
                    line = self.lines[q[0] - 1]
                    out.add((q[0], 1))
                    out.add((q[0], len(line) - len(line.lstrip()) + 1))
        return out

    # -- lookup by planted names ------------------------------------------
    def carrying(self, marker: str) -> List[ast.AST]:
        """All nodes that carry the identifier/text ``marker``."""
        out = []
        for node in ast.walk(self.tree):
            if not hasattr(node, "lineno"):
                continue
            hit = False
            if isinstance(node, ast.Name) and node.id == marker:
                hit = True
            elif isinstance(node, ast.Attribute) and node.attr == marker:
                hit = True
            elif isinstance(node, (ast.ClassDef, ast.FunctionDef, ast.AsyncFunctionDef)) and node.name == marker:
                hit = True
            elif isinstance(node, ast.arg) and node.arg == marker:
                hit = True
            elif isinstance(node, ast.keyword) and node.arg == marker:
                hit = True
            elif isinstance(node, ast.alias) and marker in (node.name, node.asname):
                hit = True
            elif isinstance(node, ast.Constant) and isinstance(node.value, str) and marker in node.value:
                hit = True
            if hit:
                out.append(node)
        return out

    # -- model structure --------------------------------------------------
    def classes(self) -> List[ast.ClassDef]:
        return [n for n in self.tree.body if isinstance(n, ast.ClassDef)]

    def cls(self, name: str) -> Optional[ast.ClassDef]:
        for c in self.classes():
            if c.name == name:
                return c
        return None

    @staticmethod
    def is_enum(c: ast.ClassDef) -> bool:
        return any(isinstance(b, ast.Name) and b.id == "Enum" for b in c.bases)

    @staticmethod
    def is_cp(c: ast.ClassDef) -> bool:
        return any(isinstance(b, ast.Name) and b.id in ("int", "str", "float", "bool", "bytearray") for b in c.bases)

    @staticmethod
    def ctor(c: ast.ClassDef) -> Optional[ast.FunctionDef]:
        for n in c.body:
            if isinstance(n, ast.FunctionDef) and n.name == "__init__":
                return n
        return None

    @staticmethod
    def props(c: ast.ClassDef) -> List[ast.AnnAssign]:
        return [n for n in c.body if isinstance(n, ast.AnnAssign) and isinstance(n.target, ast.Name)]

    @staticmethod
    def invariants(c: ast.ClassDef) -> List[ast.Call]:
        return [d for d in c.decorator_list
                if isinstance(d, ast.Call) and isinstance(d.func, ast.Name) and d.func.id == "invariant"]

    def functions(self) -> List[ast.FunctionDef]:
        return [n for n in self.tree.body if isinstance(n, ast.FunctionDef)]


# ---------------------------------------------------------------------------
# Entity operators
# ---------------------------------------------------------------------------


class Op:
    """
    One way of planting an error at an entity.

    ``sites(src)`` lists the JSON-able sites; ``apply(src, site)`` gives the mutated text or ``None``;
    ``marker(site)`` is an identifier/text carried by the offending node(s) in the *mutated* text;
    ``needle(site)`` is a fragment of the message of the operator's own error.
    ``group(site)`` tells which sites are independent: two sites with different groups are different entities.
    """

    def __init__(self, name: str, sites: Callable[[Src], List[Any]], apply: Callable[[Src, Any], Optional[str]],
                 marker: Callable[[Any], str], needle: Callable[[Any], str], late: bool = False,
                 where: str = "", within: bool = False,
                 nodes: Optional[Callable[[Src, Any], List[ast.AST]]] = None) -> None:
        self.name = name
        self.sites = sites
        self.apply = apply
        self.marker = marker
        self.needle = needle
        self.late = late  # detected only by the generators / smoke (type inference), not by the front end
        self.where = where  # the collecting loop that detects the error (documentation; names the bucket)
        self.within = within  # two sites inside the SAME class are collected as well (else: different classes)
        self._nodes = nodes

    def nodes(self, mutated: Src, site: Any) -> List[ast.AST]:
        """The offending node(s) in the MUTATED text (found by the planted marker unless the operator knows better)."""
        if self._nodes is not None:
            return self._nodes(mutated, site)
        return mutated.carrying(self.marker(site))


def _model_classes(src: Src) -> List[ast.ClassDef]:
    return [c for c in src.classes() if not Src.is_enum(c) and not Src.is_cp(c)]


def _s_props(src: Src) -> List[Any]:
    return [[c.name, p.target.id] for c in _model_classes(src) for p in Src.props(c)]  # type: ignore


def _find_prop(src: Src, site: Any) -> Optional[ast.AnnAssign]:
    c = src.cls(site[0])
    if c is None:
        return None
    for p in Src.props(c):
        if p.target.id == site[1]:  # type: ignore
            return p
    return None


def _a_dangling_prop_type(src: Src, site: Any) -> Optional[str]:
    p = _find_prop(src, site)
    if p is None:
        return None
    return src.replace(p.annotation, f'"Zq_unknown_{site[1]}"')


def _s_invariants(src: Src) -> List[Any]:
    return [[c.name, i] for c in src.classes() if not Src.is_enum(c)
            for i, d in enumerate(Src.invariants(c)) if len(d.args) == 2 and not d.keywords]


def _a_inv_no_description(src: Src, site: Any) -> Optional[str]:
    c = src.cls(site[0])
    if c is None:
        return None
    invs = Src.invariants(c)
    if site[1] >= len(invs) or len(invs[site[1]].args) != 2:
        return None
    d = invs[site[1]]
    _, a_end = src.span(d.args[0])
    _, b_end = src.span(d.args[1])
    return src.text[:a_end] + src.text[b_end:]


def _s_classes_with_inv(src: Src) -> List[Any]:
    return [[c.name] for c in src.classes() if not Src.is_enum(c) and Src.invariants(c)]


def _a_dup_invariant(src: Src, site: Any) -> Optional[str]:
    c = src.cls(site[0])
    if c is None or not Src.invariants(c):
        return None
    d = Src.invariants(c)[0]
    a, b = src.span(d)
    at = a - 1
    while at >= 0 and src.text[at] != "@":
        at -= 1
    deco = src.text[at:b]
    return src.text[:at] + deco + "\n" + src.text[at:]


def _s_ctor_default_args(src: Src) -> List[Any]:
    out = []
    for c in _model_classes(src):
        f = Src.ctor(c)
        if f is None or not f.args.defaults:
            continue
        nd = len(f.args.defaults)
        for a, d in zip(f.args.args[-nd:], f.args.defaults):
            if isinstance(d, ast.Constant) and d.value is None:
                out.append([c.name, a.arg])
    return out


def _a_optional_non_none_default(src: Src, site: Any) -> Optional[str]:
    c = src.cls(site[0])
    f = Src.ctor(c) if c is not None else None
    if f is None or not f.args.defaults:
        return None
    nd = len(f.args.defaults)
    for a, d in zip(f.args.args[-nd:], f.args.defaults):
        if a.arg == site[1] and isinstance(d, ast.Constant) and d.value is None:
            return src.replace(d, "0")
    return None


def _self_assignments(f: ast.FunctionDef) -> List[Tuple[str, ast.Assign]]:
    out = []
    for s in f.body:
        if (isinstance(s, ast.Assign) and len(s.targets) == 1 and isinstance(s.targets[0], ast.Attribute)
                and isinstance(s.targets[0].value, ast.Name) and s.targets[0].value.id == "self"):
            out.append((s.targets[0].attr, s))
    return out


def _s_initialized(src: Src) -> List[Any]:
    out = []
    for c in _model_classes(src):
        f = Src.ctor(c)
        if f is not None:
            out.extend([[c.name, n] for n, _ in _self_assignments(f)])
    return out


def _a_prop_not_initialized(src: Src, site: Any) -> Optional[str]:
    c = src.cls(site[0])
    f = Src.ctor(c) if c is not None else None
    if f is None:
        return None
    for n, s in _self_assignments(f):
        if n == site[1]:
            return src.replace(s, "pass")
    return None


_PRIMS = ("int", "str", "bool", "float", "bytearray")


def _s_ctor_args(src: Src) -> List[Any]:
    out = []
    for c in _model_classes(src):
        f = Src.ctor(c)
        if f is None:
            continue
        for a in f.args.args[1:]:
            if a.annotation is not None:
                out.append([c.name, a.arg])
    return out


def _a_ctor_type_mismatch(src: Src, site: Any) -> Optional[str]:
    c = src.cls(site[0])
    f = Src.ctor(c) if c is not None else None
    if f is None:
        return None
    for a in f.args.args[1:]:
        if a.arg == site[1] and a.annotation is not None:
            old = src.get(a.annotation)
            if old.startswith("Optional["):
                new = "Optional[bool]" if old != "Optional[bool]" else "Optional[int]"
            else:
                new = "bool" if old != "bool" else "int"
            return src.replace(a.annotation, new)
    return None


def _s_ctor_swappable(src: Src) -> List[Any]:
    out = []
    for c in _model_classes(src):
        f = Src.ctor(c)
        if f is None:
            continue
        n_req = len(f.args.args) - 1 - len(f.args.defaults)
        # defaulted arguments are always passed by keyword by the subclasses: swapping two of them is local;
        # classes whose required arguments are passed positionally by a subclass are left alone
        if len(f.args.defaults) >= 2 or (n_req >= 2 and f"{c.name}.__init__(" not in src.text):
            out.append([c.name])
    return out


def _a_ctor_swap(src: Src, site: Any) -> Optional[str]:
    c = src.cls(site[0])
    f = Src.ctor(c) if c is not None else None
    if f is None:
        return None
    t = src.text
    nd = len(f.args.defaults)
    if nd >= 2:
        a1, a2 = f.args.args[-2], f.args.args[-1]
        s1, _ = src.span(a1)
        _, e1 = src.span(f.args.defaults[-2])
        s2, _ = src.span(a2)
        _, e2 = src.span(f.args.defaults[-1])
    elif len(f.args.args) - 1 - nd >= 2:
        a1, a2 = f.args.args[1], f.args.args[2]
        s1, e1 = src.span(a1)
        s2, e2 = src.span(a2)
    else:
        return None
    return t[:s1] + t[s2:e2] + t[e1:s2] + t[s1:e1] + t[e2:]


def _s_all_classes(src: Src) -> List[Any]:
    return [[c.name] for c in src.classes()]


def _rename(text: str, old: str, new: str) -> str:
    return re.sub(rf"(?<![A-Za-z0-9_]){re.escape(old)}(?![A-Za-z0-9_])", new, text)


def _a_reserved_class(src: Src, site: Any) -> Optional[str]:
    if src.cls(site[0]) is None:
        return None
    return _rename(src.text, site[0], "I_" + site[0])


def _a_reserved_prop(src: Src, site: Any) -> Optional[str]:
    if _find_prop(src, site) is None:
        return None
    return _rename(src.text, site[1], "mutable_" + site[1])


def _s_pattern_fns(src: Src) -> List[Any]:
    out = []
    for f in src.functions():
        if any(isinstance(s, ast.Assign) and isinstance(s.targets[0], ast.Name) and s.targets[0].id == "pattern"
               for s in f.body):
            out.append([f.name])
    return out


def _a_unanchored_pattern(src: Src, site: Any) -> Optional[str]:
    for f in src.functions():
        if f.name != site[0]:
            continue
        for s in f.body:
            if isinstance(s, ast.Assign) and isinstance(s.targets[0], ast.Name) and s.targets[0].id == "pattern":
                old = src.get(s.value)
                if old.startswith("f"):
                    new = old[:2] + "zq" + old[3:] if old[2] == "^" else None
                else:
                    new = old[:1] + "zq" + old[2:] if old[1] == "^" else None
                if new is None:
                    return None
                return src.replace(s.value, new)
    return None


def _a_dangling_base(src: Src, site: Any) -> Optional[str]:
    c = src.cls(site[0])
    if c is None:
        return None
    m = re.compile(rf"class {re.escape(c.name)}(\(([^)]*)\))?:").search(src.text, src.span(c)[0] if not c.decorator_list else 0)
    if m is None:
        return None
    inner = m.group(2)
    new_base = f"Zq_base_{c.name}"
    bases = new_base if not inner or inner.strip() == "" else f"{new_base}, {inner}"
    return src.text[:m.start()] + f"class {c.name}({bases}):" + src.text[m.end():]


def _s_model_classes(src: Src) -> List[Any]:
    return [[c.name] for c in _model_classes(src)]


def _s_enum_literals(src: Src) -> List[Any]:
    out = []
    for c in src.classes():
        if Src.is_enum(c):
            for s in c.body:
                if isinstance(s, ast.Assign) and isinstance(s.targets[0], ast.Name):
                    out.append([c.name, s.targets[0].id])
    return out


def _a_enum_literal_nonstring(src: Src, site: Any) -> Optional[str]:
    c = src.cls(site[0])
    if c is None:
        return None
    for s in c.body:
        if isinstance(s, ast.Assign) and isinstance(s.targets[0], ast.Name) and s.targets[0].id == site[1]:
            return src.replace(s.value, "31337")
    return None


def _a_bad_doc_ref(src: Src, site: Any) -> Optional[str]:
    c = src.cls(site[0])
    if c is None:
        return None
    doc = f'"""Refer to :class:`Zq_missing_{c.name}` here."""'
    first = c.body[0]
    if isinstance(first, ast.Expr) and isinstance(first.value, ast.Constant) and isinstance(first.value.value, str):
        return src.replace(first, doc)
    a, _ = src.span(first)
    line_start = src.text.rfind("\n", 0, a) + 1
    indent = src.text[line_start:a]
    if indent.strip() != "":
        return None
    return src.text[:line_start] + indent + doc + "\n" + src.text[line_start:]


def _numeric_kind(src: Src, p: ast.AnnAssign) -> Optional[str]:
    t = src.get(p.annotation)
    if t in ("int", "bool", "float"):
        return "required"
    if t in ("Optional[int]", "Optional[bool]", "Optional[float]"):
        return "optional"
    return None


def _s_int_props_for_len(src: Src) -> List[Any]:
    out = []
    for c in _model_classes(src):
        if Src.ctor(c) is None:
            continue
        for p in Src.props(c):
            if _numeric_kind(src, p) is not None:
                out.append([c.name, p.target.id])  # type: ignore
    return out


def _a_len_of_number(src: Src, site: Any) -> Optional[str]:
    """Late error (type inference): ``len`` of a number in a new invariant of the class."""
    c = src.cls(site[0])
    p = _find_prop(src, site)
    if c is None or p is None or _numeric_kind(src, p) is None:
        return None
    a, _ = src.span(c)
    if c.decorator_list:
        a = src.offs[src.decorator_ats(c)[0][0] - 1] + src.decorator_ats(c)[0][1] - 1
    guard = f"self.{site[1]} is None or " if _numeric_kind(src, p) == "optional" else ""
    deco = (f'@invariant(lambda self: len("\u00e9\u20ac\U0001F600") == 3 and ({guard}len(self.{site[1]}) > 0), '
            f'"Zq late {site[0]} {site[1]}")\n')
    return src.text[:a] + deco + src.text[a:]


def _ctor_of(src: Src, name: str) -> Optional[ast.FunctionDef]:
    c = src.cls(name)
    return Src.ctor(c) if c is not None else None


def _n_inv_no_description(src: Src, site: Any) -> List[ast.AST]:
    c = src.cls(site[0])
    return [d for d in Src.invariants(c) if len(d.args) == 1] if c is not None else []


def _n_all_invariants(src: Src, site: Any) -> List[ast.AST]:
    c = src.cls(site[0])
    return list(Src.invariants(c)) if c is not None else []


def _n_ctor_arg(src: Src, site: Any) -> List[ast.AST]:
    f = _ctor_of(src, site[0])
    return [a for a in f.args.args if a.arg == site[1]] if f is not None else []


def _n_ctors_with_arg(src: Src, site: Any) -> List[ast.AST]:
    out = []  # type: List[ast.AST]
    for c in src.classes():
        f = Src.ctor(c)
        if f is not None and any(a.arg == site[1] for a in f.args.args):
            out.append(f)
    return out


def _n_ctor(src: Src, site: Any) -> List[ast.AST]:
    f = _ctor_of(src, site[0])
    return [f] if f is not None else []


def _n_function(src: Src, site: Any) -> List[ast.AST]:
    return [f for f in src.functions() if f.name == site[0]]


def _n_enum_value(src: Src, site: Any) -> List[ast.AST]:
    c = src.cls(site[0])
    if c is None:
        return []
    return [s_.value for s_ in c.body
            if isinstance(s_, ast.Assign) and isinstance(s_.targets[0], ast.Name) and s_.targets[0].id == site[1]]


def _n_len_call(src: Src, site: Any) -> List[ast.AST]:
    out = []  # type: List[ast.AST]
    for d in src.carrying(f"Zq late {site[0]} {site[1]}"):
        for anc in src.ancestors(d):
            if isinstance(anc, ast.Call) and isinstance(anc.func, ast.Name) and anc.func.id == "invariant":
                for n in ast.walk(anc):
                    if (isinstance(n, ast.Call) and isinstance(n.func, ast.Name) and n.func.id == "len" and n.args
                            and isinstance(n.args[0], ast.Attribute) and n.args[0].attr == site[1]):
                        out.append(n)
    return out


def _n_renamed_class(src: Src, site: Any) -> List[ast.AST]:
    c = src.cls("I_" + site[0])
    return [c] if c is not None else []


def _n_renamed_prop(src: Src, site: Any) -> List[ast.AST]:
    p = _find_prop(src, [site[0], "mutable_" + site[1]])
    return [p] if p is not None else []


OPS = [
    Op("dangling-prop-type", _s_props, _a_dangling_prop_type, lambda s: f"Zq_unknown_{s[1]}", lambda s: f"Zq_unknown_{s[1]}",
       where="parse._verify_symbol_table:type-annotations", within=True),
    Op("inv-no-description", _s_invariants, _a_inv_no_description, lambda s: "",
       lambda s: "The invariant must have a human-readable description",
       where="parse._atok_to_symbol_table:class-definitions", within=True, nodes=_n_inv_no_description),
    Op("dup-invariant", _s_classes_with_inv, _a_dup_invariant, lambda s: "",
       lambda s: "The invariants' descriptions need to be unique",
       where="intermediate._verify_invariant_descriptions_unique", nodes=_n_all_invariants),
    Op("optional-arg-non-none-default", _s_ctor_default_args, _a_optional_non_none_default, lambda s: s[1],
       lambda s: "to default to ``None``",
       where="intermediate._verify_optional_constructor_arguments_default_to_none", within=True, nodes=_n_ctor_arg),
    Op("prop-not-initialized", _s_initialized, _a_prop_not_initialized, lambda s: "", lambda s: repr(s[1]),
       where="intermediate._verify_all_properties_are_initialized_in_the_constructor", within=True,
       nodes=_n_ctors_with_arg),
    Op("ctor-arg-type-mismatch", _s_ctor_args, _a_ctor_type_mismatch, lambda s: s[1], lambda s: "mismatch in type",
       where="intermediate._verify_constructor_arguments_and_properties_match", nodes=_n_ctor_arg),
    Op("ctor-arg-swap", _s_ctor_swappable, _a_ctor_swap, lambda s: "", lambda s: "order of constructor arguments",
       where="intermediate._verify_constructor_arguments_and_properties_match", nodes=_n_ctor),
    Op("reserved-class-prefix", _s_all_classes, _a_reserved_class, lambda s: "I_" + s[0], lambda s: "``I_``",
       where="parse._verify_symbol_table:reserved-names", nodes=_n_renamed_class),
    Op("reserved-prop-prefix", _s_props, _a_reserved_prop, lambda s: "mutable_" + s[1], lambda s: "The prefix 'mutable'",
       where="parse._verify_symbol_table:reserved-names", within=True, nodes=_n_renamed_prop),
    Op("unanchored-pattern", _s_pattern_fns, _a_unanchored_pattern, lambda s: s[0], lambda s: repr(s[0]),
       where="intermediate._verify_patterns_anchored_at_start_and_end", nodes=_n_function),
    Op("dangling-base", _s_model_classes, _a_dangling_base, lambda s: "Zq_base_" + s[0], lambda s: "Zq_base_" + s[0],
       where="parse._verify_symbol_table:dangling-inheritances"),
    Op("enum-literal-nonstring", _s_enum_literals, _a_enum_literal_nonstring, lambda s: s[1], lambda s: "31337",
       where="parse._atok_to_symbol_table:class-definitions", nodes=_n_enum_value),
    Op("bad-doc-reference", _s_all_classes, _a_bad_doc_ref, lambda s: "Zq_missing_" + s[0], lambda s: "Zq_missing_" + s[0],
       where="intermediate._second_pass_to_resolve_references_to_our_types_in_the_descriptions_in_place"),
    Op("len-of-number", _s_int_props_for_len, _a_len_of_number, lambda s: f"Zq late {s[0]} {s[1]}",
       lambda s: "length", late=True, where="generator:verification-invariants", within=True,
       nodes=_n_len_call),
]
OPS_BY_NAME = {op.name: op for op in OPS}


def independent(op: Op, s1: Any, s2: Any) -> bool:
    """Two sites are different entities handled by the same collecting loop."""
    if s1 == s2:
        return False
    if not op.within and s1[0] == s2[0]:
        return False
    return True


# ---------------------------------------------------------------------------
# Report parsing (from the property text, not from ``write_error_report``)
# ---------------------------------------------------------------------------

LOC_RE = re.compile(r"At line (-?\d+) and column (-?\d+): ")


def located(stderr: str) -> List[Tuple[int, int, str, int]]:
    """All ``At line L and column C: message`` prefixes: (L, C, rest of the line, indentation)."""
    out = []
    for line in stderr.split("\n"):
        body = line.lstrip(" ")
        ind = len(line) - len(body)
        if body.startswith("* "):
            body = body[2:]
            ind += 2
        m = LOC_RE.match(body)
        if m:
            out.append((int(m.group(1)), int(m.group(2)), body[m.end():], ind))
    return out


def shape_violations(stderr: str) -> List[Tuple[str, str]]:
    """
    Violations of the report shape: a one-line headline ending in ':' followed by '* '-bulleted, indented entries.
    One-line diagnostics (not ending in ':') are degenerate reports and conform.
    """
    out = []  # type: List[Tuple[str, str]]
    if stderr == "":
        return out
    body = stderr[:-1] if stderr.endswith("\n") else stderr
    lines = body.split("\n")
    first = lines[0]
    if len(lines) == 1:
        if first.strip() == "":
            out.append(("blank-report", repr(stderr[:200])))
        elif first.rstrip().endswith(":"):
            out.append(("headline-without-entries", repr(stderr[:300])))
        return out
    if first.startswith("* ") or first.startswith(" "):
        out.append(("no-headline", repr(stderr[:300])))
        return out
    if not first.endswith(":"):
        # several lines, but the first is not a headline ending in ':'
        # find where the bullets start to describe the shape
        k = next((i for i, ln in enumerate(lines) if ln.startswith("* ")), None)
        if k is not None and lines[k - 1].endswith(":") and all(not ln.startswith(" ") for ln in lines[:k]):
            out.append(("multi-line-headline", repr("\n".join(lines[:k])[:600])))
            rest = lines[k:]
        else:
            out.append(("multi-line-diagnostic-without-headline", repr(stderr[:400])))
            return out
    else:
        rest = lines[1:]
    bullets = 0
    for i, ln in enumerate(rest):
        if ln.strip() == "":
            continue
        if ln.startswith("**") or ln.startswith("* *"):
            out.append(("double-bullet", repr(ln[:200])))
        if ln.startswith("* "):
            bullets += 1
            if ln[2:].strip() == "":
                out.append(("empty-bullet", repr(ln)))
        elif ln.startswith("*"):
            out.append(("bullet-without-space", repr(ln[:200])))
        elif not ln.startswith("  "):
            out.append(("entry-line-not-indented", repr(ln[:200])))
        elif bullets == 0:
            out.append(("indented-line-before-first-bullet", repr(ln[:200])))
    if bullets == 0:
        out.append(("no-bullet", repr(stderr[:300])))
    return out


def headline(stderr: str) -> str:
    return stderr.split("\n", 1)[0]


def leaves(stderr: str) -> List[str]:
    """
    Innermost messages of a report: entry lines that are not followed by a deeper line, without the location
    prefix and with digits of locations removed (line numbers move when lines are added/removed).
    """
    lines = [ln for ln in stderr.split("\n")[1:] if ln.strip() != ""]
    norm = []
    for ln in lines:
        body = ln.lstrip(" ")
        ind = len(ln) - len(body)
        if body.startswith("* "):
            body = body[2:]
            ind += 2
        norm.append((ind, LOC_RE.sub("", body, count=1)))
    out = []
    for i, (ind, body) in enumerate(norm):
        if i + 1 < len(norm) and norm[i + 1][0] > ind:
            continue
        out.append(body)
    return out


# ---------------------------------------------------------------------------
# Complete dummy snippet set for a target, computed from the *text* (independent of smoke's own key computation)
# ---------------------------------------------------------------------------


def impl_specific_keys_csharp(src: Src) -> Dict[str, str]:
    """Keys the C# target needs for implementation-specific classes/methods/verification functions."""
    out = {}  # type: Dict[str, str]

    def has_deco(n: Any, name: str) -> bool:
        return any(isinstance(d, ast.Name) and d.id == name for d in n.decorator_list)

    for c in src.classes():
        if has_deco(c, "implementation_specific"):
            out[f"Types/{c.name}/{c.name}.cs"] = "// dummy"
            continue
        for m in c.body:
            if isinstance(m, ast.FunctionDef) and has_deco(m, "implementation_specific"):
                out[f"Types/{c.name}/{m.name}.cs"] = "// dummy"
    for f in src.functions():
        if has_deco(f, "implementation_specific"):
            out[f"Verification/{f.name}.cs"] = "// dummy"
    return out
