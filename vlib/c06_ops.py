"""
Rule-breaking operators for C06: each takes a fresh valid ``mmgen`` spec and returns the text of a meta-model that
breaks exactly the named rule (as worded in the property), or ``None`` when it is not applicable to the spec.

The operators know nothing about the implementation; whether the result really breaks the rule is decided afterwards
by ``vlib.c06_rules.check`` on the produced text.
"""
from __future__ import annotations

import ast
import copy
import keyword
import re
from typing import Any, Callable, Dict, List, Optional, Tuple

from hypothesis import strategies as st

from vlib import c06_reserved, mmgen
from vlib.mmgen import Const, Enm, Fn, Prop, Spec, TRef

Draw = Any
Result = Optional[Tuple[str, str]]  # (text, human-readable detail)


def pick(draw: Draw, xs: List[Any]) -> Any:
    return xs[draw(st.integers(0, len(xs) - 1))]


# ---------------------------------------------------------------------------
# text surgery (located with Python's ast)
# ---------------------------------------------------------------------------


def _cls_node(text: str, name: str) -> ast.ClassDef:
    for n in ast.parse(text).body:
        if isinstance(n, ast.ClassDef) and n.name == name:
            return n
    raise KeyError(name)


def add_base(text: str, cls: str, base: str) -> str:
    node = _cls_node(text, cls)
    lines = text.split("\n")
    i = node.lineno - 1
    m = re.fullmatch(r"class (\w+)(?:\((.*)\))?:", lines[i])
    assert m is not None, lines[i]
    bases = [b.strip() for b in m.group(2).split(",")] if m.group(2) else []
    if "DBC" in bases:
        bases.insert(bases.index("DBC"), base)
    else:
        bases.append(base)
    lines[i] = f"class {cls}({', '.join(bases)}):"
    return "\n".join(lines)


def append_to_class(text: str, cls: str, new_lines: List[str]) -> str:
    node = _cls_node(text, cls)
    lines = text.split("\n")
    end = node.end_lineno or node.lineno
    return "\n".join(lines[:end] + new_lines + lines[end:])


def insert_before_init(text: str, cls: str, new_lines: List[str]) -> str:
    node = _cls_node(text, cls)
    lines = text.split("\n")
    for b in node.body:
        if isinstance(b, ast.FunctionDef):
            at = b.lineno - 1
            return "\n".join(lines[:at] + new_lines + [""] + lines[at:])
    end = node.end_lineno or node.lineno
    return "\n".join(lines[:end] + new_lines + lines[end:])


def insert_after_prop(text: str, cls: str, prop: str, new_lines: List[str]) -> str:
    node = _cls_node(text, cls)
    lines = text.split("\n")
    body = node.body
    for i, b in enumerate(body):
        if isinstance(b, ast.AnnAssign) and isinstance(b.target, ast.Name) and b.target.id == prop:
            end = b.end_lineno or b.lineno
            if i + 1 < len(body) and isinstance(body[i + 1], ast.Expr) and isinstance(getattr(body[i + 1], "value", None), ast.Constant):
                end = body[i + 1].end_lineno or end
            return "\n".join(lines[:end] + new_lines + lines[end:])
    raise KeyError(prop)


def insert_toplevel(draw: Draw, text: str, block: List[str]) -> str:
    tree = ast.parse(text)
    lines = text.split("\n")
    starts = []
    for n in tree.body:
        if isinstance(n, (ast.ClassDef, ast.FunctionDef, ast.AnnAssign, ast.Assign)):
            first = min([n.lineno] + [d.lineno for d in getattr(n, "decorator_list", [])])
            starts.append(first - 1)
    at = pick(draw, starts)
    return "\n".join(lines[:at] + block + ["", ""] + lines[at:])


def rename(text: str, old: str, new: str) -> str:
    return re.sub(r"\b%s\b" % re.escape(old), new, text)


def method_lines(name: str, kind: int = 0) -> List[str]:
    if kind == 0:
        return ["", "    @implementation_specific", f"    def {name}(self) -> int:", "        pass"]
    return ["", f"    def {name}(self) -> int:", "        return 4"]


CtorArg = Tuple[str, str, Optional[str]]  # name, annotation source, default source


def edit_ctor(text: str, cls: str, fn: Callable[[List[CtorArg]], Optional[List[CtorArg]]]) -> Optional[str]:
    node = _cls_node(text, cls)
    init = next((b for b in node.body if isinstance(b, ast.FunctionDef) and b.name == "__init__"), None)
    if init is None:
        return None
    a = init.args
    defaults = [None] * (len(a.args) - len(a.defaults)) + list(a.defaults)  # type: List[Any]
    args = []  # type: List[CtorArg]
    for x, d in list(zip(a.args, defaults))[1:]:
        args.append((x.arg, ast.get_source_segment(text, x.annotation) or "int",
                     ast.get_source_segment(text, d) if d is not None else None))
    new = fn(list(args))
    if new is None or new == args:
        return None
    lines = text.split("\n")
    start = init.lineno - 1
    end = init.body[0].lineno - 1
    # a docstring-less body starts right after the signature; keep everything from the first statement on
    header = ["    def __init__(", "        self,"]
    for n, t, d in new:
        header.append(f"        {n}: {t}{' = ' + d if d is not None else ''},")
    header.append("    ) -> None:")
    return "\n".join(lines[:start] + header + lines[end:])


# ---------------------------------------------------------------------------
# planting what an operator needs
# ---------------------------------------------------------------------------


def ensure_enum(spec: Spec) -> Enm:
    if not spec.enums:
        e = Enm("Planted_kind", [("Aa", "AA"), ("Bb", "BB")], None)
        spec.enums.append(e)
        spec.order.insert(0, ("enum", e.name))
    return spec.enums[0]


def ensure_const(spec: Spec) -> Const:
    if not spec.consts:
        c = Const("Planted_limit", "int", 3)
        spec.consts.append(c)
        spec.order.insert(0, ("const", c.name))
    return spec.consts[0]


def ensure_fn(spec: Spec) -> Fn:
    pats = [f for f in spec.fns if f.kind == "pattern"]
    if not pats:
        f = Fn("matches_planted", "pattern", [("text", TRef("prim", "str"))], pattern="^[a-z]+$",
               pattern_lines=['pattern = "^[a-z]+$"'])
        spec.fns.append(f)
        spec.order.insert(0, ("fn", f.name))
        return f
    return pats[0]


def ensure_props(draw: Draw, spec: Spec, mandatory: int = 0, optional: int = 0) -> mmgen.Cls:
    """A class whose constructor has at least that many mandatory / optional arguments."""
    good = []
    for c in spec.classes:
        allp = spec.all_props(c.name)
        if sum(1 for p in allp if not p.type.optional) >= mandatory and sum(1 for p in allp if p.type.optional) >= optional:
            good.append(c)
    if good:
        return pick(draw, good)
    c = pick(draw, spec.classes)
    allp = spec.all_props(c.name)
    have_m = sum(1 for p in allp if not p.type.optional)
    have_o = sum(1 for p in allp if p.type.optional)
    for i in range(max(0, mandatory - have_m)):
        c.props.append(Prop(f"planted_m{i}_x", TRef("prim", pick(draw, ["int", "str", "bool"]))))
    for i in range(max(0, optional - have_o)):
        c.props.append(Prop(f"planted_o{i}_x", TRef("opt", item=TRef("prim", pick(draw, ["int", "str"])))))
    return c


def reserved_variant(draw: Draw, pool: Any, text: str) -> Optional[str]:
    words = sorted(pool)
    for _ in range(30):
        w = pick(draw, words)
        v = pick(draw, [w, w, w.capitalize(), w.upper(), w.title()])
        if keyword.iskeyword(v) or v in ("True", "False", "None") or not v.isidentifier():
            continue
        if re.search(r"\b%s\b" % re.escape(v), text):
            continue
        return v
    return None


def type_names(spec: Spec) -> List[str]:
    return [c.name for c in spec.classes] + [c.name for c in spec.cps] + [e.name for e in spec.enums]


# ---------------------------------------------------------------------------
# operators
# ---------------------------------------------------------------------------


def op_cycle(draw: Draw, spec: Spec) -> Result:
    k = draw(st.integers(1, 4))
    if draw(st.booleans()):
        # start low in the hierarchy so that the longer cycles have room
        x = pick(draw, sorted(spec.classes, key=lambda c: -len(spec.ancestors(c.name)))[:2])
    else:
        x = pick(draw, spec.classes)
    top = x
    n = 1
    while n < k and top.bases:
        top = spec.cls(pick(draw, top.bases))
        n += 1
    text = mmgen.render(spec)
    return add_base(text, top.name, x.name), f"{top.name} inherits from {x.name} [length-{n}]"


def op_base_missing(draw: Draw, spec: Spec) -> Result:
    c = pick(draw, spec.classes)
    cands = ["Nonexistent_parent", "Missing_base_2"]
    cands += [k.name for k in spec.consts] + [f.name for f in spec.fns]
    b = pick(draw, cands)
    return add_base(mmgen.render(spec), c.name, b), f"{c.name} inherits from {b} which is not a class"


def op_base_is_enum(draw: Draw, spec: Spec) -> Result:
    e = ensure_enum(spec)
    e = pick(draw, spec.enums)
    c = pick(draw, spec.classes)
    return add_base(mmgen.render(spec), c.name, e.name), f"{c.name} inherits from the enumeration {e.name}"


def op_dup_type(draw: Draw, spec: Spec) -> Result:
    name = pick(draw, type_names(spec))
    form = draw(st.integers(0, 2))
    if form == 0:
        block = [f"class {name}(DBC):", "    pass"]
    elif form == 1:
        block = [f"class {name}(Enum):", '    Zz = "zz"']
    else:
        block = [f"class {name}(str, DBC):", "    pass"]
    return insert_toplevel(draw, mmgen.render(spec), block), f"second definition of the type {name}"


def op_dup_constant(draw: Draw, spec: Spec) -> Result:
    ensure_const(spec)
    c = pick(draw, spec.consts)
    block = [f"{c.name}: int = constant_int(", "    value=1,", ")"]
    return insert_toplevel(draw, mmgen.render(spec), block), f"second definition of the constant {c.name}"


def op_dup_function(draw: Draw, spec: Spec) -> Result:
    ensure_fn(spec)
    f = pick(draw, spec.fns)
    block = ["@verification", f"def {f.name}(text: str) -> bool:", '    pattern = "^x$"',
             "    return match(pattern, text) is not None"]
    return insert_toplevel(draw, mmgen.render(spec), block), f"second definition of the function {f.name}"


def op_dup_property(draw: Draw, spec: Spec) -> Result:
    c = ensure_props(draw, spec, mandatory=1) if not any(k.props for k in spec.classes) else pick(
        draw, [k for k in spec.classes if k.props])
    if not c.props:
        return None
    p = pick(draw, c.props)
    text = mmgen.render(spec)
    return insert_after_prop(text, c.name, p.name, [f"    {p.name}: {p.type.render()}"]), f"{c.name}.{p.name} declared twice"


def op_dup_method(draw: Draw, spec: Spec) -> Result:
    c = pick(draw, spec.classes)
    nm = pick(draw, ["do_something", "compute_thing", "derive_x"])
    text = append_to_class(mmgen.render(spec), c.name, method_lines(nm) + method_lines(nm, draw(st.integers(0, 1))))
    return text, f"{c.name}.{nm} defined twice"


def op_reserved_type(draw: Draw, spec: Spec) -> Result:
    text = mmgen.render(spec)
    old = pick(draw, type_names(spec))
    new = reserved_variant(draw, c06_reserved.RESERVED_TYPE_NAMES, text)
    if new is None:
        return None
    return rename(text, old, new), f"type {old} renamed to the reserved name {new}"


def op_reserved_property(draw: Draw, spec: Spec) -> Result:
    if not any(k.props for k in spec.classes):
        ensure_props(draw, spec, mandatory=1)
    c = pick(draw, [k for k in spec.classes if k.props])
    p = pick(draw, c.props)
    text = mmgen.render(spec)
    new = reserved_variant(draw, c06_reserved.RESERVED_MEMBER_NAMES, text)
    if new is None:
        return None
    return rename(text, p.name, new), f"property {c.name}.{p.name} renamed to the reserved name {new}"


def op_reserved_method(draw: Draw, spec: Spec) -> Result:
    c = pick(draw, spec.classes)
    text = mmgen.render(spec)
    new = reserved_variant(draw, c06_reserved.RESERVED_MEMBER_NAMES, text)
    if new is None:
        return None
    return append_to_class(text, c.name, method_lines(new, draw(st.integers(0, 1)))), f"method {c.name}.{new}"


def op_reserved_constant(draw: Draw, spec: Spec) -> Result:
    ensure_const(spec)
    c = pick(draw, spec.consts)
    text = mmgen.render(spec)
    new = reserved_variant(draw, c06_reserved.RESERVED_CONSTANT_OR_FUNCTION_NAMES, text)
    if new is None:
        return None
    return rename(text, c.name, new), f"constant {c.name} renamed to the reserved name {new}"


def op_reserved_function(draw: Draw, spec: Spec) -> Result:
    ensure_fn(spec)
    f = pick(draw, spec.fns)
    text = mmgen.render(spec)
    new = reserved_variant(draw, c06_reserved.RESERVED_CONSTANT_OR_FUNCTION_NAMES, text)
    if new is None:
        return None
    return rename(text, f.name, new), f"function {f.name} renamed to the reserved name {new}"


def _op_prefix(prefix: str) -> Callable[[Draw, Spec], Result]:
    def op(draw: Draw, spec: Spec) -> Result:
        old = pick(draw, type_names(spec))
        new = prefix + pick(draw, [old, old.lower(), "x"])
        text = mmgen.render(spec)
        if re.search(r"\b%s\b" % re.escape(new), text):
            return None
        return rename(text, old, new), f"type {old} renamed to {new}"

    return op


def op_member_mutable(draw: Draw, spec: Spec) -> Result:
    text = mmgen.render(spec)
    with_props = [k for k in spec.classes if k.props]
    if with_props and draw(st.booleans()):
        c = pick(draw, with_props)
        p = pick(draw, c.props)
        new = pick(draw, ["mutable_", "Mutable_", "mutable", "MUTABLE_"]) + p.name
        return rename(text, p.name, new), f"property {c.name}.{p.name} renamed to {new}"
    c = pick(draw, spec.classes)
    new = pick(draw, ["mutable_thing", "Mutable_thing", "mutablething", "mutable"])
    return append_to_class(text, c.name, method_lines(new, draw(st.integers(0, 1)))), f"method {c.name}.{new}"


def op_method_over_or_empty(draw: Draw, spec: Spec) -> Result:
    c = pick(draw, spec.classes)
    w = pick(draw, mmgen.PROP_WORDS)
    new = pick(draw, [f"over_{w}_or_empty", f"Over_{w}_or_empty", f"over_{w}_orempty", f"over{w}orempty", f"OVER_{w}_OR_EMPTY",
                      "over_or_empty"])
    return append_to_class(mmgen.render(spec), c.name, method_lines(new, draw(st.integers(0, 1)))), f"method {c.name}.{new}"


def op_prop_redeclared(draw: Draw, spec: Spec) -> Result:
    cands = []
    for d in spec.classes:
        for a in spec.ancestors(d.name):
            for p in spec.cls(a).props:
                cands.append((d, a, p))
    if not cands:
        return None

    def depth_of(d: Any, a: str) -> str:
        if sum(1 for b in d.bases if a == b or a in spec.ancestors(b)) >= 2:
            return "diamond"
        return "parent" if a in d.bases else "deeper"

    # any depth: first the kind of relation (uniformly among those the spec offers), then the triple
    kinds = sorted({depth_of(d, a) for d, a, _ in cands})
    kind = pick(draw, kinds)
    d, a, p = pick(draw, [c for c in cands if depth_of(c[0], c[1]) == kind])
    text = insert_before_init(mmgen.render(spec), d.name, [f"    {p.name}: {p.type.render()}"])
    return text, f"{d.name} re-declares {p.name} of its ancestor {a} [{kind}]"


def op_method_overridden(draw: Draw, spec: Spec) -> Result:
    cands = [(d, a) for d in spec.classes for a in spec.ancestors(d.name)]
    if not cands:
        return None
    d, a = pick(draw, cands)
    # the ancestor's method must not reach any class over two paths (a different rule of the front end)
    for c in spec.classes:
        if sum(1 for b in c.bases if a == b or a in spec.ancestors(b)) >= 2:
            return None
    nm = pick(draw, ["do_something", "compute_thing", "derive_x"])
    text = append_to_class(mmgen.render(spec), a, method_lines(nm, draw(st.integers(0, 1))))
    text = append_to_class(text, d.name, method_lines(nm, draw(st.integers(0, 1))))
    return text, f"{d.name} overrides the method {nm} of its ancestor {a}"


def _ctor_op(need_m: int, need_o: int, fn: Callable[[Draw, List[CtorArg]], Optional[List[CtorArg]]], what: str
             ) -> Callable[[Draw, Spec], Result]:
    def op(draw: Draw, spec: Spec) -> Result:
        c = ensure_props(draw, spec, need_m, need_o)
        text = mmgen.render(spec)
        new = edit_ctor(text, c.name, lambda args: fn(draw, args))
        if new is None:
            return None
        return new, f"constructor of {c.name}: {what}"

    return op


def _c_missing(draw: Draw, args: List[CtorArg]) -> Optional[List[CtorArg]]:
    if not args:
        return None
    i = draw(st.integers(0, len(args) - 1))
    return args[:i] + args[i + 1:]


def _c_extra(draw: Draw, args: List[CtorArg]) -> Optional[List[CtorArg]]:
    k = sum(1 for a in args if a[2] is None)
    if draw(st.booleans()):
        return args[:k] + [("extra_argument_x", pick(draw, ["int", "str", "List[int]"]), None)] + args[k:]
    return args + [("extra_argument_x", "Optional[int]", "None")]


def _c_wrong_type(draw: Draw, args: List[CtorArg]) -> Optional[List[CtorArg]]:
    if not args:
        return None
    i = draw(st.integers(0, len(args) - 1))
    n, t, d = args[i]
    opt = t.startswith("Optional[")
    core = t[len("Optional["):-1] if opt else t
    form = draw(st.integers(0, 2))
    if form == 1 and not core.startswith("List["):
        new_core = f"List[{core}]"
    elif form == 2 and core.startswith("List["):
        new_core = core[len("List["):-1]
    else:
        new_core = "str" if core != "str" else "int"
    new_t = f"Optional[{new_core}]" if opt else new_core
    return args[:i] + [(n, new_t, d)] + args[i + 1:]


def _c_wrong_order(draw: Draw, args: List[CtorArg]) -> Optional[List[CtorArg]]:
    k = sum(1 for a in args if a[2] is None)
    groups = [g for g in (list(range(0, k)), list(range(k, len(args)))) if len(g) >= 2]
    if not groups:
        return None
    g = pick(draw, groups)
    i = draw(st.integers(0, len(g) - 2))
    j = draw(st.integers(i + 1, len(g) - 1))
    out = list(args)
    out[g[i]], out[g[j]] = out[g[j]], out[g[i]]
    return out


def _c_opt_without_default(draw: Draw, args: List[CtorArg]) -> Optional[List[CtorArg]]:
    idx = [i for i, a in enumerate(args) if a[1].startswith("Optional[") and a[2] is not None]
    if not idx:
        return None
    j = draw(st.integers(1, len(idx)))
    out = list(args)
    for i in idx[:j]:
        out[i] = (out[i][0], out[i][1], None)
    return out


def _c_opt_non_none(draw: Draw, args: List[CtorArg]) -> Optional[List[CtorArg]]:
    idx = [i for i, a in enumerate(args) if a[1].startswith("Optional[") and a[2] is not None]
    if not idx:
        return None
    i = pick(draw, idx)
    n, t, _ = args[i]
    core = t[len("Optional["):-1]
    val = {"int": "0", "str": '""', "bool": "False", "float": "0.0", "bytearray": 'b""'}.get(core)
    if val is None:
        val = "[]" if core.startswith("List[") else pick(draw, ["0", '""', "[]"])
    out = list(args)
    out[i] = (n, t, val)
    return out


def _shape_op(kind: str) -> Callable[[Draw, Spec], Result]:
    def op(draw: Draw, spec: Spec) -> Result:
        if not any(k.props for k in spec.classes):
            ensure_props(draw, spec, mandatory=1)
        c = pick(draw, [k for k in spec.classes if k.props])
        p = pick(draw, c.props)
        t = p.type
        core = t.core
        if kind == "nested-optional":
            p.type = TRef("opt", item=TRef("opt", item=core))
        else:
            if core.kind == "list":
                inner = TRef("list", item=TRef("opt", item=core.item))
            else:
                inner = TRef("list", item=TRef("opt", item=core))
            p.type = TRef("opt", item=inner) if (t.optional or draw(st.booleans())) else inner
        return mmgen.render(spec), f"{c.name}.{p.name}: {p.type.render()}"

    return op


def op_inv_dup_same(draw: Draw, spec: Spec) -> Result:
    owners = [k for k in spec.classes if k.invs] + [k for k in spec.cps if k.invs]
    if not owners:
        return None
    o = pick(draw, owners)
    src = pick(draw, o.invs)
    body = pick(draw, o.invs).body
    o.invs.insert(draw(st.integers(0, len(o.invs))), mmgen.Inv(body, src.desc, dict(src.tags)))
    return mmgen.render(spec), f"{o.name}: two invariants described {src.desc!r}"


def op_inv_dup_inherited(draw: Draw, spec: Spec) -> Result:
    cands = []  # type: List[Tuple[Any, Any]]
    for d in spec.classes:
        for a in spec.ancestors(d.name):
            if spec.cls(a).invs:
                cands.append((d, spec.cls(a)))
    for d in spec.cps:
        for a in spec.cp_ancestors(d.name):
            if spec.cp(a).invs:
                cands.append((d, spec.cp(a)))
    if not cands:
        return None
    # classes and constrained primitives with equal weight where the spec offers both
    groups = [g for g in ([c for c in cands if isinstance(c[0], mmgen.Cls)], [c for c in cands if isinstance(c[0], mmgen.CP)]) if g]
    d, a = pick(draw, pick(draw, groups))
    src = pick(draw, a.invs)
    d.invs.insert(draw(st.integers(0, len(d.invs))), mmgen.Inv(src.body, src.desc, dict(src.tags)))
    kind = "class" if isinstance(d, mmgen.Cls) else "constrained-primitive"
    return mmgen.render(spec), f"{d.name} and its ancestor {a.name}: invariants described {src.desc!r} [{kind}]"


def op_inv_dup_two_parents(draw: Draw, spec: Spec) -> Result:
    """Two parents that are unrelated to each other carry invariants with one description; a class inherits both."""
    cands = []  # type: List[Tuple[Any, Any, Any]]
    for d in spec.classes:
        for i, b1 in enumerate(d.bases):
            for b2 in d.bases[i + 1:]:
                l1 = [b1] + spec.ancestors(b1)
                l2 = [b2] + spec.ancestors(b2)
                only1 = [x for x in l1 if x not in l2 and spec.cls(x).invs]
                only2 = [x for x in l2 if x not in l1 and spec.cls(x).invs]
                for x in only1:
                    for y in only2:
                        cands.append((d, spec.cls(x), spec.cls(y)))
    if not cands:
        return None
    d, a, b = pick(draw, cands)
    src = pick(draw, a.invs)
    tgt = pick(draw, b.invs)
    tgt.desc = src.desc
    return mmgen.render(spec), f"{d.name} inherits from {a.name} and {b.name}: both carry an invariant described {src.desc!r}"


def _doc_op(role: str) -> Callable[[Draw, Spec], Result]:
    def op(draw: Draw, spec: Spec) -> Result:
        with_props = [k for k in spec.classes if k.props]
        if role == "class":
            ref = ":class:`" + pick(draw, ["Nonexistent_type", "~Nonexistent_type", "Unknown_thing_A"]
                                    + [k.name for k in spec.consts] + [f.name for f in spec.fns]) + "`"
        elif role == "const":
            ref = ":const:`" + pick(draw, ["Nonexistent_constant", "~Nonexistent_constant"]
                                    + [k.name for k in spec.classes]) + "`"
        else:
            forms = ["nonexistent_prop", "Nonexistent_type.some_prop", pick(draw, spec.classes).name + ".nonexistent_prop"]
            if spec.enums:
                forms.append(pick(draw, spec.enums).name + ".Nonexistent_literal")
            ref = ":attr:`" + pick(draw, forms) + "`"
        doc = f"Represent something related to {ref}."
        places = ["class", "module"]
        if with_props:
            places.append("property")
        if spec.consts:
            places.append("constant")
        if spec.enums:
            places.append("enum")
        where = pick(draw, places)
        if where == "class":
            pick(draw, spec.classes + spec.cps).doc = doc  # type: ignore
        elif where == "module":
            spec.module_doc = doc
        elif where == "property":
            pick(draw, pick(draw, with_props).props).doc = doc
        elif where == "constant":
            pick(draw, spec.consts).doc = doc
        else:
            pick(draw, spec.enums).doc = doc
        return mmgen.render(spec), f"{ref} in the description [{where}]"

    return op


def _pattern_op(kind: str) -> Callable[[Draw, Spec], Result]:
    pools = {
        "pattern-empty": [""],
        "pattern-no-caret": ["[a-z]+$", "abc$", "(a|b)$", ".*x$", "a^$", "\\^a$", "a$|^b$"],
        "pattern-no-dollar": ["^[a-z]+", "^abc", "^(a|b)", "^x.*", "^a\\$", "^a$b", "^a$|b", "^a$|^b"],
        # the anchors must hold for the pattern as a whole: in ^a$|b$ the second alternative is not anchored at the start
        "pattern-alternation": ["^a|b$", "^ab|cd|ef$", "^(a)|(b)$", "^[a-z]+|[0-9]+$", "^a$|b$", "^ab$|cd$"],
    }

    def op(draw: Draw, spec: Spec) -> Result:
        ensure_fn(spec)
        f = pick(draw, [x for x in spec.fns if x.kind == "pattern"])
        pat = pick(draw, pools[kind])
        style = draw(st.integers(0, 2))
        if style == 0 or pat == "":
            f.pattern_lines = [f"pattern = {mmgen.pystr_regex(pat)}"]
        elif style == 1:
            f.pattern_lines = [f"pattern = f{mmgen.pystr_regex(pat, fstring=True)}"]
        else:
            h = len(pat) // 2
            f.pattern_lines = [f"head = {mmgen.pystr_regex(pat[:h])}", f"tail = {mmgen.pystr_regex(pat[h:])}",
                               'pattern = f"{head}{tail}"']
        f.pattern = pat
        return mmgen.render(spec), f"{f.name}: pattern {pat!r}"

    return op


def _drop_line(prefix: str) -> Callable[[Draw, Spec], Result]:
    def op(draw: Draw, spec: Spec) -> Result:
        lines = mmgen.render(spec).split("\n")
        keep = [ln for ln in lines if not ln.startswith(prefix)]
        if len(keep) == len(lines):
            return None
        return "\n".join(keep), f"line starting with {prefix!r} removed"

    return op


def op_missing_wmt(draw: Draw, spec: Spec) -> Result:
    for c in spec.classes:
        c.with_model_type = False
    return mmgen.render(spec), "every with_model_type setting removed"


def op_never_assigned(draw: Draw, spec: Spec) -> Result:
    if not any(k.props for k in spec.classes):
        ensure_props(draw, spec, mandatory=1)
    c = pick(draw, [k for k in spec.classes if k.props])
    p = pick(draw, c.props)
    text = mmgen.render(spec)
    node = _cls_node(text, c.name)
    lines = text.split("\n")
    target = f"        self.{p.name} = {p.name}"
    lo, hi = node.lineno - 1, (node.end_lineno or node.lineno)
    for i in range(lo, hi):
        if lines[i] == target:
            lines[i] = "        pass"
            return "\n".join(lines), f"{c.name}.{p.name} is never assigned"
    return None


OPS = {
    "cycle": op_cycle,
    "base-missing": op_base_missing,
    "base-is-enum": op_base_is_enum,
    "dup-type": op_dup_type,
    "dup-constant": op_dup_constant,
    "dup-function": op_dup_function,
    "dup-property": op_dup_property,
    "dup-method": op_dup_method,
    "reserved-type": op_reserved_type,
    "reserved-property": op_reserved_property,
    "reserved-method": op_reserved_method,
    "reserved-constant": op_reserved_constant,
    "reserved-function": op_reserved_function,
    "prefix-I_": _op_prefix("I_"),
    "prefix-Must_": _op_prefix("Must_"),
    "member-mutable": op_member_mutable,
    "method-over-or-empty": op_method_over_or_empty,
    "prop-redeclared": op_prop_redeclared,
    "method-overridden": op_method_overridden,
    "ctor-arg-missing": _ctor_op(1, 0, _c_missing, "one argument removed"),
    "ctor-arg-extra": _ctor_op(0, 0, _c_extra, "an argument without a property added"),
    "ctor-arg-wrong-type": _ctor_op(1, 0, _c_wrong_type, "type of one argument changed"),
    "ctor-arg-wrong-order": _ctor_op(2, 0, _c_wrong_order, "two arguments swapped"),
    "ctor-optional-without-default": _ctor_op(0, 1, _c_opt_without_default, "default of optional argument(s) removed"),
    "ctor-optional-non-none-default": _ctor_op(0, 1, _c_opt_non_none, "optional argument defaults to a value other than None"),
    "nested-optional": _shape_op("nested-optional"),
    "list-of-optional": _shape_op("list-of-optional"),
    "inv-desc-dup-same-class": op_inv_dup_same,
    "inv-desc-dup-inherited": lambda draw, spec: (
        (op_inv_dup_two_parents(draw, spec) if draw(st.integers(0, 2)) == 0 else None) or op_inv_dup_inherited(draw, spec)
    ),
    "doc-dangling-class": _doc_op("class"),
    "doc-dangling-attr": _doc_op("attr"),
    "doc-dangling-const": _doc_op("const"),
    "pattern-empty": _pattern_op("pattern-empty"),
    "pattern-no-caret": _pattern_op("pattern-no-caret"),
    "pattern-no-dollar": _pattern_op("pattern-no-dollar"),
    "pattern-alternation": _pattern_op("pattern-alternation"),
    # rules of the implementation that the property does not list (measured only)
    "x-missing-version": _drop_line("__version__ ="),
    "x-missing-xml-namespace": _drop_line("__xml_namespace__ ="),
    "x-missing-with-model-type": op_missing_wmt,
    "x-prop-never-assigned": op_never_assigned,
}  # type: Dict[str, Callable[[Draw, Spec], Result]]
