"""C14 — XSD enforces the constraints a class declares itself."""
from __future__ import annotations

import copy
import re
import shutil
import sys
from typing import Any, Dict, List, Optional, Tuple

from vlib import mmgen, runner, schemakit, sdk
from checks import c11, c13

PID = "C14"
RULE = (
    "Same models, schema and SDK documents as C13 (only documents of invariant-satisfying instances that validate are "
    "used). Up to 6 violating edits per document (each breaking ONE constraint; bounds that several declarations "
    "contribute to first) plus one structural edit, chosen from the spec: the neutral instance gets a string / byte array / list "
    "one shorter than the recognised minimum or one longer than the maximum, or a string outside a recognised pattern "
    "(confirmed with Python re) - only for constraints declared in the class that declares the property itself or in a "
    "constrained primitive it uses (as value or list item) - and is serialised again by the SDK; or the XML text gets a "
    "structural edit: unknown element inserted into a class element, two sibling property elements swapped, a required "
    "property element removed. Oracle: xmlschema reports the edited document INVALID. Excluded and counted: constraints "
    "that a descendant declares on an inherited property. Non-trivial = constraint edit (not structural); distinct by "
    "(model, document, edit)."
)
ASSUMPTIONS = c13.ASSUMPTIONS + [
    "'own class' of a property = the class that declares it; constraints declared there hold for descendants as well",
]

cases = c11.cases


def declaring_class(spec: Any, cname: str, pname: str) -> str:
    for k in spec.ancestors(cname) + [cname]:
        if any(p.name == pname for p in spec.cls(k).props):
            return k
    return cname


def own_ref(spec: Any, cp_refs: Any, cname: str, pr: Any) -> Tuple[schemakit.Ref, int]:
    """Constraints declared in the property's declaring class + the constrained-primitive chain; count of excluded ones."""
    decl = declaring_class(spec, cname, pr.name)
    fn_pat = {f.name: f.pattern for f in spec.fns if f.kind == "pattern"}
    r = schemakit.Ref()
    excluded = 0
    core = pr.type.core
    if core.kind == "cp":
        base = cp_refs[core.name]
        r.len += base.len
        r.patterns += base.patterns
    for k in [cname] + spec.ancestors(cname):
        for inv in spec.cls(k).invs:
            t = inv.tags
            if t.get("prop") != pr.name or not t.get("recognised"):
                continue
            if k != decl:
                excluded += 1
                continue
            if t["form"] == "len":
                r.len.append((t["min"], t["max"], k))
            elif t["form"] == "pattern":
                r.patterns += [fn_pat[f] for f in t["fns"]]
    return r, excluded


MAX_EDITS_PER_DOC = 6


def edit_instance(spec: Any, cp_refs: Any, neutral: Any, a: int, b: int, ctx: Any) -> List[Tuple[str, Any]]:
    """(edit name, edited neutral instance) for up to MAX_EDITS_PER_DOC own-class constraints of the root
    instance, each edit breaking ONE constraint; bounds that several declarations contribute to come first."""
    cname = neutral["cls"]
    cands = []  # type: List[Tuple[str, Any]]
    for pr in spec.all_props(cname):
        v = neutral["props"].get(pr.name)
        if v is None:
            continue
        r, excluded = own_ref(spec, cp_refs, cname, pr)
        if excluded and ctx is not None:
            ctx.exclude("constraint-declared-by-descendant-on-inherited-property")
        core = pr.type.core
        kind = core.name if core.kind == "prim" else (spec.cp_prim(core.name) if core.kind == "cp" else core.kind)
        lo, hi = r.len_range()
        where = "constrained-primitive" if core.kind == "cp" else "own-class"
        if len({mx for _, mx, _ in r.len if mx is not None}) > 1 or len({mn for mn, _, _ in r.len if mn is not None}) > 1:
            where += ":several-bounds"  # the tightest of several declared bounds is the one that counts

        def put(val: Any, pname: str = pr.name) -> Any:
            n = copy.deepcopy(neutral)
            n["props"][pname] = val
            return n

        if r.len and kind == "str":
            if lo >= 1:
                cands.append((f"string-shorter-than-min:{where}", put(v[: lo - 1])))
            if hi is not None:
                cands.append((f"string-longer-than-max:{where}", put((v + "a" * (hi + 1))[: hi + 1])))
        if r.len and kind == "bytearray":
            if lo >= 1:
                cands.append((f"bytes-shorter-than-min:{where}", put({"bytes": v["bytes"][: lo - 1]})))
            if hi is not None:
                cands.append((f"bytes-longer-than-max:{where}", put({"bytes": (v["bytes"] + [0] * (hi + 1))[: hi + 1]})))
        if r.len and kind == "list":
            if lo >= 1:
                cands.append((f"list-shorter-than-min:{where}", put(v[: lo - 1])))
            if hi is not None and v:
                cands.append((f"list-longer-than-max:{where}", put((v * (hi + 2))[: hi + 1])))
        if r.patterns and kind == "str":
            for cand in ["!" + v, v + "!", "!", "é!"]:
                if any(re.match(p, cand) is None for p in r.patterns) and not c13.c10_bad(cand):
                    cands.append((f"string-outside-pattern:{where}", put(cand)))
                    break
        if core.kind == "list" and core.item.kind == "cp" and v:
            ir = cp_refs[core.item.name]
            ilo, ihi = ir.len_range()
            ikind = spec.cp_prim(core.item.name)
            if ir.len and ikind == "str":
                if ilo >= 1:
                    cands.append(("item-string-shorter-than-min:constrained-primitive", put([v[0][: ilo - 1]] + v[1:])))
                if ihi is not None:
                    cands.append(("item-string-longer-than-max:constrained-primitive", put([(v[0] + "a" * (ihi + 1))[: ihi + 1]] + v[1:])))
            if ir.patterns and ikind == "str":
                for cand in ["!" + v[0], "!"]:
                    if any(re.match(p, cand) is None for p in ir.patterns):
                        cands.append(("item-string-outside-pattern:constrained-primitive", put([cand] + v[1:])))
                        break
    if not cands:
        return []
    k = a % len(cands)
    cands = cands[k:] + cands[:k]
    cands.sort(key=lambda c: 0 if c[0].endswith(":several-bounds") else 1)  # stable
    return cands[:MAX_EDITS_PER_DOC]


_TAG = re.compile(r"<(/?)([A-Za-z_][\w.-]*)((?: [^>]*?)?)(/?)>")


def structural_edit(xml: str, a: int, b: int) -> Optional[Tuple[str, str]]:
    """Edits among the direct children of the root element."""
    kids = _children_of_root(xml)
    if kids is None:
        return None
    root_open_end, spans = kids
    kind = b % 3
    if kind == 0:
        return "unknown-element", xml[:root_open_end] + "<unknownElement>x</unknownElement>" + xml[root_open_end:]
    if kind == 1 and len(spans) >= 2:
        i = a % (len(spans) - 1)
        (s1, e1), (s2, e2) = spans[i], spans[i + 1]
        if xml[s1:e1] == xml[s2:e2]:
            return None
        return "misplaced-element", xml[:s1] + xml[s2:e2] + xml[e1:s2] + xml[s1:e1] + xml[e2:]
    if kind == 2 and spans:
        s, e = spans[a % len(spans)]
        return "removed-element", xml[:s] + xml[e:]
    return None


def _children_of_root(xml: str) -> Optional[Tuple[int, List[Tuple[int, int]]]]:
    ms = list(_TAG.finditer(xml))
    if not ms or ms[0].group(1) or ms[0].group(4):
        return None
    depth = 0
    spans = []  # type: List[Tuple[int, int]]
    start = None
    for m in ms:
        closing, selfclosing = bool(m.group(1)), m.group(0).endswith("/>")
        if closing:
            depth -= 1
            if depth == 1 and start is not None:
                spans.append((start, m.end()))
                start = None
        elif selfclosing:
            if depth == 1:
                spans.append((m.start(), m.end()))
        else:
            if depth == 1:
                start = m.start()
            depth += 1
    return ms[0].end(), spans


def evaluate(case: Dict[str, Any], base: Any, ctx: Any = None) -> List[Tuple[str, str]]:
    fails = []  # type: List[Tuple[str, str]]
    ignore = []  # type: List[Tuple[str, str]]
    p = c13.prepare(case, base, ctx, ignore)
    if p is None:
        return fails
    with p.sdk:
        spec = p.spec
        cp_refs, prop_refs = schemakit.build_refs(spec)
        edits = list(case.get("edits") or [])
        required = {schemakit.xml_name(pr.name) for c in spec.classes for pr in c.props if not pr.type.optional}
        for idx, (neutral, x, xml) in enumerate(p.docs):
            try:
                if not p.schema.is_valid(xml):
                    if ctx is not None:
                        ctx.exclude("unedited-document-invalid(C13)")
                    continue
            except BaseException:  # noqa
                continue
            a, b = edits[idx % len(edits)] if edits else (0, 0)
            todo = []  # type: List[Tuple[str, str, bool]]
            for name, edited in edit_instance(spec, cp_refs, neutral, a, b, ctx):
                try:
                    exml = p.sdk.xmlization.to_str(sdk.to_sdk(spec, p.sdk, edited))
                    todo.append((name, exml, True))
                except BaseException:  # noqa
                    pass
            se = structural_edit(xml, a, b)
            if se is not None:
                name, exml = se
                if name == "removed-element":
                    # only certainly invalid when the removed element is a required property
                    m = _TAG.search(exml)
                    removed_tag = None
                    kids = _children_of_root(xml)
                    if kids is not None and kids[1]:
                        s, e = kids[1][a % len(kids[1])]
                        mm = _TAG.match(xml, s)
                        removed_tag = mm.group(2) if mm else None
                    if removed_tag in required:
                        todo.append(("removed-required-element", exml, False))
                else:
                    todo.append((name, exml, False))
            for name, exml, nt in todo:
                if ctx is not None:
                    ctx.case(nt, key=[p.text, xml, name], sample={"edit": name, "edited": exml[:500], "original": xml[:500]},
                             classes=[f"edit:{name}"])
                try:
                    still_valid = p.schema.is_valid(exml)
                except BaseException as e:  # noqa
                    fails.append((f"validator-raises:{type(e).__name__}", runner.exc_text(e)))
                    continue
                if still_valid:
                    if name in ("misplaced-element", "removed-required-element") and c13._is_diamond(spec, neutral["cls"]):
                        # the XSD of a class with diamond inheritance refers to the common ancestor's group twice
                        # (recorded under C13): its elements are admitted at two places of the sequence
                        name += ":class-with-diamond-inheritance-gets-the-common-ancestor-group-twice"
                    fails.append((f"violating-edit-accepted:{name}",
                                  f"edited={exml[:800]}\noriginal={xml[:800]}\ninstance={neutral!r}\n{p.text[-1800:]}"))
    return fails


def shard(ctx: runner.Ctx) -> None:
    n = ctx.n(250, 10_000)
    n_inst = c13.N_INST_QUICK if ctx.quick else c13.N_INST_THOROUGH

    def one(case: Dict[str, Any]) -> None:
        ctx.classes["models"] += 1
        for b, m in evaluate(case, ctx.scratch, ctx):
            ctx.fail(b, case, m)

    runner.hyp_run(cases(n_inst), one, n, ctx.seed)


def replay(case: Any) -> List[Tuple[str, str]]:
    if not isinstance(case, dict) or "spec" not in case:
        return []
    base = runner.make_scratch("c14-replay")
    try:
        case = dict(case)
        case.setdefault("instances", [])
        case.setdefault("edits", [])
        return evaluate(case, base, None)
    except (KeyError, TypeError, AttributeError, IndexError, AssertionError, StopIteration, ValueError):
        return []
    finally:
        shutil.rmtree(base, ignore_errors=True)


def health(m: Any, tier: str) -> Any:
    edits = sum(v for k, v in m["classes"].items() if k.startswith("edit:"))
    if edits < m["classes"].get("models", 0):
        return f"only {edits} edits; excluded={m['excluded']}"
    return None


if __name__ == "__main__":
    runner.main(sys.modules[__name__])
