"""
C20 generator: meta-models whose *texts* are adversarial for the target languages.

Wraps ``vlib.mmgen``: a base spec is drawn without descriptions, then every kind of text is
replaced/added here:

* descriptions (module, class, constrained primitive, enumeration, enumeration literal, property,
  constant, verification function incl. ``:param:``/``:returns:``) written as reStructuredText that
  docutils accepts without warnings: summary, remark paragraphs, bullet lists, notes, literals,
  emphasis, roles resolved against the spec, URLs, ``:constraint X:`` fields;
* invariant messages, enumeration literal values, string constants and string-set constants.

Every planted fragment is preceded by a unique marker word (``mk<N>q``) so that the check can
show that the text reached a generated file.
"""
from __future__ import annotations

import dataclasses
from typing import Any, Dict, List, Optional, Tuple

from hypothesis import strategies as st

from vlib import mmgen

# ---------------------------------------------------------------------------
# Fragments (the text as the *targets* see it, after docutils)
# ---------------------------------------------------------------------------

# terminators / openers of comments, docstrings and literals of the six languages, XML, templates
DOC_FRAGMENTS = [
    '"', "'", '""', '"""', "'''", '""""', "\\", "\\\\", '\\"', "\\'", "\\n", "\\u", "\\user", "\\u0041",
    "\\u000a", "\\u005c", "\\x", "\\0",
    "*/", "/*", "/**", "*/*", "//", "///", "/", "*",
    "<", ">", "&", "&amp;", "&lt;", "&#x0;", "&nbsp;", "&;", "-->", "<!--", "]]>", "<![CDATA[", "?>", "<?",
    "</summary>", "<summary>", "<b>", "<para>", "</remarks>", '<see cref="x"/>', "<a href='x'>",
    "{@link x}", "{@code x}", "{@", "@param", "@", "@see", "}", "{", "{}", "${x}", "${", "#{x}",
    "`", "```", "%s", "%", "{0}", "$", "#", "#:", "~", "^", "[", "]", "(", ")", "=", "+", "|", "_", "x_",
    "\u00e9", "\U0001F600", "\u00a0", "x" * 90, "a*/b", "a\\b", "??/", "??)", ":x:", "::", "...",
]

# the ones that most often matter at the very end of a description
DOC_END_FRAGMENTS = ['"', "'", "\\", "*/", '""', '"""', "'''", "\\\\", "/", "*", "`", "<", "&", "{", "\\u", "??/"]

# fragments that may stand in an inline literal (``...``): no backtick; no leading/trailing blank
LITERAL_FRAGMENTS = [f for f in DOC_FRAGMENTS if "`" not in f and f.strip() == f and f != "\u00a0"] + [
    'a"b', "x*/y", "C:\\users\\x", "\\d+", "@code", "a}b", "a{b", "<x>", "&x;", '"""', "'''", "*/", "\\",
]

# texts of string literals (messages, enumeration values, constants); control characters and the
# new-line-like characters are the domain of C19 and are left out here
LIT_FRAGMENTS = [
    '"', "'", '""', '"""', "'''", "\\", "\\\\", '\\"', "\\'", "\\n", "\\t", "\\u0041", "\\u", "\\x4", "\\x41", "\\0", "\\",
    "*/", "/*", "//", "<", ">", "&", "&amp;", "]]>", "-->", "</", "${x}", "${", "#{x}", "{", "}", "{{", "}}", "{0}",
    "`", "%s", "%d", "%", "%%", "$", '$"', '@"', '"@', "#", "@", "?", "??/", "\u00e9", "\U0001F600", "\u00a0",
    "x" * 70, " ", "  ",
]

URL_FRAGMENTS = ["a*/b", "x?y=1&z=2", "q'r", "p(1)", "~u", "a%20b", "e/f//g", "h$i", "k@l", "m;n", "o=p+q", "r,s"]

SAFE_WORDS = ["Represent", "some", "thing", "of", "the", "model", "value", "with", "items",
              "and", "a", "reference", "for", "testing", "purposes", "only", "an", "element"]

CONSTRAINT_IDS = ["AASd-{n}", "AASc-3a-{n}", "C{n}", "c-{n}.x", "a*/b{n}", 'q"{n}', "x&y{n}", "p<{n}>", "e\\{n}", "k'{n}"]


def rst_escape(fragment: str) -> str:
    """RST source whose parsed text is exactly ``fragment`` (every ASCII punctuation escaped)."""
    out = []
    for ch in fragment:
        if ch == " " or ch.isalnum() or ord(ch) > 0x7F:
            out.append(ch)
        else:
            out.append("\\" + ch)
    return "".join(out)


def py_docstring_source(value: str) -> str:
    """Source text to put between triple double-quotes so that the literal evaluates to ``value``."""
    out = []
    for ch in value:
        if ch == "\\":
            out.append("\\\\")
        elif ch == '"':
            out.append('\\"')
        elif ch == "\n" or 0x20 <= ord(ch) < 0x7F:
            out.append(ch)
        elif ord(ch) > 0xFFFF:
            out.append(f"\\U{ord(ch):08x}")
        else:
            out.append(f"\\u{ord(ch):04x}")
    return "".join(out)


@dataclasses.dataclass
class Plant:
    marker: str
    fragment: str
    where: str  # e.g. class-doc, property-doc, invariant-message, enum-value, ...
    form: str  # text | literal | emphasis | url | constraint-id | value


class Planter:
    """Hand out markers and remember what was planted."""

    def __init__(self, avoid: Optional[Any] = None) -> None:
        self.plants = []  # type: List[Plant]
        self.avoid = avoid  # predicate (fragment, where, form) -> bool: do not generate

    def pick(self, draw: Any, pool: List[str], where: str, form: str) -> str:
        """Draw a fragment of ``pool`` that is not to be avoided."""
        if self.avoid is not None:
            pool = [f for f in pool if not self.avoid(f, where, form)] or ["~"]
        return draw(st.sampled_from(pool))

    def plant(self, fragment: str, where: str, form: str) -> str:
        marker = f"mk{len(self.plants)}q"
        self.plants.append(Plant(marker, fragment, where, form))
        return marker


@dataclasses.dataclass
class DocCtx:
    """What a description may refer to."""

    where: str
    classes: List[str] = dataclasses.field(default_factory=list)  # names usable in :class:
    own_attrs: List[str] = dataclasses.field(default_factory=list)  # :attr:`x` in the enclosing type
    qualified_attrs: List[str] = dataclasses.field(default_factory=list)  # :attr:`Cls.x`
    consts: List[str] = dataclasses.field(default_factory=list)
    args: List[str] = dataclasses.field(default_factory=list)
    constraint_ids: List[str] = dataclasses.field(default_factory=list)  # defined so far (global)
    allow_constraints: bool = False
    returns: bool = False


def _word(draw: Any) -> str:
    return draw(st.sampled_from(SAFE_WORDS))


def _inline(draw: Any, ctx: DocCtx, planter: Planter, adversarial: float) -> str:
    """One inline piece of RST (never starts or ends with a blank)."""
    r = draw(st.floats(0, 1))
    if r >= adversarial:
        return _word(draw)
    kind = draw(st.sampled_from(["text", "text", "text", "text", "literal", "literal", "emphasis", "role", "role", "url"]))
    if kind == "text":
        frag = planter.pick(draw, DOC_FRAGMENTS, ctx.where, "text")
        marker = planter.plant(frag, ctx.where, "text")
        glue = draw(st.sampled_from([" ", " ", ""]))
        tail = draw(st.sampled_from(["", "", "end"]))
        return f"{marker}{glue}{rst_escape(frag)}{tail}"
    if kind == "literal":
        frag = planter.pick(draw, LITERAL_FRAGMENTS, ctx.where, "literal")
        marker = planter.plant(frag, ctx.where, "literal")
        style = draw(st.integers(0, 2))
        if style == 0:
            return f"{marker} ``{frag}``"
        if style == 1:
            return f"``{marker}{frag}``"
        return f"``{frag}{marker}``"
    if kind == "emphasis":
        frag = planter.pick(draw, [f for f in DOC_FRAGMENTS if f.strip() == f], ctx.where, "emphasis")
        marker = planter.plant(frag, ctx.where, "emphasis")
        return f"*{marker} {rst_escape(frag)}*"
    if kind == "url":
        frag = planter.pick(draw, URL_FRAGMENTS, ctx.where, "url")
        marker = planter.plant(frag, ctx.where, "url")
        return f"https://example.com/{marker}/{frag}"
    # role
    choices = []  # type: List[str]
    if ctx.classes:
        choices.append("class")
    if ctx.own_attrs:
        choices.append("own_attr")
    if ctx.qualified_attrs:
        choices.append("attr")
    if ctx.consts:
        choices.append("const")
    if ctx.args:
        choices.append("paramref")
    if ctx.constraint_ids and "\\" not in ctx.constraint_ids[-1]:
        choices.append("constraintref")
    if not choices:
        return _word(draw)
    which = draw(st.sampled_from(choices))
    prefix = draw(st.sampled_from(["", "", "~", "!"]))
    if which == "class":
        return f":class:`{prefix}{draw(st.sampled_from(ctx.classes))}`"
    if which == "own_attr":
        return f":attr:`{prefix}{draw(st.sampled_from(ctx.own_attrs))}`"
    if which == "attr":
        return f":attr:`{prefix}{draw(st.sampled_from(ctx.qualified_attrs))}`"
    if which == "const":
        return f":const:`{prefix}{draw(st.sampled_from(ctx.consts))}`"
    if which == "paramref":
        return f":paramref:`{draw(st.sampled_from(ctx.args))}`"
    # the role content is taken verbatim (no escapes are interpreted in the reference)
    return f":constraintref:`{ctx.constraint_ids[-1]}`"


def _paragraph(draw: Any, ctx: DocCtx, planter: Planter, adversarial: float, end_fragment: bool) -> List[str]:
    """Lines of one paragraph; every line starts with a plain word."""
    n_lines = draw(st.sampled_from([1, 1, 1, 2, 3]))
    lines = []  # type: List[str]
    for li in range(n_lines):
        n = draw(st.integers(1, 7))
        parts = [_word(draw) if li > 0 else "Represent"]
        for _ in range(n):
            parts.append(_inline(draw, ctx, planter, adversarial))
        lines.append(" ".join(parts))
    if end_fragment:
        frag = planter.pick(draw, DOC_END_FRAGMENTS, ctx.where, "text-at-end")
        marker = planter.plant(frag, ctx.where, "text-at-end")
        glue = draw(st.sampled_from([" ", ""]))
        lines[-1] += f" {marker}{glue}{rst_escape(frag)}"
    elif draw(st.booleans()):
        lines[-1] += "."
    return lines


def _indent(lines: List[str], prefix: str) -> List[str]:
    return [prefix + ln if ln else "" for ln in lines]


def description(draw: Any, ctx: DocCtx, planter: Planter, adversarial: float = 0.45) -> str:
    """The RST source of one description."""
    n_remarks = draw(st.sampled_from([0, 0, 0, 1, 1, 2, 3]))
    n_constraints = draw(st.sampled_from([0, 0, 0, 1, 2])) if ctx.allow_constraints else 0
    n_params = len(ctx.args) if (ctx.args and draw(st.booleans())) else 0
    with_returns = ctx.returns and draw(st.booleans())

    n_blocks = 1 + n_remarks + n_constraints + n_params + (1 if with_returns else 0)
    # where the description ends decides what the "end fragment" terminates
    end_here = draw(st.floats(0, 1)) < 0.5
    blocks = []  # type: List[List[str]]

    def is_last() -> bool:
        return len(blocks) == n_blocks - 1

    blocks.append(_paragraph(draw, ctx, planter, adversarial, end_here and is_last()))
    for _ in range(n_remarks):
        kind = draw(st.sampled_from(["para", "para", "bullets", "note"]))
        last = end_here and is_last()
        if kind == "para":
            blocks.append(_paragraph(draw, ctx, planter, adversarial, last))
        elif kind == "bullets":
            n_items = draw(st.integers(1, 3))
            lines = []  # type: List[str]
            for i in range(n_items):
                item = _paragraph(draw, ctx, planter, adversarial, last and i == n_items - 1)
                lines.append("* " + item[0])
                lines.extend(_indent(item[1:], "  "))
            blocks.append(lines)
        else:
            body = _paragraph(draw, ctx, planter, adversarial, last)
            if draw(st.integers(0, 3)) == 0:
                body = body + [""] + _paragraph(draw, ctx, planter, adversarial, False)
            blocks.append([".. note::", ""] + _indent(body, "    "))

    field_lines = []  # type: List[str]
    n_fields = n_constraints + n_params + (1 if with_returns else 0)
    fi = 0
    for _ in range(n_constraints):
        fi += 1
        pattern = planter.pick(draw, CONSTRAINT_IDS[:4] * 3 + CONSTRAINT_IDS[4:], ctx.where, "constraint-id")
        if pattern in CONSTRAINT_IDS[4:]:
            cid = pattern.format(n=planter.plant(pattern, ctx.where, "constraint-id"))
        else:
            cid = pattern.format(n=len(ctx.constraint_ids) + 100)
        body = _paragraph(draw, ctx, planter, adversarial, end_here and fi == n_fields)
        ctx.constraint_ids.append(cid)
        field_lines.append(f":constraint {rst_escape(cid)}:")
        field_lines.extend(_indent(body, "    "))
        if draw(st.integers(0, 4)) == 0:
            field_lines.append("")
            field_lines.extend(_indent(_paragraph(draw, ctx, planter, adversarial, False), "    "))
    for i in range(n_params):
        fi += 1
        body = _paragraph(draw, ctx, planter, adversarial, end_here and fi == n_fields)
        if len(body) == 1 and draw(st.booleans()):
            field_lines.append(f":param {ctx.args[i]}: {body[0]}")
        else:
            field_lines.append(f":param {ctx.args[i]}:")
            field_lines.extend(_indent(body, "    "))
    if with_returns:
        fi += 1
        body = _paragraph(draw, ctx, planter, adversarial, end_here and fi == n_fields)
        key = draw(st.sampled_from(["returns", "return"]))
        if len(body) == 1 and draw(st.booleans()):
            field_lines.append(f":{key}: {body[0]}")
        else:
            field_lines.append(f":{key}:")
            field_lines.extend(_indent(body, "    "))
    if field_lines:
        blocks.append(field_lines)
    return "\n\n".join("\n".join(b) for b in blocks)


def literal_text(draw: Any, planter: Planter, where: str, words: bool = True) -> str:
    """Text of a message / value: words and fragments, carrying a marker (thus unique)."""
    pool = LIT_FRAGMENTS
    if planter.avoid is not None:
        pool = [f for f in pool if not planter.avoid(f, where, "value")] or ["~"]
    frags = draw(st.lists(st.sampled_from(pool), min_size=1, max_size=3))
    parts = []  # type: List[str]
    if words and draw(st.booleans()):
        parts.append(draw(st.sampled_from(["Value", "The item", "It"])) + " ")
    for i, frag in enumerate(frags):
        marker = planter.plant(frag, where, "value")
        glue = draw(st.sampled_from([" ", ""]))
        parts.append(f"{marker}{glue}{frag}")
        if i + 1 < len(frags):
            parts.append(draw(st.sampled_from([" ", " must be ", ""])))
    if draw(st.integers(0, 2)) == 0:
        parts.append(draw(st.sampled_from([" end", ".", " "])))
    return "".join(parts)


# ---------------------------------------------------------------------------
# Specs
# ---------------------------------------------------------------------------


@dataclasses.dataclass
class TextSpec:
    spec: mmgen.Spec
    literal_docs: Dict[str, Dict[str, str]]  # enumeration -> literal -> RST source
    plants: List[Plant]
    avoided_known: bool = False


@st.composite
def text_specs(draw: Any, max_classes: int = 4, adversarial: float = 0.45, avoid: Optional[Any] = None) -> TextSpec:
    opts = mmgen.Opts(
        max_classes=draw(st.integers(1, max_classes)),
        max_props=draw(st.integers(0, 3)),
        max_cps=2,
        docs="none",
        adversarial_text=False,
        invariants=draw(st.sampled_from(["general", "schema", "schema"])),
        max_invs=2,
    )
    spec = draw(mmgen.specs(opts))
    planter = Planter(avoid)
    p_doc = draw(st.sampled_from([0.5, 0.8, 1.0]))

    def want() -> bool:
        return draw(st.floats(0, 1)) < p_doc

    class_names = [c.name for c in spec.classes] + [e.name for e in spec.enums] + [c.name for c in spec.cps]
    qualified = [f"{c.name}.{p.name}" for c in spec.classes for p in c.props]
    qualified += [f"{e.name}.{n}" for e in spec.enums for n, _ in e.literals]
    const_names = [c.name for c in spec.consts]
    constraint_ids = []  # type: List[str]

    def ctx(where: str, own: Optional[List[str]] = None, allow_constraints: bool = False,
            args: Optional[List[str]] = None, returns: bool = False) -> DocCtx:
        return DocCtx(where=where, classes=class_names, own_attrs=own or [], qualified_attrs=qualified,
                      consts=const_names, args=args or [], constraint_ids=constraint_ids,
                      allow_constraints=allow_constraints, returns=returns)

    if want():
        spec.module_doc = py_docstring_source(
            description(draw, ctx("module-doc", allow_constraints=True), planter, adversarial))

    literal_docs = {}  # type: Dict[str, Dict[str, str]]
    for e in spec.enums:
        own = [n for n, _ in e.literals]
        if want():
            e.doc = py_docstring_source(
                description(draw, ctx("enumeration-doc", own, allow_constraints=True), planter, adversarial))
        literal_docs[e.name] = {}
        new_literals = []
        for n, v in e.literals:
            if want():
                literal_docs[e.name][n] = py_docstring_source(
                    description(draw, ctx("enumeration-literal-doc", own), planter, adversarial))
            if draw(st.booleans()):
                v = literal_text(draw, planter, "enumeration-literal-value", words=False)
            new_literals.append((n, v))
        e.literals = new_literals

    for cp in spec.cps:
        if want():
            cp.doc = py_docstring_source(
                description(draw, ctx("constrained-primitive-doc", allow_constraints=True), planter, adversarial))
        for inv in cp.invs:
            if draw(st.booleans()):
                inv.desc = literal_text(draw, planter, "invariant-message")

    for c in spec.classes:
        own = [p.name for p in c.props]
        if want():
            c.doc = py_docstring_source(
                description(draw, ctx("class-doc", own, allow_constraints=True), planter, adversarial))
        for p in c.props:
            if want():
                p.doc = py_docstring_source(
                    description(draw, ctx("property-doc", own, allow_constraints=True), planter, adversarial))
        for inv in c.invs:
            if draw(st.booleans()):
                inv.desc = literal_text(draw, planter, "invariant-message")

    for k in spec.consts:
        if want():
            # rendered with pystr(): the value itself, not source text
            k.doc = description(draw, ctx("constant-doc"), planter, adversarial)
        if k.kind == "str" and draw(st.booleans()):
            k.value = literal_text(draw, planter, "string-constant")
        elif k.kind == "set_str" and not k.superset_of and draw(st.booleans()) and not any(
                k.name in o.superset_of for o in spec.consts):
            k.value = [literal_text(draw, planter, "string-set-constant", words=False)
                       for _ in range(draw(st.integers(1, 3)))]

    for f in spec.fns:
        if want():
            args = [a for a, _ in f.args]
            f.doc = py_docstring_source(
                description(draw, ctx("function-doc", args=args, returns=True), planter, adversarial))

    return TextSpec(spec, literal_docs, planter.plants, avoid is not None)


# ---------------------------------------------------------------------------
# Rendering (mmgen's, plus docstrings of enumeration literals)
# ---------------------------------------------------------------------------


def render_enum(e: mmgen.Enm, docs: Dict[str, str]) -> List[str]:
    out = [f"class {e.name}(Enum):"]
    out.extend(mmgen._doc(e.doc, "    "))
    for n, v in e.literals:
        out.append(f"    {n} = {mmgen.pystr(v)}")
        if n in docs:
            out.extend(mmgen._doc(docs[n], "    "))
            out.append("")
    if not e.literals and e.doc is None:
        out.append("    pass")
    return out


def render(ts: TextSpec) -> str:
    spec = ts.spec
    lines = []  # type: List[str]
    if spec.module_doc is not None:
        lines.extend(mmgen._doc(spec.module_doc, ""))
        lines.append("")
    lines.append(mmgen.HEADER)
    for kind, name in spec.order:
        if kind == "enum":
            lines.extend(render_enum(spec.enum(name), ts.literal_docs.get(name, {})))
        elif kind == "cp":
            lines.extend(mmgen.render_cp(spec.cp(name)))
        elif kind == "class":
            lines.extend(mmgen.render_class(spec, spec.cls(name)))
        elif kind == "const":
            lines.extend(mmgen.render_const(next(c for c in spec.consts if c.name == name)))
        elif kind == "fn":
            lines.extend(mmgen.render_fn(next(f for f in spec.fns if f.name == name)))
        lines.append("")
        lines.append("")
    lines.append(f"__version__ = {mmgen.pystr(spec.version)}")
    lines.append("")
    lines.append(f"__xml_namespace__ = {mmgen.pystr(spec.xml_namespace)}")
    return "\n".join(lines) + "\n"
