"""C30 — Generated constants and enumerations match the meta-model."""
from __future__ import annotations

import enum
import shutil
import struct
import sys
from typing import Any, Dict, List, Tuple

from hypothesis import strategies as st

from vlib import mmgen, runner, sdk
from vlib.refmodel import py_class, py_upper

PID = "C30"
RULE = (
    "Hypothesis: accepted meta-model with up to 8 constants (str from an alphabet of control characters, quotes, "
    "backslash, U+0085/2028/2029/FEFF, astral, '{', '$', '`'; ints up to 10^30; floats incl. inf (1e999), subnormal, "
    "max, 0.1+0.2, 1e22; bool), constant sets of str/int/enumeration literals with superset_of chains, enumerations with "
    "1-6 literals whose values come from an adversarial alphabet -> Python SDK imported. Oracle: constants module "
    "attribute equals the spec value (same type; floats by bit pattern); every set equals, as a Python set, its listed "
    "literals united with those of its declared subsets (enumeration literals mapped to SDK members); every enumeration "
    "has exactly the declared (NAME, value) pairs in order; X_from_str(value) is the literal for every literal and None for "
    "near-miss texts (case variants, surrounding spaces, prefixes, empty). Non-trivial = model with a superset chain of "
    "depth >= 2 or an enumeration with >= 2 literals plus >= 1 constant; distinct by model text."
)
ASSUMPTIONS = [
    "SDK naming convention re-implemented (UPPER_SNAKE constants and literals, CamelCase enumerations, lower_snake functions)",
    "negative numeric constants cannot be written in the meta-model (a '-1' literal is a unary expression) and bytearray "
    "constants are never accepted by the front end, so neither is generated",
]


def opts() -> mmgen.Opts:
    return mmgen.Opts(max_classes=2, max_props=2, max_enums=3, max_consts=8, max_literals=6, invariants="none",
                      docs="none", adversarial_text=True, weird_values=True, fns=False, max_cps=1)


@st.composite
def cases(draw: Any) -> Dict[str, Any]:
    spec = draw(mmgen.specs(opts()))
    probes = draw(st.lists(st.text(alphabet=st.sampled_from(list("abAB -_xé\"'")), max_size=5), min_size=4, max_size=4))
    return {"spec": spec.to_json(), "probes": probes}


def chain_depth(spec: mmgen.Spec, name: str) -> int:
    c = next(k for k in spec.consts if k.name == name)
    return 1 + max([chain_depth(spec, s) for s in c.superset_of] + [0])


def expected_set(spec: mmgen.Spec, c: Any) -> List[Any]:
    out = list(c.value)
    for sname in c.superset_of:
        sub = next(k for k in spec.consts if k.name == sname)
        out += expected_set(spec, sub)
    return out


def _feq(a: Any, b: Any) -> bool:
    return struct.pack("<d", a) == struct.pack("<d", b)


def evaluate(case: Dict[str, Any], base: Any, ctx: Any = None) -> List[Tuple[str, str]]:
    fails = []  # type: List[Tuple[str, str]]
    spec = mmgen.Spec.from_json(case["spec"])
    text = mmgen.render(spec)
    try:
        s, why = sdk.build_py_sdk(text, base)
    except BaseException as e:  # noqa
        msg = str(e)
        cause = "other"
        if "null bytes" in msg:
            cause = "NUL-character-raw-in-generated-source"
        elif "'inf'" in msg or "'nan'" in msg:
            cause = "non-finite-float-constant-rendered-as-bare-name"
        return [(f"sdk-import-fails:{type(e).__name__}:{cause}", runner.exc_text(e))]
    if s is None:
        if ctx is not None:
            ctx.exclude("python-target-" + why.split(":")[0])
        return []
    depth = max([chain_depth(spec, c.name) for c in spec.consts if c.kind.startswith("set_")] + [0])
    nt = depth >= 2 or (any(len(e.literals) >= 2 for e in spec.enums) and len(spec.consts) >= 1)
    if ctx is not None:
        ctx.case(nt, key=text, sample={"constants": [[c.name, c.kind, repr(c.value)[:60], c.superset_of] for c in spec.consts],
                                       "enums": [[e.name, e.literals] for e in spec.enums]},
                 classes=[f"chain-depth:{depth}", f"consts:{min(len(spec.consts), 5)}"])
    with s:
        for c in spec.consts:
            got = getattr(s.constants, py_upper(c.name), _MISSING)
            if got is _MISSING:
                fails.append(("constant-missing", f"{c.name} not in constants module"))
                continue
            if c.kind.startswith("set_"):
                exp_vals = expected_set(spec, c)
                if c.kind == "set_enum":
                    en = getattr(s.types, py_class(c.enum))
                    exp = {getattr(en, py_upper(v)) for v in exp_vals}
                else:
                    exp = set(exp_vals)
                if not isinstance(got, (set, frozenset)) or set(got) != exp:
                    cause = ""
                    if c.kind == "set_str" and any(ch in v for v in exp for ch in _LINE_BREAKS):
                        cause = ":literal-with-line-break-character"
                    fails.append((f"set-differs:{c.kind}{cause}", f"{c.name}: sdk={got!r} expected={exp!r} superset_of={c.superset_of}"))
                elif any(type(a) is not type(b) for a, b in zip(sorted(got, key=repr), sorted(exp, key=repr))):
                    fails.append((f"set-element-type-differs:{c.kind}", f"{c.name}: sdk={got!r} expected={exp!r}"))
            else:
                exp = c.value
                if type(got) is not type(exp):
                    fails.append((f"constant-type-differs:{c.kind}", f"{c.name}: sdk={got!r} ({type(got).__name__}) expected={exp!r}"))
                elif c.kind == "float":
                    if not _feq(got, exp):
                        fails.append(("constant-differs:float", f"{c.name}: sdk={got!r} expected={exp!r}"))
                elif got != exp:
                    cause = ":literal-with-line-break-character" if c.kind == "str" and any(ch in exp for ch in _LINE_BREAKS) else ""
                    fails.append((f"constant-differs:{c.kind}{cause}", f"{c.name}: sdk={got!r} expected={exp!r}"))
        for e in spec.enums:
            en = getattr(s.types, py_class(e.name), None)
            if en is None or not (isinstance(en, type) and issubclass(en, enum.Enum)):
                fails.append(("enumeration-missing", e.name))
                continue
            got_pairs = [(m.name, m.value) for m in en]
            exp_pairs = [(py_upper(n), v) for n, v in e.literals]
            if got_pairs != exp_pairs:
                fails.append(("enumeration-literals-differ", f"{e.name}: sdk={got_pairs!r} expected={exp_pairs!r}"))
                continue
            from_str = getattr(s.stringification, f"{e.name.lower()}_from_str", None)
            if from_str is None:
                fails.append(("from_str-missing", e.name))
                continue
            values = {v for _, v in e.literals}
            for n, v in e.literals:
                try:
                    lit = from_str(v)
                except BaseException as ex:  # noqa
                    fails.append((f"from_str-raises:{type(ex).__name__}", f"{e.name} {v!r}\n{runner.exc_text(ex)}"))
                    continue
                if lit is not getattr(en, py_upper(n)):
                    fails.append(("from_str-roundtrip-differs", f"{e.name}: from_str({v!r}) = {lit!r}, expected {py_upper(n)}"))
                for t in [v.upper(), v.lower(), v + " ", " " + v, v[:-1], v + v, n, py_upper(n)] + list(case.get("probes") or []):
                    if t in values or not isinstance(t, str):
                        continue
                    try:
                        r = from_str(t)
                    except BaseException as ex:  # noqa
                        fails.append((f"from_str-raises:{type(ex).__name__}", f"{e.name} {t!r}\n{runner.exc_text(ex)}"))
                        continue
                    if r is not None:
                        fails.append(("from_str-accepts-foreign-text", f"{e.name}: from_str({t!r}) = {r!r}; values={sorted(values)!r}"))
    return fails


_MISSING = object()
_LINE_BREAKS = "\n\r\x0b\x0c\x1c\x1d\x1e\x85\u2028\u2029"


def shard(ctx: runner.Ctx) -> None:
    n = ctx.n(500, 30_000)

    def one(case: Dict[str, Any]) -> None:
        for b, m in evaluate(case, ctx.scratch, ctx):
            ctx.fail(b, case, m)

    runner.hyp_run(cases(), one, n, ctx.seed)


def replay(case: Any) -> List[Tuple[str, str]]:
    if not isinstance(case, dict) or "spec" not in case:
        return []
    base = runner.make_scratch("c30-replay")
    try:
        return evaluate(case, base, None)
    except (KeyError, TypeError, AttributeError, IndexError, AssertionError, StopIteration, ValueError):
        return []
    finally:
        shutil.rmtree(base, ignore_errors=True)


def health(m: Any, tier: str) -> Any:
    skipped = sum(m["excluded"].values())
    if skipped > 0.3 * max(1, m["evaluations"] + skipped):
        return f"{skipped} models skipped: {m['excluded']}"
    if m["nontrivial_n"] < 0.2 * max(1, m["evaluations"]):
        return "too few non-trivial models"
    return None


if __name__ == "__main__":
    runner.main(sys.modules[__name__])
