"""
C09: reference results from the Python SDK, comparison with a target's driver output, bucketing.

Result of one document (both sides)::

    {"ok": False, ...}                                  de-serialisation refused
    {"ok": True, "json": <jsonable>, "errors": [[[seg, ...], message], ...]}
    {"ok": "exception", "text": ...}                    something else escaped (bucketed on its own)
"""
from __future__ import annotations

import collections
import json
import math
import random
import re
from typing import Any, Dict, List, Optional, Tuple

from vlib import c09_gen
from vlib.c09_gen import canon
from vlib.mmgen import Spec, TRef
from vlib.schemakit import json_prop


# ---------------------------------------------------------------------------
# Python SDK = reference
# ---------------------------------------------------------------------------


def _index(mod: Any) -> Dict[str, Any]:
    return {canon(k): v for k, v in vars(mod).items() if not k.startswith("__")}


def manifest(spec: Spec) -> Dict[str, Any]:
    return {
        "classes": [c.name for c in spec.classes],
        "enums": [e.name for e in spec.enums],
        "constants": [{"name": c.name, "kind": c.kind, "enum": c.enum} for c in spec.consts],
    }


def py_meta(spec: Spec, s: Any) -> Dict[str, Any]:
    """Constants and enumerations of the Python SDK, in the drivers' format."""
    consts = {}  # type: Dict[str, Any]
    cidx = _index(s.constants)
    tidx = _index(s.types)
    for c in spec.consts:
        key = canon(c.name)
        if key not in cidx:
            consts[c.name] = {"missing": True}
            continue
        v = cidx[key]
        if c.kind == "bytearray":
            consts[c.name] = {"bytes": list(bytes(v))}
        elif c.kind == "set_enum":
            consts[c.name] = [x.value for x in v]
        elif c.kind.startswith("set_"):
            consts[c.name] = list(v)
        elif c.kind == "float" and not math.isfinite(v):
            consts[c.name] = {"nonfinite": str(v)}
        else:
            consts[c.name] = v
    enums = {}  # type: Dict[str, Any]
    for e in spec.enums:
        cls = tidx.get(canon(e.name))
        if cls is None:
            enums[e.name] = {"missing": True}
            continue
        enums[e.name] = [[m.name, m.value] for m in cls]
    return {"constants": consts, "enums": enums}


def py_eval(s: Any, idx: Dict[str, Any], cname: str, doc: Any) -> Dict[str, Any]:
    fn = idx.get(canon(cname) + "fromjsonable")
    if fn is None:
        return {"ok": "missing", "text": f"no {cname}_from_jsonable"}
    try:
        inst = fn(doc)
    except s.jsonization.DeserializationException as e:
        return {"ok": False, "msg": e.cause, "path": str(e.path)}
    except RecursionError:
        raise
    except Exception as e:  # noqa: recorded C10 finding (binascii.Error, UnicodeEncodeError): refused, but foreign
        return {"ok": False, "foreign": type(e).__name__, "msg": str(e)}
    try:
        jsonable = s.jsonization.to_jsonable(inst)
        errors = []
        for e in s.verification.verify(inst):
            segs = []  # type: List[Any]
            for seg in e.path.segments:
                if isinstance(seg, s.verification.PropertySegment):
                    segs.append(seg.name)
                else:
                    segs.append(seg.index)
            errors.append([segs, e.cause])
    except RecursionError:
        raise
    except Exception as e:  # noqa
        return {"ok": "exception", "text": f"{type(e).__name__}: {e}"}
    return {"ok": True, "json": jsonable, "errors": errors}


# ---------------------------------------------------------------------------
# Corpus
# ---------------------------------------------------------------------------


def entry_classes(spec: Spec, cname: str) -> List[str]:
    """The class itself and its ancestors: every one has a ``*_from_jsonable`` entry point."""
    return [cname] + list(reversed(spec.ancestors(cname)))


def build_corpus(spec: Spec, s: Any, sdk_mod: Any, case: Dict[str, Any]) -> Tuple[List[Dict[str, Any]], List[Tuple[str, str]]]:
    """
    Documents: [{"cls", "text" (JSON text of the doc), "tag", "domain", "inst" (index)}].
    Also returns construction failures [(bucket, message)] (a harness/SDK problem of C08/C10's domain).
    """
    items = []  # type: List[Dict[str, Any]]
    problems = []  # type: List[Tuple[str, str]]
    muts = [tuple(m) for m in case.get("muts") or [] if isinstance(m, (list, tuple)) and len(m) == 2]
    insts = case.get("instances") or []
    n_mut = len(muts) // max(1, len(insts))
    for idx, neutral in enumerate(insts):
        cname = neutral["cls"]
        try:
            x = sdk_mod.to_sdk(spec, s, neutral)
            doc = json.loads(json.dumps(s.jsonization.to_jsonable(x), allow_nan=False))
        except RecursionError:
            raise
        except Exception as e:  # noqa
            problems.append((f"python-instance-construction:{type(e).__name__}", f"{neutral!r}: {e}"))
            continue
        entries = entry_classes(spec, cname)
        items.append({"cls": cname, "text": c09_gen.dumps(doc), "tag": "sdk-document", "domain": "core", "inst": idx})
        for k, (a, b) in enumerate(muts[idx * n_mut: (idx + 1) * n_mut]):
            if not (isinstance(a, int) and isinstance(b, int)):
                continue
            rnd = random.Random(a * 31 + b + (idx * 64 + k) * 7_919)
            entry = entries[rnd.randrange(len(entries))] if rnd.randrange(3) == 0 else cname
            if k == 0 and len(entries) > 1:
                # the unchanged document through an ancestor's entry point (dispatch by modelType)
                items.append({"cls": entries[1 + rnd.randrange(len(entries) - 1)], "text": c09_gen.dumps(doc),
                              "tag": "sdk-document-via-ancestor", "domain": "core", "inst": idx})
                continue
            m = c09_gen.mutations(spec, cname, doc, neutral, a, b, idx * 64 + k)
            if m is None:
                continue
            tag, domain, mdoc = m
            items.append({"cls": entry, "text": c09_gen.dumps(mdoc), "tag": tag, "domain": domain, "inst": idx})
    return items, problems


def corpus_text(spec: Spec, items: List[Dict[str, Any]]) -> str:
    lines = [json.dumps(manifest(spec), ensure_ascii=True)]
    for it in items:
        lines.append('{"cls":' + json.dumps(it["cls"]) + ',"doc":' + it["text"] + "}")
    return "\n".join(lines) + "\n"


# ---------------------------------------------------------------------------
# Comparison
# ---------------------------------------------------------------------------


def json_equal(a: Any, b: Any) -> bool:
    """Structural equality; numbers by value, booleans distinct from numbers."""
    if isinstance(a, bool) or isinstance(b, bool):
        return isinstance(a, bool) and isinstance(b, bool) and a == b
    if isinstance(a, (int, float)) and isinstance(b, (int, float)):
        return a == b
    if isinstance(a, str) and isinstance(b, str):
        return a == b
    if a is None or b is None:
        return a is None and b is None
    if isinstance(a, list) and isinstance(b, list):
        return len(a) == len(b) and all(json_equal(x, y) for x, y in zip(a, b))
    if isinstance(a, dict) and isinstance(b, dict):
        return set(a) == set(b) and all(json_equal(a[k], b[k]) for k in a)
    return False


def json_diff(a: Any, b: Any, path: str = "$") -> Optional[Tuple[str, Any, Any]]:
    if json_equal(a, b):
        return None
    if isinstance(a, dict) and isinstance(b, dict):
        for k in sorted(set(a) | set(b)):
            if k not in a or k not in b:
                return (f"{path}.{k}", a.get(k, "<absent>"), b.get(k, "<absent>"))
            d = json_diff(a[k], b[k], f"{path}.{k}")
            if d:
                return d
    if isinstance(a, list) and isinstance(b, list) and len(a) == len(b):
        for i, (x, y) in enumerate(zip(a, b)):
            d = json_diff(x, y, f"{path}[{i}]")
            if d:
                return d
    return (path, a, b)


# constant text that a target puts in front of the invariant's description (presentation, not content)
MESSAGE_PREFIX = {"java": "Invariant violated:\n"}


def norm_errors(errs: Any, target: str = "") -> "collections.Counter":
    out = collections.Counter()  # type: collections.Counter
    prefix = MESSAGE_PREFIX.get(target)
    for e in errs:
        segs, msg = e[0], e[1]
        if prefix and isinstance(msg, str) and msg.startswith(prefix):
            msg = msg[len(prefix):]
        out[(tuple(canon(x) if isinstance(x, str) else int(x) for x in segs), msg)] += 1
    return out


def _sort_key(v: Any) -> str:
    return json.dumps(v, sort_keys=True, ensure_ascii=True)


def compare_meta(target: str, spec: Spec, py: Dict[str, Any], tg: Dict[str, Any]) -> List[Tuple[str, str]]:
    fails = []  # type: List[Tuple[str, str]]
    tconsts = tg.get("constants") or {}
    for c in spec.consts:
        pv, tv = py["constants"].get(c.name), tconsts.get(c.name)
        if isinstance(tv, dict) and ("missing" in tv or "exception" in tv):
            fails.append((f"{target}:constants-differ:{'missing' if 'missing' in tv else 'exception'}:{c.kind}",
                          f"constant {c.name} ({c.kind}): python={pv!r} {target}={tv!r}"))
            continue
        if c.kind.startswith("set_") and isinstance(pv, list) and isinstance(tv, list):
            same = json_equal(sorted(pv, key=_sort_key), sorted(tv, key=_sort_key))
        else:
            same = json_equal(pv, tv)
        if not same:
            fails.append((f"{target}:constants-differ:{c.kind}", f"constant {c.name} ({c.kind}): python={pv!r} {target}={tv!r}"))
    tenums = tg.get("enums") or {}
    for e in spec.enums:
        pv, tv = py["enums"].get(e.name), tenums.get(e.name)
        if not (isinstance(pv, list) and isinstance(tv, list)):
            fails.append((f"{target}:enums-differ:missing", f"enumeration {e.name}: python={pv!r} {target}={tv!r}"))
            continue
        pn = [[canon(n), v] for n, v in pv]
        tn = [[canon(str(n)), v] for n, v in tv]
        if pn != tn:
            cause = "literal-values" if [v for _, v in pn] != [v for _, v in tn] else "literal-names"
            fails.append((f"{target}:enums-differ:{cause}", f"enumeration {e.name}: python={pv!r} {target}={tv!r}"))
    return fails


_ASTRAL = re.compile("[\U00010000-\U0010FFFF]")


def _features(body: str) -> str:
    fs = []
    for name, pat in [("all", r"\ball\("), ("any", r"\bany\("), ("range", r"\brange\("), ("in-set", r" in [A-Z]"),
                      ("len", r"\blen\("), ("call", r"\b(matches|is)_\w+\("), ("enum", r"\w+\.\w+ ==|== \w+\.[A-Z]|!= \w+\.[A-Z]"),
                      ("float", r"\d\.\d"), ("str", r'"'), ("isnone", r" is None| is not None")]:
        if re.search(pat, body):
            fs.append(name)
    return fs[0] if fs else "plain"


_STRING_COMPARISON = re.compile(r'(==|!=) "|" (==|!=)|(==|!=) [A-Z]\w*(?![\w.])')


def _cause(body: str, astral: bool, target: str = "") -> str:
    if target == "java" and _STRING_COMPARISON.search(body):
        # == / != between strings (literal or constant): Java compares references
        return "string-comparison"
    if astral and re.search(r"\blen\(", body):
        # len() of a string with characters outside the BMP: UTF-16 code units vs code points
        return "len-with-astral-text"
    return _features(body) + (":astral-text" if astral else "")


def desc_bodies(spec: Spec) -> Dict[str, str]:
    out = {}
    for c in spec.classes:
        for i in c.invs:
            out[i.desc] = i.body
    for c in spec.cps:
        for i in c.invs:
            out[i.desc] = i.body
    return out


def compare_doc(target: str, spec: Spec, item: Dict[str, Any], py: Dict[str, Any], tg: Dict[str, Any],
                bodies: Dict[str, str]) -> List[Tuple[str, str]]:
    """Buckets for one document (empty = agreement)."""
    tag = item["tag"]
    head = f"class={item['cls']} mutation={tag}\ndoc={item['text'][:700]}\npython={json.dumps(py, ensure_ascii=True)[:700]}\n{target}={json.dumps(tg, ensure_ascii=True)[:700]}"
    pok, tok = py.get("ok"), tg.get("ok")
    if tok not in (True, False):
        what = re.sub(r"\d+(\.\d+)?", "N", str(tg.get("text", "")))
        sig = re.sub(r"[^A-Za-z]+", "-", what)[:60].strip("-")
        return [(f"{target}:throws:{sig}", head)]
    if pok not in (True, False):
        return [("python:throws", head)]
    astral = bool(_ASTRAL.search(json.dumps(json.loads(item["text"]), ensure_ascii=False))) if item["text"] else False
    if pok != tok:
        who = "python-accepts" if pok else f"{target}-accepts"
        cause = tag
        if py.get("foreign"):
            cause = f"{tag}:python-raises-{py['foreign']}"
        elif pok and (tag.startswith("modelType-added")
                      or re.search(r"nexpected (additional )?property: modelType", str(tg.get("msg", "")))):
            # the reference ignores a "modelType" property on a class that is serialised without one
            cause = "modelType-on-class-without-model-type"
        elif not pok and str(py.get("msg", "")).startswith("Unexpected property"):
            # whatever the mutation was, the reference refused the document because of a property it does not know
            cause = "unexpected-property"
        return [(f"{target}:verdict-differs:{who}:{cause}", head)]
    if not pok:
        return []
    fails = []  # type: List[Tuple[str, str]]
    d = json_diff(py["json"], tg.get("json"))
    if d is not None:
        where, a, b = d
        kind = "value"
        if a == "<absent>" or b == "<absent>":
            kind = "property-absent" if b == "<absent>" else "property-extra"
        elif isinstance(a, float) or isinstance(b, float):
            kind = "float"
        elif isinstance(a, int) and isinstance(b, int):
            kind = "int"
        elif isinstance(a, str) and isinstance(b, str):
            kind = "string"
        fails.append((f"{target}:json-differs:{kind}", f"at {where}: python={a!r} {target}={b!r}\n{head}"))
    ce, ca = norm_errors(py["errors"]), norm_errors(tg.get("errors") or [], target)
    if ce != ca:
        missing = list((ce - ca).elements())
        extra = list((ca - ce).elements())
        for path, desc in missing[:2]:
            body = bodies.get(desc, "?")
            others = [pp for pp, dd in extra if dd == desc]
            if others:
                # the invariant is reported, but elsewhere: name how the path differs
                if any(len(pp) < len(path) and tuple(path[:len(pp)]) == tuple(pp) for pp in others):
                    fails.append((f"{target}:errors-differ:wrong-path:truncated",
                                  f"desc={desc!r} expected path={path!r} got={others!r}\n{head}"))
                elif any(sorted(map(str, pp)) == sorted(map(str, path)) for pp in others):
                    fails.append((f"{target}:errors-differ:wrong-path:segments-reordered",
                                  f"desc={desc!r} expected path={path!r} got={others!r}\n{head}"))
                else:
                    fails.append((f"{target}:errors-differ:wrong-path:other",
                                  f"desc={desc!r} expected path={path!r} got={others!r}\n{head}"))
                continue
            if ca[(path, desc)] > 0:
                kind = "fewer-duplicates"
            else:
                kind = "missing-error"
            f = _cause(body, astral, target)
            fails.append((f"{target}:errors-differ:{kind}:{f}", f"invariant={body!r} desc={desc!r} path={path!r}\n{head}"))
        for path, desc in extra[:2]:
            if desc not in bodies:
                fails.append((f"{target}:errors-differ:description-not-verbatim",
                              f"got message {desc!r} at {path!r}\n{head}"))
            elif not any(dd == desc for _, dd in missing):
                body = bodies[desc]
                kind = "more-duplicates" if ce[(path, desc)] > 0 else "extra-error"
                f = _cause(body, astral, target)
                fails.append((f"{target}:errors-differ:{kind}:{f}", f"invariant={body!r} desc={desc!r} path={path!r}\n{head}"))
    return fails
