"""
C21 generator: accepted meta-models into which a *pair of distinct identifiers* is planted in one scope.

A base spec comes from ``vlib.mmgen`` (no invariants, no descriptions: names can be changed freely).
The pair consists of two spellings of the same word sequence (case of every part, ``_`` / ``__`` / no
separator, trailing ``_``, digit boundaries, ``I`` prefix) or - control group - of different words.
"""
from __future__ import annotations

import dataclasses
from typing import Any, Dict, List, Optional, Tuple

from hypothesis import strategies as st

from vlib import mmgen

WORDS = ["some", "thing", "other", "value", "data", "spec", "url", "id", "x", "item", "range", "kind", "a1", "b"]

SCOPE_KINDS = [
    "two-classes", "class-vs-enumeration", "two-enumerations", "type-vs-interface", "class-vs-enumeration-literal",
    "two-literals", "two-own-properties", "own-vs-inherited-property", "two-inherited-properties", "property-vs-method",
    "two-constants", "two-functions", "constant-vs-function",
]

METHOD_SNIPPET_EXT = {"python": "Types/{c}/{m}.py", "csharp": "Types/{c}/{m}.cs", "java": "Types/{c}/{m}.java",
                      "typescript": "Types/{c}/{m}.ts", "golang": "Types/{c}/{m}.go", "cpp": "types/{c}/{m}.body.cpp"}


@dataclasses.dataclass
class Method:
    cls: str
    name: str


@dataclasses.dataclass
class Planted:
    spec: mmgen.Spec
    methods: List[Method]
    kind: str
    pair: Tuple[str, str]
    control: bool
    style: str  # how the two spellings differ


def _spell(parts: List[str], casing: List[int], seps: List[str], trailing: str) -> str:
    out = []
    for i, p in enumerate(parts):
        w = [p.lower(), p.capitalize(), p.upper()][casing[i]]
        out.append(w)
        if i + 1 < len(parts):
            out.append(seps[i])
    return "".join(out) + trailing


@st.composite
def identifier_pairs(draw: Any, capital_first: bool, control: bool) -> Tuple[str, str, str]:
    """Two distinct identifiers (and a label of how they differ)."""
    k = draw(st.integers(2, 3))
    idx = draw(st.lists(st.integers(0, len(WORDS) - 1), min_size=k, max_size=k, unique=True))
    parts = [WORDS[i] for i in idx]

    def fix(name: str) -> str:
        if capital_first:
            return name[0].upper() + name[1:]
        return name[0].lower() + name[1:]

    base_casing = [1 if capital_first else 0] + [0] * (k - 1)
    a = fix(_spell(parts, base_casing, ["_"] * (k - 1), ""))
    if control:
        style = draw(st.sampled_from(["different-words", "prefix-word", "merged-parts-near-miss"]))
        if style == "different-words":
            idx2 = draw(st.lists(st.integers(0, len(WORDS) - 1), min_size=k, max_size=k, unique=True))
            if sorted(idx2) == sorted(idx):
                idx2 = [(i + 1) % len(WORDS) for i in idx]
            b = fix(_spell([WORDS[i] for i in idx2], base_casing, ["_"] * (k - 1), ""))
            if b.lower().replace("_", "") == a.lower().replace("_", ""):
                b = b + "_z"
        elif style == "prefix-word":
            b = a + "_more"
        else:
            b = a + "s"
        return a, b, "control:" + style
    style = draw(st.sampled_from(["case-of-part", "case-of-part", "upper-part", "double-underscore", "trailing-underscore",
                                  "merged-parts", "digit-boundary", "first-letter", "mixed"]))
    if style == "case-of-part":
        j = draw(st.integers(1, k - 1))
        casing = list(base_casing)
        casing[j] = 1
        b = _spell(parts, casing, ["_"] * (k - 1), "")
    elif style == "upper-part":
        j = draw(st.integers(0, k - 1))
        casing = list(base_casing)
        casing[j] = 2
        b = _spell(parts, casing, ["_"] * (k - 1), "")
    elif style == "double-underscore":
        seps = ["_"] * (k - 1)
        seps[draw(st.integers(0, k - 2))] = "__"
        b = _spell(parts, base_casing, seps, "")
    elif style == "trailing-underscore":
        b = a + "_"
    elif style == "merged-parts":
        # Some_thing / SomeThing: one part less, the same letters
        seps = ["_"] * (k - 1)
        j = draw(st.integers(0, k - 2))
        seps[j] = ""
        casing = list(base_casing)
        casing[j + 1] = draw(st.sampled_from([0, 1]))
        b = _spell(parts, casing, seps, "")
    elif style == "digit-boundary":
        a = fix(_spell([parts[0] + "1", parts[1]] + parts[2:], base_casing, ["_"] * (k - 1), ""))
        b = fix(_spell([parts[0], "1", parts[1]] + parts[2:], base_casing + [0], ["_"] * k, ""))
        if draw(st.booleans()):
            b = fix(_spell([parts[0], "1" + parts[1]] + parts[2:], base_casing, ["_"] * (k - 1), ""))
    elif style == "first-letter":
        b = a[0].swapcase() + a[1:]
    else:
        casing = [draw(st.integers(0, 2)) for _ in range(k)]
        seps = [draw(st.sampled_from(["_", "_", "__"])) for _ in range(k - 1)]
        b = _spell(parts, casing, seps, draw(st.sampled_from(["", "", "_"])))
    if style != "first-letter":
        b = fix(b)
    if b == a:
        b = a + "_"
        style = "trailing-underscore"
    return a, b, style


# ---------------------------------------------------------------------------
# Renaming inside a spec
# ---------------------------------------------------------------------------


def _rename_tref(t: Optional[mmgen.TRef], old: str, new: str) -> None:
    while t is not None:
        if t.kind in ("class", "enum", "cp") and t.name == old:
            t.name = new
        t = t.item


def rename_type(spec: mmgen.Spec, old: str, new: str) -> None:
    for c in spec.classes:
        if c.name == old:
            c.name = new
        c.bases = [new if b == old else b for b in c.bases]
        for p in c.props:
            _rename_tref(p.type, old, new)
    for e in spec.enums:
        if e.name == old:
            e.name = new
    for k in spec.consts:
        if k.enum == old:
            k.enum = new
    for f in spec.fns:
        for _, t in f.args:
            _rename_tref(t, old, new)
    spec.order = [(kind, new if (name == old and kind in ("class", "enum")) else name) for kind, name in spec.order]


def rename_const(spec: mmgen.Spec, old: str, new: str) -> None:
    for k in spec.consts:
        if k.name == old:
            k.name = new
        k.superset_of = [new if s == old else s for s in k.superset_of]
    spec.order = [(kind, new if (name == old and kind == "const") else name) for kind, name in spec.order]


def rename_fn(spec: mmgen.Spec, old: str, new: str) -> None:
    for f in spec.fns:
        if f.name == old:
            f.name = new
    spec.order = [(kind, new if (name == old and kind == "fn") else name) for kind, name in spec.order]


def rename_literal(spec: mmgen.Spec, enum: str, old: str, new: str) -> None:
    e = spec.enum(enum)
    e.literals = [(new if n == old else n, v) for n, v in e.literals]
    for k in spec.consts:
        if k.kind == "set_enum" and k.enum == enum:
            k.value = [new if v == old else v for v in k.value]


def all_names(spec: mmgen.Spec) -> set:
    out = set()
    for c in spec.classes:
        out.add(c.name.lower())
        for p in c.props:
            out.add(p.name.lower())
    for e in spec.enums:
        out.add(e.name.lower())
    for c in spec.cps:
        out.add(c.name.lower())
    for k in spec.consts:
        out.add(k.name.lower())
    for f in spec.fns:
        out.add(f.name.lower())
    return out


def _add_enum(spec: mmgen.Spec, name: str, n_literals: int = 2) -> mmgen.Enm:
    e = mmgen.Enm(name, [(f"Lit_{i}", f"lit-{i}") for i in range(n_literals)], None)
    spec.enums.append(e)
    spec.order.insert(0, ("enum", name))
    return e


def _add_class(spec: mmgen.Spec, name: str, bases: Optional[List[str]] = None) -> mmgen.Cls:
    c = mmgen.Cls(name, list(bases or []), False, [], [], False, None)
    spec.classes.append(c)
    spec.order.append(("class", name))
    return c


def _add_const(spec: mmgen.Spec, name: str) -> mmgen.Const:
    k = mmgen.Const(name, "set_str", ["a", "b"])
    spec.consts.append(k)
    spec.order.append(("const", name))
    return k


def _add_fn(spec: mmgen.Spec, name: str) -> mmgen.Fn:
    f = mmgen.Fn(name, "pattern", [("text", mmgen.TRef("prim", "str"))], pattern="^[a-z]+$",
                 pattern_lines=['pattern = "^[a-z]+$"'])
    spec.fns.append(f)
    spec.order.insert(0, ("fn", name))
    return f


@st.composite
def planted_specs(draw: Any, kind: Optional[str] = None, control: Optional[bool] = None) -> Planted:
    opts = mmgen.Opts(max_classes=draw(st.integers(1, 4)), max_props=draw(st.integers(0, 3)), max_cps=1,
                      docs="none", invariants="none", max_enums=2)
    spec = draw(mmgen.specs(opts))
    if control is None:
        control = draw(st.integers(0, 9)) >= 7
    if kind is None:
        kind = draw(st.sampled_from(SCOPE_KINDS))
    methods = []  # type: List[Method]
    capital = kind in ("two-classes", "class-vs-enumeration", "two-enumerations", "type-vs-interface", "two-literals",
                       "two-constants", "class-vs-enumeration-literal")
    if kind == "constant-vs-function":
        capital = False
    a, b, style = draw(identifier_pairs(capital_first=capital, control=control))
    if kind == "type-vs-interface":
        # Foo / IFoo: the interface of the first is named like the second in targets that keep abbreviations
        b = "I" + a if not control else "J" + a
        style = "I-prefix" if not control else "control:J-prefix"
    if kind in ("two-functions",):
        a, b = "matches_" + a, "matches_" + b
    taken = all_names(spec)
    if a.lower() in taken or b.lower() in taken and kind not in ():
        a, b = a + "_q", (b + "_q" if not b.endswith("_") else b[:-1] + "_q_")

    if kind == "two-classes":
        while len(spec.classes) < 2:
            _add_class(spec, f"Extra_class_{len(spec.classes)}")
        i, j = draw(st.lists(st.integers(0, len(spec.classes) - 1), min_size=2, max_size=2, unique=True))
        n1, n2 = spec.classes[i].name, spec.classes[j].name
        rename_type(spec, n1, a)
        rename_type(spec, n2, b)
    elif kind == "type-vs-interface":
        while len(spec.classes) < 2:
            _add_class(spec, f"Extra_class_{len(spec.classes)}")
        i, j = draw(st.lists(st.integers(0, len(spec.classes) - 1), min_size=2, max_size=2, unique=True))
        n1, n2 = spec.classes[i].name, spec.classes[j].name
        rename_type(spec, n1, a)
        rename_type(spec, n2, b)
    elif kind == "class-vs-enumeration-literal":
        # Go declares the literals as package-level constants <Enumeration><Literal>
        if not spec.enums:
            _add_enum(spec, "Extra_enumeration")
        e = draw(st.sampled_from(spec.enums))
        n1 = e.name
        rename_type(spec, n1, a)
        lit = e.literals[draw(st.integers(0, len(e.literals) - 1))][0]
        new_lit = b if control else draw(st.sampled_from(["Lit", "Other_lit", "X1"]))
        rename_literal(spec, a, lit, new_lit)
        c = draw(st.sampled_from(spec.classes))
        b = f"{a}_{new_lit}" if not control else f"{a}_and_{new_lit}"
        style = "enumeration+literal" if not control else "control:enumeration+and+literal"
        rename_type(spec, c.name, b)
    elif kind == "class-vs-enumeration":
        if not spec.enums:
            _add_enum(spec, "Extra_enumeration")
        c = draw(st.sampled_from(spec.classes))
        e = draw(st.sampled_from(spec.enums))
        n1, n2 = c.name, e.name
        if draw(st.booleans()):
            a, b = b, a
        rename_type(spec, n1, a)
        rename_type(spec, n2, b)
    elif kind == "two-enumerations":
        while len(spec.enums) < 2:
            _add_enum(spec, f"Extra_enumeration_{len(spec.enums)}")
        n1, n2 = spec.enums[0].name, spec.enums[1].name
        rename_type(spec, n1, a)
        rename_type(spec, n2, b)
    elif kind == "two-literals":
        if not spec.enums:
            _add_enum(spec, "Extra_enumeration")
        e = draw(st.sampled_from(spec.enums))
        while len(e.literals) < 2:
            e.literals.append((f"Extra_literal_{len(e.literals)}", f"extra-{len(e.literals)}"))
        i, j = draw(st.lists(st.integers(0, len(e.literals) - 1), min_size=2, max_size=2, unique=True))
        n1, n2 = e.literals[i][0], e.literals[j][0]
        rename_literal(spec, e.name, n1, a)
        rename_literal(spec, e.name, n2, b)
    elif kind == "two-own-properties":
        c = draw(st.sampled_from(spec.classes))
        while len(c.props) < 2:
            c.props.append(mmgen.Prop(f"extra_property_{len(c.props)}", mmgen.TRef("prim", "str")))
        i, j = draw(st.lists(st.integers(0, len(c.props) - 1), min_size=2, max_size=2, unique=True))
        c.props[i].name = a
        c.props[j].name = b
    elif kind == "own-vs-inherited-property":
        children = [c for c in spec.classes if c.bases]
        if not children:
            parent = spec.classes[0]
            child = _add_class(spec, "Extra_child", [parent.name])
        else:
            child = draw(st.sampled_from(children))
            parent = spec.cls(draw(st.sampled_from(spec.ancestors(child.name))))
        if not parent.props:
            parent.props.append(mmgen.Prop("extra_parent_property", mmgen.TRef("prim", "str")))
        if not child.props:
            child.props.append(mmgen.Prop("extra_child_property", mmgen.TRef("prim", "str")))
        parent.props[draw(st.integers(0, len(parent.props) - 1))].name = a
        child.props[draw(st.integers(0, len(child.props) - 1))].name = b
    elif kind == "two-inherited-properties":
        # the two members meet only in a common child: neither is declared by the class in which they collide
        multi = [c for c in spec.classes if len(c.bases) >= 2]
        if multi:
            child = draw(st.sampled_from(multi))
            p1, p2 = spec.cls(child.bases[0]), spec.cls(child.bases[-1])
        else:
            p1 = _add_class(spec, "Extra_parent_a", [])
            p2 = _add_class(spec, "Extra_parent_b", [])
            _add_class(spec, "Extra_child_of_both", [p1.name, p2.name])
        if not p1.props:
            p1.props.append(mmgen.Prop("extra_property_of_a", mmgen.TRef("prim", "str")))
        if not p2.props:
            p2.props.append(mmgen.Prop("extra_property_of_b", mmgen.TRef("prim", "str")))
        p1.props[draw(st.integers(0, len(p1.props) - 1))].name = a
        p2.props[draw(st.integers(0, len(p2.props) - 1))].name = b
    elif kind == "property-vs-method":
        c = draw(st.sampled_from(spec.classes))
        if not c.props:
            c.props.append(mmgen.Prop("extra_property", mmgen.TRef("prim", "str")))
        c.props[draw(st.integers(0, len(c.props) - 1))].name = a
        methods.append(Method(c.name, b))
    elif kind == "two-constants":
        while len(spec.consts) < 2:
            _add_const(spec, f"Extra_constant_{len(spec.consts)}")
        i, j = draw(st.lists(st.integers(0, len(spec.consts) - 1), min_size=2, max_size=2, unique=True))
        n1, n2 = spec.consts[i].name, spec.consts[j].name
        rename_const(spec, n1, a)
        rename_const(spec, n2, b)
    elif kind == "two-functions":
        while len(spec.fns) < 2:
            _add_fn(spec, f"matches_extra_{len(spec.fns)}")
        n1, n2 = spec.fns[0].name, spec.fns[1].name
        rename_fn(spec, n1, a)
        rename_fn(spec, n2, b)
    elif kind == "constant-vs-function":
        if not spec.consts:
            _add_const(spec, "Extra_constant")
        if not spec.fns:
            _add_fn(spec, "matches_extra")
        rename_const(spec, spec.consts[0].name, a)
        rename_fn(spec, spec.fns[0].name, b)
    return Planted(spec, methods, kind, (a, b), control, style)


# ---------------------------------------------------------------------------
# Rendering (mmgen's plus implementation-specific methods)
# ---------------------------------------------------------------------------


def render(spec: mmgen.Spec, methods: List[Method]) -> str:
    lines = [mmgen.HEADER]
    for kind, name in spec.order:
        if kind == "enum":
            lines.extend(mmgen.render_enum(spec.enum(name)))
        elif kind == "cp":
            lines.extend(mmgen.render_cp(spec.cp(name)))
        elif kind == "class":
            lines.extend(mmgen.render_class(spec, spec.cls(name)))
            for m in methods:
                if m.cls == name:
                    lines.extend(["", "    @implementation_specific", f"    def {m.name}(self) -> int:", "        pass"])
        elif kind == "const":
            lines.extend(mmgen.render_const(next(c for c in spec.consts if c.name == name)))
        elif kind == "fn":
            lines.extend(mmgen.render_fn(next(f for f in spec.fns if f.name == name)))
        lines.append("")
        lines.append("")
    lines.append(f"__version__ = {mmgen.pystr(spec.version)}")
    lines.append("")
    lines.append(f"__xml_namespace__ = {mmgen.pystr(spec.xml_namespace)}")
    return "\n".join(lines) + "\n"


def method_snippets(target: str, methods: List[Method]) -> Dict[str, str]:
    pattern = METHOD_SNIPPET_EXT.get(target)
    if pattern is None:
        return {}
    out = {}
    for m in methods:
        out[pattern.format(c=m.cls, m=m.name)] = "// implementation-specific snippet of the harness\n" if target != "python" \
            else "def snippet_of_the_harness(self) -> int:\n    return 1\n"
    return out
