"""
File-system observation from the outside (``sys.addaudithook``), used by C22/C23.

``install()`` once per process; ``with record() as events:`` collects tuples
``(kind, path[, path2])`` with kind in ``open-r | open-w | mkdir | rmdir | remove | rename |
listdir | chmod | truncate | link | symlink``. Paths are absolute strings. Nothing of the code
under test is changed.
"""
from __future__ import annotations

import contextlib
import os
import sys
from typing import Any, Iterator, List, Optional, Tuple

_events = None  # type: Optional[List[Tuple[str, ...]]]
_installed = False

_WRITE_FLAGS = os.O_WRONLY | os.O_RDWR | os.O_CREAT | os.O_TRUNC | os.O_APPEND

_SIMPLE = {
    "os.mkdir": "mkdir",
    "os.rmdir": "rmdir",
    "os.remove": "remove",
    "os.listdir": "listdir",
    "os.scandir": "listdir",
    "os.chmod": "chmod",
    "os.truncate": "truncate",
}


def _p(x: Any) -> Optional[str]:
    if x is None or isinstance(x, int):
        return None
    try:
        return os.path.abspath(os.fsdecode(x))
    except Exception:  # noqa
        return None


def _hook(event: str, args: Any) -> None:
    ev = _events
    if ev is None:
        return
    try:
        if event == "open":
            path = _p(args[0])
            if path is None:
                return
            flags = args[2] if len(args) > 2 and isinstance(args[2], int) else 0
            ev.append(("open-w" if (flags & _WRITE_FLAGS) else "open-r", path))
        elif event in _SIMPLE:
            path = _p(args[0])
            if path is not None:
                ev.append((_SIMPLE[event], path))
        elif event == "os.rename":
            a, b = _p(args[0]), _p(args[1])
            if a is not None and b is not None:
                ev.append(("rename", a, b))
        elif event in ("os.link", "os.symlink"):
            a, b = _p(args[0]), _p(args[1])
            if a is not None and b is not None:
                ev.append((event[3:], a, b))
    except Exception:  # noqa: an observer must never break the observed program
        pass


def install() -> None:
    global _installed
    if not _installed:
        sys.addaudithook(_hook)
        _installed = True


@contextlib.contextmanager
def record() -> Iterator[List[Tuple[str, ...]]]:
    """Collect the file-system events of the ``with`` body (not re-entrant)."""
    global _events
    install()
    prev = _events
    mine = []  # type: List[Tuple[str, ...]]
    _events = mine
    try:
        yield mine
    finally:
        _events = prev


def inside(path: str, root: str) -> bool:
    root = os.path.abspath(root)
    path = os.path.abspath(path)
    return path == root or path.startswith(root.rstrip(os.sep) + os.sep)


MUTATING = ("open-w", "mkdir", "rmdir", "remove", "rename", "chmod", "truncate", "link", "symlink")
