#!/usr/bin/env python3
"""Regenerate MANIFEST.json from the table below (keeps the manifest valid at all times)."""
import json
import pathlib

VERIF = pathlib.Path(__file__).resolve().parent.parent
ALL = [f"C{i:02d}" for i in range(1, 31)]

# pid -> (category, technique, level text, level note, design section)
CHECKS = {
    "C27": (
        "exploration",
        "Hypothesis property test against a reference tokenisation/validity predicate",
        "Generated (text, width) pairs checked against an executable statement of the three clauses "
        "(text preserved, width respected except single-token segments, no dangling article); "
        "100k cases per quick run, millions in thorough. Gives high confidence for a small pure function; "
        "does not prove absence.",
        "Trusts Python str.split semantics and the reading of 'word' as the space-separated token "
        "(article glued to following word) documented in the function.",
        "DESIGN.md §2 C27",
    ),
}

NOT_YET = "check not built yet in this round (planned, see DESIGN.md §2); not claimed until its oracle is sound"


def main() -> None:
    checks = []
    for pid in ALL:
        if pid not in CHECKS:
            continue
        cat, tech, text, note, ref = CHECKS[pid]
        mod = f"checks.{pid.lower()}"
        checks.append(
            {
                "property_id": pid,
                "quick_cmd": f"PYTHONHASHSEED=0 /venv/bin/python -m {mod} --tier quick",
                "thorough_cmd": f"PYTHONHASHSEED=0 /venv/bin/python -m {mod} --tier thorough",
                "evidence_file": f"/verif/evidence/{pid}.json",
                "replay_cmd_template": f"PYTHONHASHSEED=0 /venv/bin/python -m {mod} --replay {{path}}",
                "engine": "vlib",
                "level_claimed": {"category": cat, "text": text, "design_ref": ref},
                "level_note": note,
                "technique": tech,
            }
        )
    manifest = {
        "version": 1,
        "setup_cmd": "bash /verif/setup.sh",
        "hooks": {
            "guard": "AAS_CORE_CODEGEN_VERIF",
            "enable": "no source hooks are used; checks observe the unmodified package from outside "
                      "(StringIO streams, audit hooks, monkey-patched pathlib/pickle inside the harness process)",
            "baseline_off_cmd": "cd /repo && /venv/bin/python -m pytest -ra -q -p no:cacheprovider --timeout=900 --continue-on-collection-errors",
            "source_commits": [],
            "add_only": True,
        },
        "engines": [
            {
                "name": "vlib",
                "path": "/verif/vlib",
                "serves_properties": sorted(CHECKS),
                "kind_free_text": "Python harness: Hypothesis-driven generation sharded over 16 processes, "
                                  "collect-and-bucket of failures, known-finding matching, greedy shrinking, evidence writer",
            }
        ],
        "checks": checks,
        "not_applicable": [
            {"property_id": pid, "reason": NOT_YET} for pid in ALL if pid not in CHECKS
        ],
        "notes": "All checks: cd /verif && PYTHONHASHSEED=0 /venv/bin/python -m checks.cNN --tier quick|thorough; "
                 "VERIF_SEED selects the Hypothesis seed. Exit 0 ok / 1 VIOLATION / 2 harness error. "
                 "known_findings.jsonl lists recorded genuine defects (never written at run time).",
    }
    (VERIF / "MANIFEST.json").write_text(json.dumps(manifest, indent=1) + "\n")


if __name__ == "__main__":
    main()
