"""C13 — XSD is valid and never rejects valid data."""
from __future__ import annotations

import re
import shutil
import sys
from typing import Any, Dict, List, Optional, Tuple

from hypothesis import strategies as st

from vlib import mmgen, refmodel, runner, schemakit, sdk, sut
from checks import c11

PID = "C13"
RULE = (
    "Hypothesis: accepted meta-models rich in recognised constraints (as C11) -> xsd target (root_element.xml snippet "
    "declaring one global element per concrete class) + Python SDK. Oracle: (1) xmlschema.XMLSchema (XSD 1.0) and "
    "xmlschema.XMLSchema11 both build the generated schema.xsd without error; (2) xmlization.to_str(x) of every "
    "invariant-satisfying instance (reference evaluator) is valid against it; (3) pattern sub-property, per pattern "
    "verification function of the model: every xs:pattern the schema emits for a value constrained by pattern P, converted "
    "with elementpath.regex.translate_pattern, fully matches every example string s with re.match(P, s) (strings without "
    "line breaks, XML characters only). Non-trivial = document containing a pattern-constrained string, or a model with "
    ">= 2 patterns on one value, or an abstract-typed property (choice group); distinct by (model, instance)."
)
ASSUMPTIONS = [
    "xmlschema 4.x is the XSD validator (XSD 1.0 and 1.1 processors); elementpath translates XSD regexes to Python",
    "strings are restricted to XML 1.0 characters without line breaks where a pattern applies",
    "models on which the xsd or python target crashes/reports are counted and skipped (C02)",
    "function-level pattern sweep: patterns with an escaped backslash, caret, dash or bracket inside a character set are "
    "not asserted (elementpath is the only XSD regex reader here and these are the corners where readers differ)",
]

N_INST_QUICK = 10
N_INST_THOROUGH = 30

cases = c11.cases


class Prepared:
    def __init__(self) -> None:
        self.spec = None  # type: Any
        self.text = ""
        self.xsd_text = ""
        self.schema = None  # type: Any
        self.sdk = None  # type: Any
        self.rm = None  # type: Any
        self.docs = []  # type: List[Tuple[Any, Any, str]]


def prepare(case: Dict[str, Any], base: Any, ctx: Any, fails: List[Tuple[str, str]], need_docs: bool = True) -> Optional[Prepared]:
    import xmlschema

    p = Prepared()
    p.spec = mmgen.Spec.from_json(case["spec"])
    p.text = mmgen.render(p.spec)
    try:
        rc, out, err, d = sut.generate(p.text, "xsd", base,
                                       extra_snippets={"root_element.xml": schemakit.xsd_root_snippet(p.spec)}, keep=True)
    except BaseException:  # noqa
        if ctx is not None:
            ctx.exclude("xsd-target-crash")
        return None
    try:
        if rc != 0:
            if ctx is not None:
                ctx.exclude("xsd-target-reported")
            return None
        p.xsd_text = (d / "out" / "schema.xsd").read_text(encoding="utf-8")
    finally:
        shutil.rmtree(d, ignore_errors=True)
    for name, cls in (("XSD1.0", xmlschema.XMLSchema), ("XSD1.1", xmlschema.XMLSchema11)):
        try:
            s = cls(p.xsd_text)
            if name == "XSD1.0":
                p.schema = s
        except BaseException as e:  # noqa
            msg = str(e)
            cause = "other"
            m = re.search(r"(pattern|regex|regular expression)", msg, re.I)
            if m:
                cause = "pattern"
            fails.append((f"schema-does-not-build:{name}:{type(e).__name__}:{cause}", f"{msg[:700]}\n{p.text[-1500:]}"))
    if p.schema is None:
        return None
    try:
        p.rm = refmodel.load(mmgen.render(p.spec, canonical=True))  # bases first: the text is executed
    except BaseException:  # noqa
        if ctx is not None:
            ctx.exclude("reference-exec-failed")
        return None
    try:
        p.sdk, why = sdk.build_py_sdk(p.text, base)
    except BaseException as e:  # noqa
        fails.append((f"sdk-import-fails:{type(e).__name__}", runner.exc_text(e)))
        return None
    if p.sdk is None:
        if ctx is not None:
            ctx.exclude("python-target-" + why.split(":")[0])
        return None
    if need_docs:
        for neutral in case["instances"]:
            ok = schemakit.satisfies_all(p.spec, p.rm, neutral)
            if not ok:
                if ctx is not None:
                    ctx.exclude("instance-violates-an-invariant" if ok is False else "reference-evaluation-raised")
                continue
            if any(c10_bad(z) for z in _strings(neutral)):
                if ctx is not None:
                    ctx.exclude("not-xml-representable-or-line-break")
                continue
            try:
                x = sdk.to_sdk(p.spec, p.sdk, neutral)
                xml = p.sdk.xmlization.to_str(x)
            except BaseException as e:  # noqa
                fails.append((f"serialization-raises:{type(e).__name__}", runner.exc_text(e)))
                continue
            p.docs.append((neutral, x, xml))
    return p


_BAD = re.compile("[^\\u0020-\\uD7FF\\uE000-\\uFFFD\\U00010000-\\U0010FFFF]")


def c10_bad(s: str) -> bool:
    return _BAD.search(s) is not None


def _strings(v: Any) -> List[str]:
    if isinstance(v, str):
        return [v]
    if isinstance(v, dict) and "cls" in v:
        return [x for y in v["props"].values() for x in _strings(y)]
    if isinstance(v, list):
        return [x for y in v for x in _strings(y)]
    return []


def xsd_patterns(xsd_text: str) -> List[str]:
    import xml.etree.ElementTree as ET

    root = ET.fromstring(xsd_text)
    return [e.get("value") or "" for e in root.iter("{http://www.w3.org/2001/XMLSchema}pattern")]


def evaluate(case: Dict[str, Any], base: Any, ctx: Any = None) -> List[Tuple[str, str]]:
    fails = []  # type: List[Tuple[str, str]]
    p = prepare(case, base, ctx, fails)
    if p is None:
        return fails
    with p.sdk:
        spec = p.spec
        cp_refs, prop_refs = schemakit.build_refs(spec)
        multi = any(len(r.patterns) >= 2 for r in list(prop_refs.values()) + list(cp_refs.values()))
        abstract_prop = any(_mentions_abstract(spec, pr.type) for c in spec.classes for pr in c.props)
        # (3) pattern sub-property at function level
        from elementpath.regex import translate_pattern

        emitted = xsd_patterns(p.xsd_text)
        for f in spec.fns:
            if f.kind != "pattern" or not f.examples:
                continue
            # only constraints the XSD is meant to enforce: declared in the class that declares the property,
            # or coming from a constrained primitive used as value or list item
            fn_pat = {g.name: g.pattern for g in spec.fns if g.kind == "pattern"}
            used_alone = []
            for c in spec.classes:
                for pr in c.props:
                    pats = []
                    core = pr.type.core
                    if core.kind == "cp":
                        pats += cp_refs[core.name].patterns
                    if core.kind == "list" and core.item.kind == "cp":
                        if cp_refs[core.item.name].patterns == [f.pattern]:
                            used_alone.append(core.item.name)
                    for inv in c.invs:
                        if inv.tags.get("prop") == pr.name and inv.tags.get("recognised") and inv.tags.get("form") == "pattern":
                            pats += [fn_pat[x] for x in inv.tags["fns"]]
                    if pats == [f.pattern]:
                        used_alone.append(pr.name)
            if not used_alone:
                continue
            # the single-pattern translation of P is P without anchors: find emitted patterns that accept all examples
            ok_any = False
            tried = []
            for xp in dict.fromkeys(emitted):
                try:
                    py = translate_pattern(xp)
                except BaseException:  # noqa
                    continue
                exs = [s for s in f.examples if not c10_bad(s)]
                tried.append(xp)
                if all(re.fullmatch(py, s) for s in exs):
                    ok_any = True
                    break
            if ctx is not None:
                ctx.classes["pattern-function-checked"] += 1
            if not ok_any:
                fails.append(("no-emitted-pattern-accepts-the-examples",
                              f"P={f.pattern!r} examples={f.examples!r} emitted={tried[:10]!r}\n{p.text[-1200:]}"))
        for neutral, x, xml in p.docs:
            has_pat = c11.boundary(spec, prop_refs, cp_refs, neutral)
            nt = has_pat or multi or abstract_prop
            if ctx is not None:
                ctx.case(nt, key=[p.text, neutral], sample={"xml": xml[:600], "class": neutral["cls"]},
                         classes=["document"] + (["multi-pattern-model"] if multi else []) + (["choice-group"] if abstract_prop else []))
            try:
                errs = list(p.schema.iter_errors(xml))
            except BaseException as e:  # noqa
                fails.append((f"validator-raises:{type(e).__name__}", f"{runner.exc_text(e)}\nxml={xml[:600]}"))
                continue
            if errs:
                e0 = errs[0]
                reason = str(getattr(e0, "reason", e0))[:300]
                kind = _kind(reason)
                if kind in ("unexpected-child", "missing-child") and _diamond_in(spec, neutral):
                    kind += ":class-with-diamond-inheritance-gets-the-common-ancestor-group-twice"
                fails.append((f"valid-document-rejected:{kind}",
                              f"reason={reason}\npath={getattr(e0, 'path', None)}\nxml={xml[:900]}\ninstance={neutral!r}\n{p.text[-1500:]}"))
    return fails


def _kind(reason: str) -> str:
    for key, pat in [("pattern", r"pattern"), ("minLength", r"min.?length|minLength"), ("maxLength", r"max.?length|maxLength"),
                     ("length", r"\blength\b"), ("unexpected-child", r"Unexpected child|not expected|unexpected"),
                     ("missing-child", r"not complete|missing|Tag .* expected"), ("enumeration", r"enumeration"),
                     ("datatype", r"invalid|not a valid|could not|cannot be")]:
        if re.search(pat, reason, re.I):
            return key
    return "other"


def _is_diamond(spec: Any, cname: str) -> bool:
    """Some ancestor is reachable over two different bases."""
    seen = set()  # type: set
    for b in spec.cls(cname).bases:
        reach = set([b] + spec.ancestors(b))
        if seen & reach:
            return True
        seen |= reach
    return any(_is_diamond(spec, b) for b in spec.cls(cname).bases)


def _diamond_in(spec: Any, v: Any) -> bool:
    if isinstance(v, dict) and "cls" in v:
        return _is_diamond(spec, v["cls"]) or any(_diamond_in(spec, x) for x in v["props"].values())
    if isinstance(v, list):
        return any(_diamond_in(spec, x) for x in v)
    return False


def _mentions_abstract(spec: Any, t: Any) -> bool:
    if t.kind == "class":
        return bool(spec.concrete_descendants(t.name))
    return t.item is not None and _mentions_abstract(spec, t.item)


def pattern_case(case: Any, ctx: Any = None) -> List[Tuple[str, str]]:
    """Function-level pattern sub-property: xsd._translate_pattern(P) accepts every string that P accepts."""
    import random

    from elementpath.regex import translate_pattern
    from vlib import regen

    fails = []  # type: List[Tuple[str, str]]
    ast, seed = case
    rnd = random.Random(seed)
    pat = regen.render(ast, rnd)
    try:
        compiled = re.compile(pat)
    except (re.error, OverflowError, RecursionError):
        return []
    from aas_core_codegen.parse import retree

    parsed, err = retree.parse([pat])
    if err is not None:
        if ctx is not None:
            ctx.exclude("pattern-not-accepted-by-regex-front-end")
        return []
    from aas_core_codegen.xsd import main as xsd_main

    try:
        xp, error = xsd_main._translate_pattern(pat)
    except BaseException as e:  # noqa
        return [(f"pattern:translate-raises:{runner.exc_bucket(e)}", f"P={pat!r}\n{runner.exc_text(e)}")]
    if error is not None:
        if ctx is not None:
            ctx.exclude("pattern-translation-reported-an-error")
        return []
    feats = regen.features(ast)
    try:
        py = translate_pattern(xp)
        cx = re.compile(py)
    except BaseException as e:  # noqa
        msg = str(e)
        if "not allowed escape sequence" in msg:
            cause = "python-style-escape-sequence-(\\x,\\u,\\U,\\$)-not-allowed-in-XSD"
        else:
            cause = re.sub(r"[^A-Za-z ]+", "_", msg)[:40]
        if ctx is not None:
            ctx.case(True, key=pat, classes=["pattern-case", "xsd-pattern-invalid"])
        return [(f"pattern:emitted-xsd-pattern-is-not-valid:{cause}", f"P={pat!r} X={xp!r}\n{type(e).__name__}: {e}")]
    strs, n_pos = regen.strings(ast, rnd, n_pos=10, n_neigh=0, n_rand=0, no_line_breaks=True, no_lone_surrogates=True)
    checked = 0
    for sx in strs[:n_pos]:
        if c10_bad(sx):
            continue
        ok, m = regen.cpu_limited(lambda: compiled.match(sx))
        if not ok or m is None:
            continue
        checked += 1
        ok2, m2 = regen.cpu_limited(lambda: cx.fullmatch(sx))
        if ok2 and m2 is None:
            if re.search(r"\\[xuU][0-9a-fA-F]{2}", xp or ""):
                cause = "python-style-escape-left-in-xsd-pattern"
            elif re.search(r"\\x[0-9a-fA-F]{2}", pat):
                cause = "metacharacter-from-hex-escape"
            else:
                cause = "other"
            if cause == "other" and re.search(r"\[[^\]]*(\\\\|\\\^|\\-|\\\]|\\\[)", pat):
                # escaped backslash / caret / dash / brackets inside a character set: XSD and Python differ in the
                # set syntax itself and the only XSD regex reader available here (elementpath) is not trusted as
                # an oracle for these corners - counted, not asserted
                if ctx is not None:
                    ctx.exclude("set-syntax-corner-(escaped-backslash-caret-dash-bracket-in-set):oracle-not-trusted")
                break
            fails.append((f"pattern:string-of-the-language-rejected-by-xsd-pattern:{cause}", f"P={pat!r} X={xp!r} s={sx!r}"))
            break
    if ctx is not None:
        ctx.case(checked > 0 and ("quantifier" in " ".join(feats) or "set" in " ".join(feats) or True), key=pat,
                 sample={"P": pat, "X": xp, "strings": strs[:3]}, classes=["pattern-case"])
    return fails


def shard(ctx: runner.Ctx) -> None:
    n = ctx.n(250, 10_000)
    n_inst = N_INST_QUICK if ctx.quick else N_INST_THOROUGH

    def one(case: Dict[str, Any]) -> None:
        ctx.classes["models"] += 1
        for b, m in evaluate(case, ctx.scratch, ctx):
            ctx.fail(b, case, m)

    runner.hyp_run(cases(n_inst), one, n, ctx.seed)

    # function-level pattern sweep (anchored, greedy, no line breaks, XML characters)
    from vlib import regen

    o = regen.Opts(anchored=True, greedy_only=True, no_line_breaks=True, surrogates=0, controls=0, inner_anchors=0,
                   astral=6, max_depth=2)

    def one_pattern(case: Any) -> None:
        for b, m in pattern_case(case, ctx):
            ctx.fail(b, {"pattern_case": [case[0], case[1]]}, m)

    regen.with_roomy_stack(lambda: runner.hyp_run(regen.cases(o), one_pattern, ctx.n(3_000, 300_000), ctx.seed + 7))


def replay(case: Any) -> List[Tuple[str, str]]:
    if isinstance(case, dict) and "pattern_case" in case:
        try:
            return pattern_case((case["pattern_case"][0], int(case["pattern_case"][1])), None)
        except (KeyError, TypeError, IndexError, ValueError, AssertionError, AttributeError):
            return []
    if not isinstance(case, dict) or "spec" not in case:
        return []
    base = runner.make_scratch("c13-replay")
    try:
        case = dict(case)
        case.setdefault("instances", [])
        case.setdefault("edits", [])
        return evaluate(case, base, None)
    except (KeyError, TypeError, AttributeError, IndexError, AssertionError, StopIteration, ValueError):
        return []
    finally:
        shutil.rmtree(base, ignore_errors=True)


def health(m: Any, tier: str) -> Any:
    models = m["classes"].get("models", 0)
    docs = m["classes"].get("document", 0)
    if models and docs < 2 * models:
        return f"only {docs} valid documents from {models} models; excluded={m['excluded']}"
    return None


if __name__ == "__main__":
    runner.main(sys.modules[__name__])
