"""C22 — Generation is deterministic."""
from __future__ import annotations

import contextlib
import hashlib
import io
import json
import os
import pathlib
import random
import re
import shutil
import stat
import subprocess
import sys
import tempfile
import traceback
from typing import Any, Dict, Iterator, List, Optional, Tuple

import hypothesis
from hypothesis import strategies as st

from vlib import fsaudit, mmgen, mmmut, runner, sut, tbparse

PID = "C22"
RULE = (
    "Hypothesis: meta-models from vlib.mmgen (accepted), the same with 2-4 near-miss mutations (vlib.mmmut + planted "
    "constructor/property mismatches, duplicate classes, unknown types; 'rejected'), models with implementation-specific "
    "functions whose snippets are missing (generator errors), snippet directories with >=2 invalid keys, and the "
    "repository's own fixtures (dev/test_data/main/<target>/expected/<case>, aas_core_meta.v3 in the thorough tier) plus four "
    "fixed regression inputs (constructor/property mismatch, malformed :attr: reference, invalid snippet keys, attribute as enumeration-literal target) "
    "x targets (rotating, all 8 in thorough) x configurations; plus a stream of schema-form models (192 quick / 2400 "
    "thorough: hierarchies whose invariants are all in the forms the schema inference recognises, with tightenings "
    "of inherited properties and chains of constrained primitives) for the jsonschema and xsd targets only. Every (model, target) is run in (a) four batch child "
    "processes with PYTHONHASHSEED 0..3 through main.main argv parsing (audit hook determines the files written), "
    "differing also in output path length, pre-populated output dir (noise incl. read-only files / stale output of "
    "another model / own previous output), on-disk creation order of the snippets (tmpfs lists in creation order) and "
    "cold/warm TMPDIR; (b) for a subset, fresh single-run processes of the aas-core-codegen script and of "
    "python -m aas_core_codegen.main with further hash seeds; (c) in-process main.execute runs with pathlib.Path.glob "
    "patched to return drawn permutations, output-dir histories and warm/cold cache. Oracle: every run equals the "
    "baseline (seed 0, empty short output dir, cold TMPDIR) in exit status, stderr, stdout (output/snippet/model paths "
    "replaced) and relative path + bytes of every file written. Non-trivial = the pair differs in hash seed and the "
    "model has >=2 of classes/constants/verification functions/snippets, for rejected models >=2 reported errors; "
    "distinct by (model text, snippets, target)."
)
ASSUMPTIONS = [
    "paths of the output directory, the snippet directory and the model file are replaced by placeholders in stdout/stderr before comparing ('stdout up to the output path'; stderr quotes the same paths)",
    "runs in which the generator crashes with an uncaught exception (C01/C02 defects) are excluded when both runs crash at the same frame; crash vs. no crash is a violation",
    "several invocations inside one child process (one hash seed) stand for that many processes with this seed; a subset is re-run as real single-invocation processes",
    "bucket = aspect that differs + normalised common prefix of the first differing line (stderr/stdout) or target + file name (bytes); the dimensions in which the two runs differ are listed in the message",
]

VERIF = pathlib.Path(__file__).resolve().parent.parent
PY = "/venv/bin/python"
SCRIPT = "/venv/bin/aas-core-codegen"

# ---------------------------------------------------------------------------
# configurations
# ---------------------------------------------------------------------------

BASELINE = {"mode": "batch", "seed": 0, "out": "short", "prepop": "none", "order": "sorted", "glob": "disk", "tmp": "cold"}


def batch_cfgs(orders: List[int]) -> List[Dict[str, Any]]:
    return [
        dict(BASELINE),
        {"mode": "batch", "seed": 1, "out": "long", "prepop": "noise", "order": orders[0], "glob": "disk", "tmp": "warm"},
        {"mode": "batch", "seed": 2, "out": "short", "prepop": "stale", "order": "reversed", "glob": "disk", "tmp": "cold"},
        {"mode": "batch", "seed": 3, "out": "long", "prepop": "self", "order": orders[1], "glob": "disk", "tmp": "cold"},
    ]


def single_cfgs(orders: List[int]) -> List[Dict[str, Any]]:
    return [
        {"mode": "cli", "seed": 4, "out": "short", "prepop": "none", "order": "sorted", "glob": "disk", "tmp": "cold"},
        {"mode": "module", "seed": 5, "out": "long", "prepop": "noise", "order": orders[2], "glob": "disk", "tmp": "warm"},
    ]


def inproc_cfgs(orders: List[int]) -> List[Dict[str, Any]]:
    ip = {"mode": "inproc", "seed": None, "out": "short", "prepop": "none", "order": "sorted", "glob": "disk", "tmp": "cold"}
    return [
        dict(ip),
        dict(ip, glob="patched", order="reversed"),
        dict(ip, glob="patched", order=orders[3], tmp="warm"),
        dict(ip, prepop="stale", out="long", glob="patched", order=orders[4]),
        dict(ip, prepop="self", glob="patched", order=orders[5]),
    ]


DIMS = ("mode", "seed", "out", "prepop", "order", "glob", "tmp")


def cfg_ok(cfg: Any) -> bool:
    if not isinstance(cfg, dict):
        return False
    return (
        cfg.get("mode") in ("batch", "cli", "module", "inproc")
        and (cfg.get("seed") is None or (isinstance(cfg.get("seed"), int) and 0 <= cfg["seed"] < 2 ** 32))
        and cfg.get("out") in ("short", "long")
        and cfg.get("prepop") in ("none", "noise", "stale", "self")
        and (cfg.get("order") in ("sorted", "reversed") or isinstance(cfg.get("order"), int))
        and cfg.get("glob") in ("disk", "patched")
        and cfg.get("tmp") in ("cold", "warm")
    )


# ---------------------------------------------------------------------------
# case generation
# ---------------------------------------------------------------------------

EXTRA_KEYS = ["extra.txt", "a.txt", "b.txt", "Types/Foo/bar.py", "zz/yy/xx.txt", "Verification/matches_zzz.py",
              "types/Foo/baz.body.cpp", "x_1.y.z", ".hidden", "sub/.gitignore", "sub/ok.txt", "M.txt", "m.txt"]
BAD_KEYS = ["bad key.txt", "1x.txt", "a-b.txt", "dir-x/c.txt", "x/2y.txt", "sp ace/ok.txt", "é.txt", "a+b.txt",
            "x/y z.txt", "9/8.txt", "binary.bin"]
BIN_MARK = "<BIN>"  # content marker: the file holds bytes that are not UTF-8


def _m_extra_ctor_arg(draw: Any, text: str) -> Optional[str]:
    name = f"extra_q{draw(st.integers(0, 9))}"
    if re.search(rf"\b{name}\b", text):
        return None
    r = mmmut._sub_nth(draw, text, r"(    def __init__\(\n        self,\n)", lambda m: m.group(1) + f"        {name}: int,\n")
    if r is not None and draw(st.booleans()):
        return r
    return mmmut._sub_nth(draw, text, r"def __init__\(self, ", f"def __init__(self, {name}: int, ") or r


def _m_dup_class(draw: Any, text: str) -> Optional[str]:
    ms = list(re.finditer(r"^class \w+[^\n]*:\n(?:(?:    [^\n]*|)\n)+", text, re.M))
    if not ms:
        return None
    m = mmmut._pick(draw, ms)
    return text[: m.end()] + "\n\n" + m.group(0) + text[m.end():]


def _m_unknown_type(draw: Any, text: str) -> Optional[str]:
    return mmmut._sub_nth(draw, text, r"^(    \w+): (.+)$", lambda m: f'{m.group(1)}: "Unknown_type_{draw(st.integers(0, 3))}"', re.M)


def _m_unknown_in_inv(draw: Any, text: str) -> Optional[str]:
    return mmmut._sub_nth(draw, text, r"self\.(\w+)", r"self.unknown_\1")


PLANTED = [_m_extra_ctor_arg, _m_extra_ctor_arg, _m_dup_class, _m_unknown_type, _m_unknown_in_inv]
PLANTED_LATE = [_m_extra_ctor_arg, _m_extra_ctor_arg, _m_extra_ctor_arg, _m_unknown_in_inv]  # reported by the translation phase


def _opts(draw: Any, plain: bool = False) -> mmgen.Opts:
    if plain:
        return mmgen.Opts(max_classes=draw(st.integers(3, 6)), max_props=draw(st.integers(2, 4)),
                          docs=draw(st.sampled_from(["none", "plain"])),
                          invariants=draw(st.sampled_from(["general", "schema", "none"])))
    return mmgen.Opts(
        max_classes=draw(st.integers(2, 6)),
        max_props=draw(st.integers(1, 4)),
        nested_lists=draw(st.booleans()),
        docs=draw(st.sampled_from(["none", "plain", "plain", "adversarial"])),
        adversarial_text=draw(st.booleans()),
        invariants=draw(st.sampled_from(["general", "schema", "schema", "none"])),
        compatible_patterns=0.5,
        p_diamond=0.4,
    )


@st.composite
def cases(draw: Any, schema_only: bool = False) -> Dict[str, Any]:
    """``schema_only``: accepted models whose invariants are all in the forms the schema inference recognises
    (hierarchies with tightenings of inherited properties) - the input of the two schema targets."""
    if schema_only:
        kind = "accepted"
        o = mmgen.Opts(max_classes=draw(st.integers(3, 6)), max_props=draw(st.integers(1, 3)), docs="none",
                       invariants="schema", compatible_patterns=0.7, p_diamond=0.4, cp_weight=3, cp_chain=0.3)
    else:
        kind = draw(st.sampled_from(["accepted"] * 4 + ["rejected"] * 3 + ["planted"] * 3 + ["impl-missing"] * 2 + ["snippet-errors"]))
        o = _opts(draw, plain=(kind == "planted"))
    spec = draw(mmgen.specs(o))
    n_props = sum(len(c.props) for c in spec.classes)
    if kind == "planted":
        hypothesis.assume(len(spec.classes) >= 3 and n_props >= 4)
    elif draw(st.integers(0, 7)) > 0:
        hypothesis.assume(len(spec.classes) >= 2 and n_props >= 1)  # mostly: not the minimal models Hypothesis starts with
    if kind == "impl-missing":
        k = draw(st.integers(2, 3))
        for i in range(k):
            nm = f"is_impl_specific_{'abc'[i]}"
            spec.fns.append(mmgen.Fn(nm, "impl", [("text", mmgen.TRef("prim", "str"))], doc="Check something."))
            spec.order.insert(draw(st.integers(0, len(spec.order))), ("fn", nm))
    text = mmgen.render(spec)
    muts = []  # type: List[str]
    if kind == "planted":
        # only semantic breaks that survive parsing: the errors come from the translation phase, several at once
        for _ in range(draw(st.integers(1, 4))):
            op = mmmut._pick(draw, PLANTED_LATE)
            res = op(draw, text)
            if res is not None:
                text = res
                muts.append(op.__name__)
    if kind == "rejected":
        other = mmgen.render(draw(mmgen.specs(mmgen.Opts(max_classes=3, max_props=2))))
        for _ in range(draw(st.integers(2, 4))):
            if draw(st.integers(0, 9)) < 4:
                op = mmmut._pick(draw, PLANTED)
                res = op(draw, text)
                if res is not None:
                    text = res
                    muts.append(op.__name__)
            else:
                name, text = mmmut.mutate(draw, text, other)
                muts.append(name)
    n_extra = draw(st.integers(0, 5))
    idx = draw(st.lists(st.integers(0, len(EXTRA_KEYS) - 1), min_size=n_extra, max_size=n_extra, unique=True))
    extra = {EXTRA_KEYS[i]: draw(st.sampled_from(["x", "  padded \n", "", "line1\nline2", "é\U0001F600", "// code"])) for i in idx}
    if kind == "snippet-errors":
        k = draw(st.integers(2, 5))
        bidx = draw(st.lists(st.integers(0, len(BAD_KEYS) - 1), min_size=k, max_size=k, unique=True))
        for i in bidx:
            extra[BAD_KEYS[i]] = BIN_MARK if BAD_KEYS[i] == "binary.bin" else "bad"
    orders = draw(st.lists(st.integers(0, 2 ** 16), min_size=6, max_size=6))
    return {
        "kind": kind, "text": text, "extra": extra, "orders": orders, "muts": muts,
        "n_entities": [len(spec.classes), len(spec.consts), len(spec.fns)],
        "schema_form": kind == "accepted" and o.invariants == "schema",
    }


_CORNER_HEAD = "from enum import Enum\nfrom typing import List, Optional\n\nfrom icontract import invariant, DBC\n\n\n"
_CORNER_TAIL = '\n\n__version__ = "V1"\n\n__xml_namespace__ = "https://example.com/ns/1"\n'
CORNERS = [
    # constructor arguments != properties: the message printed a set
    (_CORNER_HEAD + "class Foo(DBC):\n    aaa: int\n    bbb: str\n    ccc: int\n\n"
     "    def __init__(self, aaa: int, bbb: str, ccc: int, eee: int) -> None:\n"
     "        self.aaa = aaa\n        self.bbb = bbb\n        self.ccc = ccc\n" + _CORNER_TAIL, {}),
    # malformed attribute references in descriptions: the message quoted a contract violation with an object address
    (_CORNER_HEAD + 'class C(DBC):\n    """:attr:`C.x.y`"""\n\n    x: int\n\n    def __init__(self, x: int) -> None:\n'
     '        self.x = x\n\n\nclass D(DBC):\n    """Refer to :attr:`C.x` and :attr:`.x`."""\n' + _CORNER_TAIL, {}),
    # several invalid snippet keys: the errors were listed in directory order
    (_CORNER_HEAD + "class Foo(DBC):\n    aaa: int\n\n    def __init__(self, aaa: int) -> None:\n        self.aaa = aaa\n"
     + _CORNER_TAIL, {"bad key.txt": "x", "1x.txt": "x", "a-b.txt": "x", "dir-x/c.txt": "x", "binary.bin": BIN_MARK}),
    # an enumeration literal assigned to an attribute: the message printed the AST node with its address
    (_CORNER_HEAD + 'class Quux_kind(Enum):\n    Quux_kind.x = "a"\n' + _CORNER_TAIL, {}),
]


def fixtures(with_big: bool) -> List[Tuple[str, str]]:
    root = runner.REPO / "dev" / "test_data" / "main"
    out = []  # type: List[Tuple[str, str]]
    for target in sut.TARGETS:
        d = root / target / "expected"
        if not d.is_dir():
            continue
        for case_dir in sorted(d.iterdir()):
            if not (case_dir / "input" / "snippets").is_dir():
                continue
            if case_dir.name == "aas_core_meta.v3" and not with_big:
                continue
            out.append((target, case_dir.name))
    return out


def load_fixture(target: str, name: str) -> Optional[Tuple[str, Dict[str, str]]]:
    if target not in sut.TARGETS or not re.fullmatch(r"[A-Za-z0-9_.]+", name or ""):
        return None
    case_dir = runner.REPO / "dev" / "test_data" / "main" / target / "expected" / name
    mp = case_dir / "meta_model.py"
    if not mp.exists():
        mp = runner.REPO / "dev" / "test_data" / "common_meta_models" / f"{name}.py"
    sd = case_dir / "input" / "snippets"
    if not mp.exists() or not sd.is_dir():
        return None
    snippets = {}  # type: Dict[str, str]
    for p in sorted(sd.rglob("*")):
        if p.is_file():
            try:
                snippets[p.relative_to(sd).as_posix()] = p.read_bytes().decode("utf-8")
            except UnicodeDecodeError:
                snippets[p.relative_to(sd).as_posix()] = BIN_MARK
    return mp.read_text(encoding="utf-8"), snippets


# ---------------------------------------------------------------------------
# preparing and running one job
# ---------------------------------------------------------------------------


def ordered(keys: List[str], order: Any) -> List[str]:
    ks = sorted(keys)
    if order == "sorted":
        return ks
    if order == "reversed":
        return ks[::-1]
    random.Random(int(order)).shuffle(ks)
    return ks


def write_snippets(d: pathlib.Path, snippets: Dict[str, str], order: Any) -> None:
    d.mkdir(parents=True, exist_ok=True)
    for key in ordered(list(snippets), order):
        p = d / key
        p.parent.mkdir(parents=True, exist_ok=True)
        if snippets[key] == BIN_MARK:
            p.write_bytes(b"\xff\xfe\x00bin")
        else:
            p.write_bytes(snippets[key].encode("utf-8", "surrogatepass"))


NOISE = {"README.noise": b"noise\n", ".hidden_noise": b"\x00\x01", "sub/dir/noise.bin": bytes(range(256)),
         "readonly.noise": b"read only\n", "types.noise.py": b"raise SystemExit\n"}


def prepopulate(out: pathlib.Path, how: str, stale_src: Optional[pathlib.Path]) -> None:
    if how == "none" or how == "self":
        return
    out.mkdir(parents=True, exist_ok=True)
    if how == "stale" and stale_src is not None and stale_src.is_dir():
        shutil.copytree(stale_src, out, dirs_exist_ok=True)
    # ``stale`` also gets the noise: unrelated files next to stale generated ones
    for rel, data in NOISE.items():
        p = out / rel
        p.parent.mkdir(parents=True, exist_ok=True)
        p.write_bytes(data)
    os.chmod(out / "readonly.noise", stat.S_IRUSR | stat.S_IRGRP)


class Job:
    """One prepared invocation."""

    def __init__(self, jid: str, cfg: Dict[str, Any], model: pathlib.Path, target: str, snippets_dir: pathlib.Path,
                 out: pathlib.Path, tmp: pathlib.Path) -> None:
        self.id = jid
        self.cfg = cfg
        self.model = model
        self.target = target
        self.snippets_dir = snippets_dir
        self.out = out
        self.tmp = tmp
        self.before = {}  # type: Dict[str, Tuple[int, int, int]]

    def argv(self, out: Optional[pathlib.Path] = None) -> List[str]:
        return ["--model_path", str(self.model), "--snippets_dir", str(self.snippets_dir),
                "--output_dir", str(out or self.out), "--target", self.target]

    def prime_argv(self) -> Optional[List[str]]:
        if self.cfg["prepop"] == "self":
            return self.argv()
        if self.cfg["tmp"] == "warm":
            return self.argv(self.out.parent / (self.out.name + ".prime"))
        return None


def prepare(jid: str, cfg: Dict[str, Any], case_dir: pathlib.Path, model: pathlib.Path, target: str,
            snippets: Dict[str, str], stale_src: Optional[pathlib.Path], shm: Optional[pathlib.Path]) -> Job:
    jd = case_dir / jid
    jd.mkdir(parents=True, exist_ok=True)
    if cfg["glob"] == "disk" and cfg["order"] != "sorted" and shm is not None:
        sd = shm / f"{case_dir.name}-{jid}" / "snippets"
    else:
        sd = jd / "snippets"
    write_snippets(sd, snippets, cfg["order"] if cfg["glob"] == "disk" else "sorted")
    if cfg["out"] == "long":
        out = jd / ("long_" + "x" * 60) / ("deeper " + "y" * 50) / "out"
        out.parent.mkdir(parents=True, exist_ok=True)
    else:
        out = jd / "o"
    prepopulate(out, cfg["prepop"], stale_src)
    return Job(jid, cfg, model, target, sd, out, jd / "tmp")


def _snapshot(out: pathlib.Path) -> Dict[str, Tuple[int, int, int]]:
    snap = {}  # type: Dict[str, Tuple[int, int, int]]
    if out.is_dir():
        for p in out.rglob("*"):
            if p.is_file() and not p.is_symlink():
                s = p.stat()
                snap[p.relative_to(out).as_posix()] = (s.st_mtime_ns, s.st_size, s.st_ino)
    return snap


_tb_bucket = tbparse.bucket_of_traceback


def _normalise(s: str, job: Job) -> str:
    for path, ph in sorted([(str(job.out), "<OUT>"), (str(job.snippets_dir), "<SNIPPETS>"), (str(job.model), "<MODEL>")],
                           key=lambda t: -len(t[0])):
        s = s.replace(path, ph)
    return s


def _finish(job: Job, rc: Any, stdout: str, stderr: str, written: Optional[List[str]], exc_bucket: Optional[str],
            exc: Optional[str]) -> Dict[str, Any]:
    files = {}  # type: Dict[str, str]
    if written is None:
        after = _snapshot(job.out)
        written = [str(job.out / rel) for rel, sig in after.items() if job.before.get(rel) != sig]
    outside = []
    for w in sorted(set(written)):
        if fsaudit.inside(w, str(job.out)):
            p = pathlib.Path(w)
            rel = os.path.relpath(w, str(job.out))
            if p.is_file():
                files[rel] = hashlib.sha256(p.read_bytes()).hexdigest()
            else:
                files[rel] = "<missing>"
        elif not fsaudit.inside(w, str(job.tmp)) and not fsaudit.inside(w, str(job.out) + ".prime"):
            outside.append(w)
    return {"rc": rc, "stdout": _normalise(stdout, job), "stderr": _normalise(stderr, job), "files": files,
            "exc_bucket": exc_bucket, "exc": exc, "outside": outside}


def _env(seed: Optional[int], tmp: Optional[pathlib.Path]) -> Dict[str, str]:
    env = dict(os.environ)
    if seed is not None:
        env["PYTHONHASHSEED"] = str(seed)
    if tmp is not None:
        env["TMPDIR"] = str(tmp)
    env.pop("PYTHONWARNINGS", None)
    return env


def run_batch(jobs: List[Job], seed: int, work: pathlib.Path) -> Dict[str, Dict[str, Any]]:
    """All ``jobs`` in one child process with hash seed ``seed``."""
    if not jobs:
        return {}
    jf, rf = work / f"jobs-{seed}.json", work / f"results-{seed}.json"
    jf.write_text(json.dumps([{"id": j.id, "argv": j.argv(), "prime": j.prime_argv(), "tmp": str(j.tmp)} for j in jobs]))
    p = subprocess.run([PY, "-m", "vlib.c22_child", str(jf), str(rf)], cwd=str(VERIF), env=_env(seed, None),
                       stdout=subprocess.PIPE, stderr=subprocess.PIPE, text=True)
    if p.returncode != 0 or not rf.exists():
        raise runner.HarnessError(f"c22 child failed rc={p.returncode}: {p.stderr[-2000:]}")
    by_id = {j.id: j for j in jobs}
    out = {}  # type: Dict[str, Dict[str, Any]]
    for r in json.loads(rf.read_text()):
        job = by_id[r["id"]]
        written = [e[1] for e in r["events"] if e[0] == "open-w"] + [e[2] for e in r["events"] if e[0] == "rename"]
        out[r["id"]] = _finish(job, r["rc"], r["stdout"], r["stderr"], written, r["exc_bucket"], r["exc"])
    return out


def run_single(job: Job) -> Dict[str, Any]:
    """A real single-invocation process (console script or ``python -m aas_core_codegen.main``)."""
    job.tmp.mkdir(parents=True, exist_ok=True)
    if job.cfg["mode"] == "cli" and os.path.exists(SCRIPT):
        head = [SCRIPT]
    else:
        head = [PY, "-m", "aas_core_codegen.main"]
    env = _env(job.cfg["seed"], job.tmp)
    prime = job.prime_argv()
    if prime is not None:
        subprocess.run(head + prime, env=env, stdout=subprocess.PIPE, stderr=subprocess.PIPE, text=True, cwd=str(job.tmp))
    job.before = _snapshot(job.out)
    p = subprocess.run(head + job.argv(), env=env, stdout=subprocess.PIPE, stderr=subprocess.PIPE, text=True, cwd=str(job.tmp))
    exc_bucket = exc = None
    if "Traceback (most recent call last)" in p.stderr:
        exc_bucket, exc = _tb_bucket(p.stderr), p.stderr[-3000:]
    return _finish(job, p.returncode, p.stdout, p.stderr, None, exc_bucket, exc)


@contextlib.contextmanager
def patched_glob(order: Any) -> Iterator[None]:
    orig = pathlib.Path.glob

    def glob(self: pathlib.Path, pattern: str, **kw: Any) -> Iterator[pathlib.Path]:
        items = sorted(orig(self, pattern, **kw))
        if order == "reversed":
            items.reverse()
        elif order != "sorted":
            random.Random(int(order)).shuffle(items)
        return iter(items)

    pathlib.Path.glob = glob  # type: ignore
    try:
        yield
    finally:
        pathlib.Path.glob = orig  # type: ignore


def run_inproc(job: Job) -> Dict[str, Any]:
    """``main.execute`` in this process (hash seed of this process)."""
    from aas_core_codegen import main as cg_main

    job.tmp.mkdir(parents=True, exist_ok=True)
    old_tmp = tempfile.tempdir
    tempfile.tempdir = str(job.tmp)

    def once(out_dir: pathlib.Path) -> Tuple[Any, str, str, Optional[str], Optional[str]]:
        params = cg_main.Parameters(model_path=job.model, target=cg_main.Target(job.target),
                                    snippets_dir=job.snippets_dir, output_dir=out_dir, cache_model=False)
        out, err = io.StringIO(), io.StringIO()
        try:
            rc = cg_main.execute(params, stdout=out, stderr=err)
            return rc, out.getvalue(), err.getvalue(), None, None
        except BaseException as e:  # noqa
            if isinstance(e, (KeyboardInterrupt, MemoryError, SystemExit)):
                raise
            return "exception", out.getvalue(), err.getvalue(), runner.exc_bucket(e), runner.exc_text(e)

    try:
        ctxm = patched_glob(job.cfg["order"]) if job.cfg["glob"] == "patched" else contextlib.nullcontext()
        with ctxm:
            prime = job.prime_argv()
            if prime is not None:
                once(pathlib.Path(prime[5]))
            with fsaudit.record() as events:
                rc, so, se, eb, ex = once(job.out)
    finally:
        tempfile.tempdir = old_tmp
    written = [e[1] for e in events if e[0] == "open-w"] + [e[2] for e in events if e[0] == "rename"]
    return _finish(job, rc, so, se, written, eb, ex)


# ---------------------------------------------------------------------------
# comparing
# ---------------------------------------------------------------------------


def _sig(a: str, b: str) -> str:
    la, lb = a.splitlines(), b.splitlines()
    if sorted(la) == sorted(lb) and la:
        # the same lines in a different order: the root cause is the order of the items of this report
        head = re.sub(r"\d+", "N", re.sub(r"<[A-Z]+>\S*", "P", la[0]))
        return "line-order:" + head[:60].strip().rstrip(":")
    i = 0
    while i < min(len(la), len(lb)) and la[i] == lb[i]:
        i += 1
    x = la[i] if i < len(la) else ""
    y = lb[i] if i < len(lb) else ""
    if x == "" or y == "":
        common = x or y
    else:
        common = os.path.commonprefix([x, y])
    s = re.sub(r"^\s*(\* )?", "", common)
    s = re.sub(r"At line \d+ and column \d+: ", "", s)
    s = re.sub(r"'[^']*'?", "Q", s)
    s = re.sub(r'"[^"]*"?', "Q", s)
    s = re.sub(r"\d+", "N", s)
    return " ".join(s.split()[:6])[:60] or "<line-missing>"


def _file_sig(target: str, rel: str) -> str:
    if target == "java":
        return f"java:{pathlib.PurePosixPath(rel).parent.name}/*.java"
    return f"{target}:{pathlib.PurePosixPath(rel).name}"


def n_errors(stderr: str) -> int:
    bullets = len(re.findall(r"^\s*\* ", stderr, re.M))
    ats = len(re.findall(r"At line \d+ and column \d+", stderr))
    return max(bullets, ats - 1)


def compare(target: str, a: Dict[str, Any], b: Dict[str, Any]) -> Tuple[str, List[Tuple[str, str]]]:
    """('ok'|'crash-excluded'|'differs', fails)."""
    if a["exc_bucket"] or b["exc_bucket"]:
        if a["exc_bucket"] == b["exc_bucket"]:
            return "crash-excluded", []
        return "differs", [(f"differs:crash:{a['exc_bucket']}|{b['exc_bucket']}",
                            f"run A: rc={a['rc']} {a['exc'] or a['stderr'][-600:]}\nrun B: rc={b['rc']} {b['exc'] or b['stderr'][-600:]}")]
    fails = []  # type: List[Tuple[str, str]]
    if a["rc"] != b["rc"]:
        fails.append((f"differs:exit-status:{target if a['rc'] == 0 or b['rc'] == 0 else 'errors'}",
                      f"A rc={a['rc']} B rc={b['rc']}\nA stderr: {a['stderr'][:500]}\nB stderr: {b['stderr'][:500]}"))
    if a["stderr"] != b["stderr"]:
        fails.append((f"differs:stderr:{_sig(a['stderr'], b['stderr'])}", f"A: {a['stderr'][:1200]}\nB: {b['stderr'][:1200]}"))
    if a["stdout"] != b["stdout"]:
        fails.append((f"differs:stdout:{_sig(a['stdout'], b['stdout'])}", f"A: {a['stdout'][:600]}\nB: {b['stdout'][:600]}"))
    if set(a["files"]) != set(b["files"]):
        only_a = sorted(set(a["files"]) - set(b["files"]))
        only_b = sorted(set(b["files"]) - set(a["files"]))
        fails.append((f"differs:file-set:{target}", f"only in A: {only_a[:10]} only in B: {only_b[:10]}"))
    else:
        for rel in sorted(a["files"]):
            if a["files"][rel] != b["files"][rel]:
                fails.append((f"differs:file-bytes:{_file_sig(target, rel)}", f"file {rel}: sha256 {a['files'][rel][:12]} != {b['files'][rel][:12]}"))
                break
    return ("differs" if fails else "ok"), fails


def dims_differing(a: Dict[str, Any], b: Dict[str, Any]) -> List[str]:
    return [d for d in DIMS if a.get(d) != b.get(d)]


# ---------------------------------------------------------------------------
# one case end-to-end (used by replay; the shard batches the same steps)
# ---------------------------------------------------------------------------


def snippets_of(case: Dict[str, Any], target: str) -> Dict[str, str]:
    sn = dict(sut.BASE_SNIPPETS[target])
    sn.update(case.get("extra") or {})
    return sn


def stale_output(target: str, base: pathlib.Path) -> Optional[pathlib.Path]:
    """Output of an unrelated small model for ``target`` (made once per process)."""
    d = base / f"stale-{target}"
    if d.exists():
        return d / "out"
    text = STALE_MODEL
    d.mkdir(parents=True)
    (d / "meta_model.py").write_text(text, encoding="utf-8")
    sut.write_snippets(d / "snippets", sut.BASE_SNIPPETS[target])
    old = tempfile.tempdir
    tempfile.tempdir = str(d)
    try:
        rc, _, _ = sut.execute(d / "meta_model.py", target, d / "snippets", d / "out")
    except BaseException:  # noqa
        rc = 1
    finally:
        tempfile.tempdir = old
    return d / "out" if rc == 0 else None


STALE_MODEL = mmgen.HEADER + '''

class Stale_kind(Enum):
    A = "a"
    B = "b"


@invariant(lambda self: len(self.foo) >= 1, "Foo must be non-empty")
class Foo(DBC):
    """Represent a stale thing."""

    foo: str
    kind: Optional["Stale_kind"]

    def __init__(self, foo: str, kind: Optional["Stale_kind"] = None) -> None:
        self.foo = foo
        self.kind = kind


class Stale_container(DBC):
    items: List["Foo"]

    def __init__(self, items: List["Foo"]) -> None:
        self.items = items


__version__ = "V0.stale"

__xml_namespace__ = "https://example.com/stale"
'''


def run_cfg(job: Job, work: pathlib.Path) -> Dict[str, Any]:
    mode = job.cfg["mode"]
    if mode == "batch":
        return run_batch([job], int(job.cfg["seed"] or 0), work)[job.id]
    if mode in ("cli", "module"):
        return run_single(job)
    return run_inproc(job)


def make_shm() -> Optional[pathlib.Path]:
    try:
        if os.path.isdir("/dev/shm") and os.access("/dev/shm", os.W_OK):
            return pathlib.Path(tempfile.mkdtemp(prefix="verif-C22-", dir="/dev/shm"))
    except OSError:
        pass
    return None


def case_inputs(case: Dict[str, Any]) -> Optional[Tuple[str, Dict[str, str]]]:
    """(model text, snippets) for the case's target."""
    if case.get("fixture"):
        fx = case["fixture"]
        if not (isinstance(fx, list) and len(fx) == 2 and all(isinstance(x, str) for x in fx)):
            return None
        return load_fixture(fx[0], fx[1])
    if not isinstance(case.get("text"), str) or case.get("target") not in sut.TARGETS:
        return None
    extra = case.get("extra") or {}
    if not isinstance(extra, dict) or not all(isinstance(k, str) and isinstance(v, str) for k, v in extra.items()):
        return None
    for k in extra:
        if k.startswith("/") or ".." in k.split("/") or k == "" or "\x00" in k or k.endswith("/") or "//" in k or len(k) > 100:
            return None
    return case["text"], snippets_of(case, case["target"])


def replay(case: Any) -> List[Tuple[str, str]]:
    if not isinstance(case, dict) or not cfg_ok(case.get("a")) or not cfg_ok(case.get("b")):
        return []
    target = case.get("target")
    if target not in sut.TARGETS:
        return []
    inp = case_inputs(case)
    if inp is None:
        return []
    text, snippets = inp
    # a key that is a directory prefix of another key cannot be written
    keys = sorted(snippets)
    for i, k in enumerate(keys):
        if any(o.startswith(k + "/") for o in keys):
            return []
    base = runner.make_scratch("c22-replay")
    shm = make_shm()
    try:
        case_dir = base / "c0"
        case_dir.mkdir()
        model = case_dir / "meta_model.py"
        model.write_text(text, encoding="utf-8")
        stale = stale_output(target, base)
        ja = prepare("a", case["a"], case_dir, model, target, snippets, stale, shm)
        jb = prepare("b", case["b"], case_dir, model, target, snippets, stale, shm)
        ra, rb = run_cfg(ja, base), run_cfg(jb, base)
        _, fails = compare(target, ra, rb)
        return [(b, f"dimensions differing: {dims_differing(case['a'], case['b'])}\n{m}") for b, m in fails]
    except OSError:
        return []
    finally:
        shutil.rmtree(base, ignore_errors=True)
        if shm is not None:
            shutil.rmtree(shm, ignore_errors=True)


# ---------------------------------------------------------------------------
# shard
# ---------------------------------------------------------------------------


def shard(ctx: runner.Ctx) -> None:
    n_gen = ctx.n(192, 2_400)
    n_single = ctx.n(48, 800)  # cases that are also run as real single-invocation processes
    fsaudit.install()
    base = ctx.scratch
    shm = make_shm()
    drawn = []  # type: List[Dict[str, Any]]
    # neighbouring Hypothesis examples resemble one another and the first ones are minimal: draw 4x, keep every 4th
    runner.hyp_run(cases(), drawn.append, 4 * n_gen, ctx.seed)
    drawn = drawn[3::4][:n_gen]

    # schema-form models for the two schema targets only (cheap: batch children, no single-invocation runs)
    schema_drawn = []  # type: List[Dict[str, Any]]
    n_schema = ctx.n(192, 2_400)
    runner.hyp_run(cases(schema_only=True), schema_drawn.append, 2 * n_schema, ctx.seed + 5)
    schema_drawn = schema_drawn[1::2][:n_schema]

    # (case, target) units
    units = []  # type: List[Dict[str, Any]]
    for i, c in enumerate(schema_drawn):
        units.append({"case": c, "target": ("jsonschema", "xsd")[(i + ctx.shard) % 2], "fixture": None, "no_single": True})
    for i, c in enumerate(drawn):
        k = (i + ctx.shard) * (2 if ctx.quick else 8)
        targets = [sut.TARGETS[(k + d) % 8] for d in range(2 if ctx.quick else 8)]
        if ctx.quick and c.get("schema_form"):
            # invariants in the forms the schema inference recognises matter to the schema targets: one of the
            # two targets of such a model is a schema target
            targets[0] = ("jsonschema", "xsd")[i % 2]
            if targets[1] == targets[0]:
                targets[1] = sut.TARGETS[(k + 2) % 8]
        for t in targets:
            units.append({"case": c, "target": t, "fixture": None})
    if ctx.shard == 0:
        # fixed corner cases: inputs on which non-determinism was found before (kept as regression cases)
        for k, (text, extra) in enumerate(CORNERS):
            units.append({"case": {"kind": "corner", "text": text, "extra": extra, "orders": [11, 22, 33, 44, 55, 66],
                                   "muts": [], "n_entities": [2, 0, 0]},
                          "target": sut.TARGETS[(3 * k) % 8], "fixture": None})
    fx = fixtures(with_big=not ctx.quick)
    rnd = random.Random(ctx.seed)
    mine = [f for j, f in enumerate(fx) if j % ctx.nshards == ctx.shard]
    if ctx.quick:
        mine = mine[:3] if len(mine) <= 3 else rnd.sample(mine, 3)
    for target, name in mine:
        orders = [rnd.randrange(2 ** 16) for _ in range(6)]
        units.append({"case": {"kind": "fixture", "orders": orders, "muts": []}, "target": target, "fixture": [target, name]})

    try:
        _explore(ctx, units, n_single, base, shm)
    finally:
        if shm is not None:
            shutil.rmtree(shm, ignore_errors=True)
    ctx.notes["tmpfs_for_creation_order"] = 1 if shm is not None else 0


def _explore(ctx: runner.Ctx, units: List[Dict[str, Any]], n_single: int, base: pathlib.Path,
             shm: Optional[pathlib.Path]) -> None:
    CHUNK = 40
    singles_left = n_single
    for start in range(0, len(units), CHUNK):
        chunk = units[start:start + CHUNK]
        work = base / f"chunk-{start}"
        work.mkdir()
        prepared = []  # type: List[Dict[str, Any]]
        for ui, u in enumerate(chunk):
            c = u["case"]
            target = u["target"]
            if u["fixture"]:
                inp = load_fixture(*u["fixture"])
                if inp is None:
                    ctx.exclude("fixture-unreadable")
                    continue
                text, snippets = inp
            else:
                text, snippets = c["text"], snippets_of(c, target)
            case_dir = work / f"c{ui}"
            case_dir.mkdir()
            model = case_dir / "meta_model.py"
            model.write_text(text, encoding="utf-8")
            stale = stale_output(target, base)
            cfgs = batch_cfgs(c["orders"]) + inproc_cfgs(c["orders"])
            big = u["fixture"] is not None and u["fixture"][1] == "aas_core_meta.v3"
            if big:
                cfgs = batch_cfgs(c["orders"])[:3] + inproc_cfgs(c["orders"])[:3]
            if singles_left > 0 and not big and not u.get("no_single"):
                cfgs += single_cfgs(c["orders"])
                singles_left -= 1
            jobs = [prepare(f"j{k}", cfg, case_dir, model, target, snippets, stale, shm) for k, cfg in enumerate(cfgs)]
            for j in jobs:
                j.id = f"c{ui}-{j.id}"
            prepared.append({"unit": u, "text": text, "snippets": snippets, "jobs": jobs, "results": {}})

        # batch children: one process per hash seed for the whole chunk
        for seed in (0, 1, 2, 3):
            js = [j for p in prepared for j in p["jobs"] if j.cfg["mode"] == "batch" and j.cfg["seed"] == seed]
            res = run_batch(js, seed, work)
            for p in prepared:
                for j in p["jobs"]:
                    if j.id in res:
                        p["results"][j.id] = res[j.id]
        for p in prepared:
            for j in p["jobs"]:
                if j.cfg["mode"] in ("cli", "module"):
                    p["results"][j.id] = run_single(j)
                    ctx.notes["single_process_runs"] = ctx.notes.get("single_process_runs", 0) + 1
                elif j.cfg["mode"] == "inproc":
                    p["results"][j.id] = run_inproc(j)
        for p in prepared:
            _judge(ctx, p)
        shutil.rmtree(work, ignore_errors=True)
        if shm is not None:
            for d in shm.iterdir():
                shutil.rmtree(d, ignore_errors=True)


def _judge(ctx: runner.Ctx, p: Dict[str, Any]) -> None:
    u = p["unit"]
    c = u["case"]
    target = u["target"]
    jobs = p["jobs"]
    base_job = jobs[0]
    ra = p["results"][base_job.id]
    accepted = ra["rc"] == 0
    nerr = n_errors(ra["stderr"]) if not accepted else 0
    if u["fixture"]:
        richness = 2
    else:
        ne = c["n_entities"]
        richness = sum(1 for x in (ne[0] >= 2, ne[1] >= 1, ne[2] >= 1, len(p["snippets"]) >= 2) if x)
    if ra["exc_bucket"]:
        outcome = "crash"
    elif accepted:
        outcome = "generated"
    elif ra["stderr"].startswith("Failed to resolve the implementation-specific snippets"):
        outcome = "snippet-errors"
    elif ra["stderr"].startswith(("Failed to parse", "One or more unexpected imports", "Failed to construct the symbol",
                                  "Failed to translate the parsed")):
        outcome = "front-end-errors"
    else:
        outcome = "generator-errors"
    base_case = {"target": target}  # type: Dict[str, Any]
    if u["fixture"]:
        base_case["fixture"] = u["fixture"]
    else:
        base_case["text"] = c["text"]
        base_case["extra"] = c["extra"]

    for j in jobs[1:]:
        rb = p["results"][j.id]
        status, fails = compare(target, ra, rb)
        dims = dims_differing(base_job.cfg, j.cfg)
        seed_differs = j.cfg["seed"] is not None and j.cfg["seed"] != base_job.cfg["seed"]
        if status == "crash-excluded":
            ctx.exclude(f"{target}:crash-in-both-runs (C01/C02)")
            continue
        nt = seed_differs and ((accepted and richness >= 2) or (not accepted and nerr >= 2))
        classes = [f"kind:{c['kind']}", f"outcome:{outcome}", f"mode:{j.cfg['mode']}", f"target:{target}"]
        classes += [f"dim:{d}" for d in dims if d not in ("mode",)]
        if not accepted:
            classes.append("errors>=2" if nerr >= 2 else "errors<2")
        if j.cfg["glob"] == "disk" and j.cfg["order"] != "sorted":
            classes.append("disk-order:" + ("tmpfs" if "/dev/shm" in str(j.snippets_dir) else "same-fs"))
        key = [p["text"], sorted(p["snippets"].items()), target, j.cfg["seed"], j.cfg["mode"]]
        ctx.case(nt, key=key,
                 sample={"target": target, "kind": c["kind"], "outcome": outcome, "errors": nerr, "cfg": j.cfg,
                         "mutations": c.get("muts"), "fixture": u["fixture"], "stderr_head": ra["stderr"][:200]},
                 classes=classes)
        for b, m in fails:
            case = dict(base_case, a=base_job.cfg, b=j.cfg)
            ctx.fail(b, case, f"dimensions differing: {dims}\n{m}")
        for r, jj in ((rb, j),):
            if r["outside"]:
                ctx.notes["writes_outside_output_and_tmp"] = ctx.notes.get("writes_outside_output_and_tmp", 0) + 1


def health(m: Any, tier: str) -> Any:
    cl = m["classes"]
    ev = m["evaluations"]
    if m["nontrivial_n"] < 0.15 * max(1, ev):
        return f"only {m['nontrivial_n']} non-trivial of {ev}"
    for need in ("outcome:generated", "outcome:front-end-errors", "errors>=2", "dim:seed", "dim:order", "dim:prepop",
                 "dim:tmp", "dim:out", "dim:glob", "mode:batch", "mode:inproc"):
        if cl.get(need, 0) == 0:
            return f"class {need} never generated"
    if m["notes"].get("single_process_runs", 0) == 0:
        return "no single-invocation process was run"
    return None


if __name__ == "__main__":
    runner.main(sys.modules[__name__])
