// Resolve hook for running generated TypeScript directly with node >= 22.15:
// relative imports without an extension get ".ts" appended.
import { registerHooks } from "node:module";

registerHooks({
  resolve(specifier, context, nextResolve) {
    if ((specifier.startsWith("./") || specifier.startsWith("../")) && !/\.(ts|mjs|js|json)$/.test(specifier)) {
      return nextResolve(specifier + ".ts", context);
    }
    return nextResolve(specifier, context);
  },
});
