"""C24 — Model cache survives crashes and concurrent runs."""
from __future__ import annotations

import hashlib
import os
import pathlib
import pickle
import re
import shutil
import signal
import subprocess
import sys
import tempfile
import time
import uuid
from typing import Any, Callable, Dict, List, Optional, Tuple

from hypothesis import strategies as st

from vlib import fssched, mmgen, runner, sut

PID = "C24"
LEVEL = "fault_enumeration"
EXHAUSTIVE = True
RULE = (
    "The harness owns the schedule (vlib/fssched.py): N calls of run.load_model(path, cache_model=True) run in N threads "
    "under a baton; pathlib.Path.exists/open/mkdir/rename/replace/unlink on paths inside the private TMPDIR, write/flush/close "
    "of the file returned by open('wb') (own user-space buffer: half of each of the first two writes reaches the disk at "
    "once, the rest at close) and pickle.load are yield points; a crash at a yield point makes the pending and all later "
    "file-system effects of that thread no-ops (buffered data lost, finally-unlink does not happen). N=2 with at most one "
    "crash is enumerated EXHAUSTIVELY by depth-first re-execution (every interleaving x every crash point) for five "
    "scenarios: cold cache/same text, cold/two texts, warm/same text, warm entry of text A with a run on A and one on B, "
    "and 'late writer' (a third run completes atomically right after thread 0 saw no entry, so that thread 0 replaces an "
    "existing entry while thread 1 may be reading it); "
    "the choice-prefix frontier at depth 6 is striped over the shards. N=2..4 (two texts, up to 2 crashes, cold/warm/stray-"
    "partial-tmp/late-writer start) is sampled with Hypothesis, half with uniform picks, half with priority schedules with "
    "<=4 change points. Thorough adds rounds of 4-8 real aas-core-codegen --cache_model "
    "processes on one TMPDIR with SIGKILL at drawn delays (oracle = state afterwards). The front end is memoised by "
    "model text inside the harness (parse/translate run once per text; pickling, all file operations and unpickling "
    "are the real code). Oracle per history: no run raises except the injected crash; every pickle.load reads exactly "
    "the bytes of a completed dump written for the reader's own text; every completed run returns a symbol table whose "
    "intermediate.dump equals the uncached one; afterwards the cache directory holds only complete model-<sha256>.pickle "
    "files of the right text and *.tmp leftovers (only after a crash); a later run on the directory succeeds with the "
    "same result. Non-trivial = a reader's exists/open falls between a writer's open('wb') and rename, or a crash lands "
    "after a partial write; distinct by (scenario, choice list)."
)
ASSUMPTIONS = [
    "a crash is modelled as SIGKILL: no Python-level cleanup has any file-system effect; bytes handed to write() but not yet flushed are lost",
    "rename within one directory is atomic, a reader that opened a file keeps reading the old inode (POSIX; the histories run on the real file system)",
    "uuid4 collisions are out of scope: the harness substitutes distinct deterministic values for uuid.uuid4",
    "death of a thread is offered only right after its own step (placing the effect-free death elsewhere among the other threads' steps gives an equivalent history); a death before the thread's first operation is the N-1 case",
    "front end memoised per text inside the harness: the property concerns the cache protocol, the result oracle compares against a reference computed by the unpatched code",
]

DEPTH = 6
MAX_EXHAUSTIVE_PER_SHARD = 40_000  # safety cap; the evidence says whether the enumeration completed

MODEL_A = mmgen.HEADER + '''

class Kind(Enum):
    """Represent a kind."""

    Alpha = "ALPHA"
    Beta = "BETA"


@verification
def matches_id(text: str) -> bool:
    """Check the identifier."""
    pattern = "^[a-z][a-z0-9]*$"
    return match(pattern, text) is not None


@invariant(lambda self: matches_id(self), "Must be an identifier")
@invariant(lambda self: len(self) <= 16, "At most 16 characters")
class Id_text(str, DBC):
    """Represent an identifier."""


@abstract
class Referable(DBC):
    id_short: "Id_text"

    def __init__(self, id_short: "Id_text") -> None:
        self.id_short = id_short


@invariant(lambda self: not (self.items is not None) or len(self.items) >= 1, "Items non-empty if set")
class Thing(Referable):
    """Represent a thing."""

    kind: "Kind"
    items: Optional[List["Thing"]]

    def __init__(self, id_short: "Id_text", kind: "Kind", items: Optional[List["Thing"]] = None) -> None:
        Referable.__init__(self, id_short)
        self.kind = kind
        self.items = items


__version__ = "V1.0"

__xml_namespace__ = "https://example.com/ns/1"
'''

MODEL_B = MODEL_A.replace("class Thing(", "class Widget(").replace('"Thing"', '"Widget"').replace(
    "At most 16 characters", "At most sixteen characters")

TEXTS = {"A": MODEL_A, "B": MODEL_B}

SCENARIOS = {
    # name: (texts of the threads, initial state)
    "cold-same": (["A", "A"], "cold"),
    "cold-diff": (["A", "B"], "cold"),
    "warm-same": (["A", "A"], "warm-A"),
    "warm-mixed": (["A", "B"], "warm-A"),
    # a further run X on text A completes (atomically) right after thread 0 found no entry: thread 0 is a late
    # writer that replaces an existing entry while thread 1 may be reading it
    "late-writer": (["A", "A"], "late-A"),
}


class _UuidShim:
    def __init__(self) -> None:
        self.n = 0

    def uuid4(self) -> uuid.UUID:
        self.n += 1
        return uuid.UUID(int=0x1000_0000_0000_4000_8000_0000_0000_0000 + self.n)

    def __getattr__(self, name: str) -> Any:
        return getattr(uuid, name)


class Env:
    """Per-process harness state: patched module attributes, memoised front end, references."""

    def __init__(self, scratch: pathlib.Path) -> None:
        from aas_core_codegen import intermediate, parse, run
        import aas_core_codegen

        self.run = run
        self.intermediate = intermediate
        self.version = aas_core_codegen.__version__
        self.base = scratch / "c24"
        self.base.mkdir(parents=True, exist_ok=True)
        self.paths = {}  # type: Dict[str, pathlib.Path]
        self.hash = {}  # type: Dict[str, str]
        self.ref_dump = {}  # type: Dict[str, str]
        self.entry = {}  # type: Dict[str, bytes]
        self.counter = 0
        # references: the unpatched code, private TMPDIR each
        for k, text in TEXTS.items():
            p = self.base / f"model_{k}.py"
            p.write_text(text, encoding="utf-8")
            self.paths[k] = p
            self.hash[k] = hashlib.sha256(text.encode()).hexdigest()
            res, err = run.load_model(p, cache_model=False)
            if err is not None or res is None:
                raise runner.HarnessError(f"fixed model {k} rejected: {err}")
            self.ref_dump[k] = intermediate.dump(res[0])
            d = self.base / f"ref-{k}"
            d.mkdir()
            tempfile.tempdir = str(d)
            run.load_model(p, cache_model=True)
            entry = d / f"aas-core-codegen-{self.version}" / f"model-{self.hash[k]}.pickle"
            self.entry[k] = entry.read_bytes() if entry.exists() else b""
        self.hash_to_text = {h: k for k, h in self.hash.items()}

        # memoised front end
        memo = {}  # type: Dict[str, Any]
        by_atok = {}  # type: Dict[int, Dict[str, Any]]

        class ParseShim:
            def source_to_atok(self_inner, source: str) -> Any:  # noqa
                if source not in memo:
                    memo[source] = parse.source_to_atok(source=source)
                    if memo[source][0] is not None:
                        by_atok[id(memo[source][0])] = {}
                return memo[source]

            def check_expected_imports(self_inner, atok: Any) -> Any:  # noqa
                m = by_atok.setdefault(id(atok), {"_keep": atok})
                if "imports" not in m:
                    m["imports"] = parse.check_expected_imports(atok=atok)
                return m["imports"]

            def atok_to_symbol_table(self_inner, atok: Any) -> Any:  # noqa
                m = by_atok.setdefault(id(atok), {"_keep": atok})
                if "parsed" not in m:
                    m["parsed"] = parse.atok_to_symbol_table(atok=atok)
                return m["parsed"]

            def __getattr__(self_inner, name: str) -> Any:  # noqa
                return getattr(parse, name)

        class IntermediateShim:
            def translate(self_inner, parsed_symbol_table: Any, atok: Any) -> Any:  # noqa
                m = by_atok.setdefault(id(atok), {"_keep": atok})
                if "ir" not in m:
                    m["ir"] = intermediate.translate(parsed_symbol_table=parsed_symbol_table, atok=atok)
                return m["ir"]

            def __getattr__(self_inner, name: str) -> Any:  # noqa
                return getattr(intermediate, name)

        self.sched = None  # type: Optional[fssched.Scheduler]
        self._loads_memo = {}  # type: Dict[str, Any]
        self._dump_memo = {}  # type: Dict[int, Tuple[Any, str]]
        self.uuid_shim = _UuidShim()
        self._saved = {"pickle": run.pickle, "parse": run.parse, "intermediate": run.intermediate}
        run.pickle = fssched.PickleShim(lambda: self.sched, loads=self.loads)  # type: ignore
        # the temporary name is made deterministic when (and only when) the module draws it from ``uuid``;
        # an implementation that names the temporary file differently is simply run as it is
        if hasattr(run, "uuid"):
            self._saved["uuid"] = run.uuid
            run.uuid = self.uuid_shim  # type: ignore
        run.parse = ParseShim()  # type: ignore
        run.intermediate = IntermediateShim()  # type: ignore
        self.hooks = fssched.Hooks(str(self.base))
        self.hooks.__enter__()

    def close(self) -> None:
        self.hooks.__exit__()
        for k, v in self._saved.items():
            setattr(self.run, k, v)

    def loads(self, data: bytes) -> Any:
        key = hashlib.sha1(data).hexdigest()
        if key not in self._loads_memo:
            self._loads_memo[key] = pickle.loads(data)  # raises on partial data: not memoised
        return self._loads_memo[key]

    def dump_of(self, symbol_table: Any) -> str:
        m = self._dump_memo.get(id(symbol_table))
        if m is None or m[0] is not symbol_table:
            m = (symbol_table, self.intermediate.dump(symbol_table))
            self._dump_memo[id(symbol_table)] = m
        return m[1]


_ENV = None  # type: Optional[Env]


def env_for(scratch: pathlib.Path) -> Env:
    global _ENV
    if _ENV is None:
        _ENV = Env(scratch)
    return _ENV


def _exc_bucket(e: BaseException) -> str:
    return runner.exc_bucket(e)


def run_history(env: Env, texts: List[str], init: str, choices: List[int], max_crashes: int,
                chooser: Optional[Callable[[List[Tuple[str, int]]], int]] = None
                ) -> Tuple[fssched.Scheduler, List[Tuple[str, str]], Dict[str, Any]]:
    """Execute one history; returns (scheduler, failures, info)."""
    env.counter += 1
    hist = env.base / f"h{env.counter}"
    hist.mkdir()
    cache_dir = hist / f"aas-core-codegen-{env.version}"
    initial_payloads = {}  # type: Dict[bytes, str]
    stray = False
    if init in ("warm-A", "warm-B"):
        k = init[-1]
        cache_dir.mkdir()
        (cache_dir / f"model-{env.hash[k]}.pickle").write_bytes(env.entry[k])
        initial_payloads[env.entry[k]] = k
    elif init == "stray-tmp":
        cache_dir.mkdir()
        (cache_dir / f"model-{env.hash['A']}.{uuid.UUID(int=7)}.tmp").write_bytes(env.entry["A"][: len(env.entry["A"]) // 3])
        stray = True
    old_tmp = tempfile.tempdir
    tempfile.tempdir = str(hist)
    env.hooks.set_root(str(hist))
    env.uuid_shim.n = 0
    sched = fssched.Scheduler(chooser or fssched.prefix_chooser(choices), max_crashes=max_crashes)
    if init == "late-A":
        initial_payloads[env.entry["A"]] = "A"

        def on_park(tid: int, steps_done: int, label: str) -> None:
            if tid == 0 and steps_done == 1:
                cache_dir.mkdir(exist_ok=True)
                (cache_dir / f"model-{env.hash['A']}.pickle").write_bytes(env.entry["A"])

        sched.on_park = on_park
    env.sched = sched
    env.hooks.sched = sched
    fails = []  # type: List[Tuple[str, str]]
    info = {}  # type: Dict[str, Any]
    try:
        fns = [(lambda p=env.paths[k]: env.run.load_model(p, cache_model=True)) for k in texts]
        outcomes = sched.run(fns)
    finally:
        env.hooks.sched = None
        env.sched = None
    try:
        trace_s = " ".join(f"{t}{'!' if a == 'crash' else ''}:{lab}" for t, lab, a in sched.trace)
        n_crashed = sum(1 for o in outcomes if o[0] == "crashed")
        # 1. no run raises; completed runs return the uncached result
        for tid, o in enumerate(outcomes):
            if o[0] == "raised":
                fails.append((f"run-raises:{_exc_bucket(o[1])}", f"thread {tid} (text {texts[tid]}) raised {type(o[1]).__name__}: {str(o[1])[:300]}\ntrace: {trace_s}"))
            elif o[0] == "stuck":
                raise runner.HarnessError(f"thread {tid} stuck; trace: {trace_s}")
            elif o[0] == "ok":
                res, err = o[1]
                if err is not None or res is None:
                    fails.append(("run-reports-error", f"thread {tid}: {err}\ntrace: {trace_s}"))
                elif env.dump_of(res[0]) != env.ref_dump[texts[tid]]:
                    fails.append(("result-differs-from-uncached", f"thread {tid} (text {texts[tid]})\ntrace: {trace_s}"))
        # 2. every load reads a complete dump written for the same text
        payloads = dict(initial_payloads)
        for ev in sched.events:
            if ev[1] == "complete-write":
                payloads[ev[3]] = texts[ev[0]]
        for ev in sched.events:
            if ev[1] == "load":
                tid, _, path, data = ev
                owner = payloads.get(data)
                if owner is None:
                    partial = any(p.startswith(data) for p in payloads) or data == b""
                    fails.append(("load-reads-partial-entry" if partial else "load-reads-unknown-bytes",
                                  f"thread {tid} read {len(data)} bytes from {os.path.basename(path)}; complete dumps have "
                                  f"{sorted(len(p) for p in payloads)} bytes\ntrace: {trace_s}"))
                elif owner != texts[tid]:
                    fails.append(("load-reads-foreign-entry", f"thread {tid} (text {texts[tid]}) read a dump of text {owner}\ntrace: {trace_s}"))
        # 3. directory afterwards
        if cache_dir.exists():
            for p in sorted(cache_dir.iterdir()):
                m = re.fullmatch(r"model-([0-9a-f]{64})\.pickle", p.name)
                if m:
                    data = p.read_bytes()
                    owner = payloads.get(data)
                    if owner is None:
                        fails.append(("entry-partial-afterwards", f"{p.name}: {len(data)} bytes\ntrace: {trace_s}"))
                    elif env.hash[owner] != m.group(1):
                        fails.append(("entry-foreign-afterwards", f"{p.name} holds a dump of text {owner}\ntrace: {trace_s}"))
                elif p.name.endswith(".tmp"):
                    if n_crashed == 0 and not stray:
                        fails.append(("tmp-left-without-crash", f"{p.name}\ntrace: {trace_s}"))
                else:
                    fails.append(("unexpected-file-in-cache-dir", f"{p.name}\ntrace: {trace_s}"))
        # 4. a later run on the resulting directory
        for k in sorted(set(texts)):
            try:
                res, err = env.run.load_model(env.paths[k], cache_model=True)
                if err is not None or res is None:
                    fails.append(("later-run-reports-error", f"text {k}: {err}\ntrace: {trace_s}"))
                elif env.dump_of(res[0]) != env.ref_dump[k]:
                    fails.append(("later-run-differs", f"text {k}\ntrace: {trace_s}"))
            except BaseException as e:  # noqa
                if isinstance(e, (KeyboardInterrupt, MemoryError)):
                    raise
                fails.append((f"later-run-raises:{_exc_bucket(e)}", f"text {k}: {type(e).__name__}: {str(e)[:300]}\ntrace: {trace_s}"))
        info = {"trace": trace_s, "crashed": n_crashed, "nontrivial": _nontrivial(sched.trace, texts),
                "classes": _classes(sched.trace, texts, outcomes)}
    finally:
        tempfile.tempdir = old_tmp
        shutil.rmtree(hist, ignore_errors=True)
    return sched, fails, info


def _nontrivial(trace: List[Tuple[int, str, str]], texts: List[str]) -> bool:
    writing = {}  # type: Dict[int, bool]
    wrote = {}  # type: Dict[int, int]
    for tid, lab, action in trace:
        if action == "crash":
            if wrote.get(tid, 0) >= 1 and writing.get(tid):
                return True
            writing[tid] = False
            continue
        if lab.startswith("open-w"):
            writing[tid] = True
            wrote[tid] = 0
        elif lab == "write":
            wrote[tid] = wrote.get(tid, 0) + 1
        elif lab.startswith("rename"):
            writing[tid] = False
        elif lab in ("exists:entry", "open-r:entry"):
            if any(w and o != tid and texts[o] == texts[tid] for o, w in writing.items()):
                return True
    return False


def _classes(trace: List[Tuple[int, str, str]], texts: List[str], outcomes: List[Tuple[Any, ...]]) -> List[str]:
    cl = []
    crash_labels = [lab for _, lab, a in trace if a == "crash"]
    for lab in crash_labels:
        cl.append(f"crash-before:{lab}")
    if not crash_labels:
        cl.append("no-crash")
    loads = sum(1 for _, lab, a in trace if lab == "load" and a == "run")
    cl.append(f"cache-hits:{loads}")
    switches = sum(1 for i in range(1, len(trace)) if trace[i][0] != trace[i - 1][0])
    cl.append("switches:" + ("0-1" if switches <= 1 else "2-4" if switches <= 4 else "5+"))
    return cl


# ---------------------------------------------------------------------------
# real processes (thorough)
# ---------------------------------------------------------------------------

PY = "/venv/bin/python"
SCRIPT = "/venv/bin/aas-core-codegen"


def _tree(d: pathlib.Path) -> Dict[str, str]:
    return {p.relative_to(d).as_posix(): hashlib.sha256(p.read_bytes()).hexdigest() for p in sorted(d.rglob("*")) if p.is_file()}


def real_round(env: Env, base: pathlib.Path, texts: List[str], kills: List[Optional[int]], target: str,
               refs: Dict[Tuple[str, str], Dict[str, str]]) -> Tuple[List[Tuple[str, str]], Dict[str, Any]]:
    """``len(texts)`` concurrent CLI processes on one TMPDIR; ``kills[i]`` = delay in ms or None."""
    env.counter += 1
    rd = base / f"real{env.counter}"
    tmp = rd / "tmp"
    tmp.mkdir(parents=True)
    sd = rd / "snippets"
    sut.write_snippets(sd, sut.BASE_SNIPPETS[target])
    head = [SCRIPT] if os.path.exists(SCRIPT) else [PY, "-m", "aas_core_codegen.main"]
    envv = dict(os.environ, TMPDIR=str(tmp), PYTHONHASHSEED="0")
    procs = []
    for i, k in enumerate(texts):
        argv = head + ["--model_path", str(env.paths[k]), "--snippets_dir", str(sd), "--output_dir", str(rd / f"out{i}"),
                       "--target", target, "--cache_model"]
        procs.append(subprocess.Popen(argv, env=envv, stdout=subprocess.PIPE, stderr=subprocess.PIPE, text=True, cwd=str(rd)))
    t0 = time.monotonic()
    order = sorted((d, i) for i, d in enumerate(kills) if d is not None)
    for d, i in order:
        wait = t0 + d / 1000.0 - time.monotonic()
        if wait > 0:
            time.sleep(wait)
        try:
            procs[i].send_signal(signal.SIGKILL)
        except ProcessLookupError:
            pass
    fails = []  # type: List[Tuple[str, str]]
    n_killed = 0
    for i, p in enumerate(procs):
        try:
            so, se = p.communicate(timeout=600)
        except subprocess.TimeoutExpired:
            p.kill()
            raise runner.HarnessError("real process did not finish in 600 s")
        if p.returncode == -signal.SIGKILL:
            n_killed += 1
            continue
        if p.returncode != 0 or se != "":
            b = "real:run-fails"
            if "Traceback" in se:
                last = se.strip().splitlines()[-1]
                b = "real:run-raises:" + re.split(r"[:\s]", last, 1)[0]
            fails.append((b, f"process {i} (text {texts[i]}) rc={p.returncode} stderr: {se[-1200:]}"))
            continue
        if _tree(rd / f"out{i}") != refs[(texts[i], target)]:
            fails.append(("real:output-differs-from-uncached", f"process {i} (text {texts[i]})"))
    cache_dir = tmp / f"aas-core-codegen-{env.version}"
    n_tmp = 0
    if cache_dir.exists():
        for p in sorted(cache_dir.iterdir()):
            m = re.fullmatch(r"model-([0-9a-f]{64})\.pickle", p.name)
            if m:
                try:
                    cached = pickle.loads(p.read_bytes())
                    k = env.hash_to_text.get(m.group(1))
                    if k is None or env.intermediate.dump(cached.symbol_table) != env.ref_dump[k]:
                        fails.append(("real:entry-foreign-afterwards", p.name))
                except Exception as e:  # noqa
                    fails.append(("real:entry-partial-afterwards", f"{p.name}: {type(e).__name__}: {e}"))
            elif p.name.endswith(".tmp"):
                n_tmp += 1
                if n_killed == 0:
                    fails.append(("real:tmp-left-without-crash", p.name))
            else:
                fails.append(("real:unexpected-file-in-cache-dir", p.name))
    # later run
    for k in sorted(set(texts)):
        p = subprocess.run(head + ["--model_path", str(env.paths[k]), "--snippets_dir", str(sd), "--output_dir",
                                   str(rd / f"later-{k}"), "--target", target, "--cache_model"],
                           env=envv, stdout=subprocess.PIPE, stderr=subprocess.PIPE, text=True, cwd=str(rd))
        if p.returncode != 0 or p.stderr != "":
            fails.append(("real:later-run-fails", f"text {k} rc={p.returncode} stderr: {p.stderr[-1200:]}"))
        elif _tree(rd / f"later-{k}") != refs[(k, target)]:
            fails.append(("real:later-run-differs", f"text {k}"))
    shutil.rmtree(rd, ignore_errors=True)
    return fails, {"killed": n_killed, "tmp_left": n_tmp}


def real_refs(env: Env, base: pathlib.Path, target: str) -> Dict[Tuple[str, str], Dict[str, str]]:
    refs = {}
    for k in TEXTS:
        d = base / f"realref-{k}-{target}"
        d.mkdir()
        sut.write_snippets(d / "snippets", sut.BASE_SNIPPETS[target])
        (d / "tmp").mkdir()
        p = subprocess.run([PY, "-m", "aas_core_codegen.main", "--model_path", str(env.paths[k]), "--snippets_dir", str(d / "snippets"),
                            "--output_dir", str(d / "out"), "--target", target],
                           env=dict(os.environ, TMPDIR=str(d / "tmp")), stdout=subprocess.PIPE, stderr=subprocess.PIPE, text=True)
        if p.returncode != 0:
            raise runner.HarnessError(f"reference run failed: {p.stderr[-500:]}")
        refs[(k, target)] = _tree(d / "out")
    return refs


# ---------------------------------------------------------------------------
# shard / replay
# ---------------------------------------------------------------------------


def pct_chooser(prio: List[int], changes: List[int], crash_steps: List[int]) -> Callable[[List[Tuple[str, int]]], int]:
    """
    Priority schedule with few change points (probabilistic concurrency testing): run the parked thread of
    highest priority; at the drawn steps the running thread drops below all others. Orderings that need d
    specific hand-overs are hit with probability ~1/(n*k^(d-1)) instead of ~n^-k for uniform picks.
    """
    rank = {tid: p for tid, p in enumerate(prio)}
    state = {"step": 0, "low": -1}

    def choose(options: List[Tuple[str, int]]) -> int:
        step = state["step"]
        state["step"] += 1
        if step in crash_steps:
            for i, (action, _) in enumerate(options):
                if action == "crash":
                    return i
        runs = [(rank.get(tid, 0), i, tid) for i, (action, tid) in enumerate(options) if action == "run"]
        best = max(runs)
        if step in changes:
            rank[best[2]] = state["low"]
            state["low"] -= 1
            best = max((rank.get(tid, 0), i, tid) for _, i, tid in runs)
        return best[1]

    return choose


@st.composite
def sampled(draw: Any) -> Dict[str, Any]:
    n = draw(st.sampled_from([3, 3, 3, 2, 4]))
    case = {
        "mode": "sampled",
        "texts": draw(st.lists(st.sampled_from(["A", "A", "B"]), min_size=n, max_size=n)),
        "init": draw(st.sampled_from(["cold", "cold", "warm-A", "warm-B", "stray-tmp", "late-A"])),
        "max_crashes": draw(st.integers(0, 2)),
    }
    if draw(st.booleans()):
        case["choices"] = draw(st.lists(st.integers(0, 4), min_size=0, max_size=45))
    else:
        case["pct"] = {
            "prio": draw(st.permutations(list(range(n)))),
            "changes": draw(st.lists(st.integers(0, 26), max_size=4, unique=True)),
            "crash_steps": draw(st.lists(st.integers(1, 26), max_size=case["max_crashes"], unique=True)),
        }
        case["choices"] = []
    return case


@st.composite
def real_rounds(draw: Any) -> Dict[str, Any]:
    n = draw(st.integers(4, 8))
    return {
        "mode": "real",
        "texts": draw(st.lists(st.sampled_from(["A", "A", "B"]), min_size=n, max_size=n)),
        "kills": draw(st.lists(st.one_of(st.none(), st.integers(200, 2500)), min_size=n, max_size=n)),
        "target": draw(st.sampled_from(["jsonschema", "python", "xsd"])),
    }


def _record(ctx: runner.Ctx, case: Dict[str, Any], sched: fssched.Scheduler, fails: List[Tuple[str, str]],
            info: Dict[str, Any], extra_classes: List[str]) -> None:
    actual = [c for _, c in sched.choices]
    ctx.case(info["nontrivial"], key=[case["texts"], case["init"], case["max_crashes"], actual],
             sample={"texts": case["texts"], "init": case["init"], "trace": info["trace"]},
             classes=info["classes"] + extra_classes)
    for b, m in fails:
        ctx.fail(b, dict(case, choices=actual), m)


def shard(ctx: runner.Ctx) -> None:
    env = env_for(ctx.scratch)
    scale = float(os.environ.get("VERIF_SCALE", "1"))
    try:
        # ---- exhaustive N=2, <=1 crash ----
        complete = True
        total = 0
        for name in sorted(SCENARIOS):
            texts, init = SCENARIOS[name]
            case = {"mode": "exhaustive", "scenario": name, "texts": texts, "init": init, "max_crashes": 1}

            def quiet(pre: List[int]) -> List[Tuple[int, int]]:
                sched, _, _ = run_history(env, texts, init, pre, 1)
                return list(sched.choices)

            front = fssched.frontier(quiet, DEPTH)
            ctx.notes[f"frontier:{name}"] = len(front) if ctx.shard == 0 else 0
            mine = front[ctx.shard::ctx.nshards]

            def loud(pre: List[int]) -> List[Tuple[int, int]]:
                sched, fails, info = run_history(env, texts, init, pre, 1)
                _record(ctx, case, sched, fails, info, [f"scenario:{name}"])
                return list(sched.choices)

            for pre in mine:
                left = int(MAX_EXHAUSTIVE_PER_SHARD * min(1.0, scale)) - total
                n_run, done = fssched.subtree(loud, pre, limit=max(0, left))
                total += n_run
                complete = complete and done
        ctx.notes["exhaustive_histories"] = total
        ctx.notes["exhaustive_slices_done"] = 1 if complete else 0
        if ctx.shard == 0:
            ctx.notes["shards_expected"] = ctx.nshards
        if complete and scale >= 1:
            ctx.notes["exhaustive_complete"] = 1

        # ---- sampled N=3 / double crashes ----
        n = ctx.n(12_000, 400_000)

        def one(case: Dict[str, Any]) -> None:
            pct = case.pop("pct", None)
            chooser = pct_chooser(pct["prio"], pct["changes"], pct["crash_steps"]) if pct else None
            sched, fails, info = run_history(env, case["texts"], case["init"], case["choices"], case["max_crashes"], chooser)
            _record(ctx, case, sched, fails, info, [f"sampled:N={len(case['texts'])}", f"sampled:init={case['init']}",
                                                    f"sampled:crashes={info['crashed']}",
                                                    "sampled:priority-schedule" if pct else "sampled:uniform-picks"])

        runner.hyp_run(sampled(), one, n, ctx.seed)

        # ---- real processes with SIGKILL (thorough) ----
        if not ctx.quick:
            rounds = ctx.n(0, 320)
            refs = {}  # type: Dict[Tuple[str, str], Dict[str, str]]
            for t in ("jsonschema", "python", "xsd"):
                refs.update(real_refs(env, ctx.scratch, t))

            def one_real(case: Dict[str, Any]) -> None:
                fails, info = real_round(env, ctx.scratch, case["texts"], case["kills"], case["target"], refs)
                ctx.case(info["killed"] >= 1, key=case, sample=case,
                         classes=[f"real:killed={min(info['killed'], 3)}", f"real:tmp-left={min(info['tmp_left'], 2)}"])
                for b, m in fails:
                    ctx.fail(b, case, m)

            runner.hyp_run(real_rounds(), one_real, rounds, ctx.seed)
    finally:
        env.close()
        global _ENV
        _ENV = None


def replay(case: Any) -> List[Tuple[str, str]]:
    if not isinstance(case, dict):
        return []
    texts = case.get("texts")
    if not (isinstance(texts, list) and 1 <= len(texts) <= 8 and all(t in TEXTS for t in texts)):
        return []
    base = runner.make_scratch("c24-replay")
    old_tmp = tempfile.tempdir
    global _ENV
    _ENV = None
    env = env_for(base)
    try:
        if case.get("mode") == "real":
            kills = case.get("kills")
            target = case.get("target")
            if not (isinstance(kills, list) and len(kills) == len(texts) and target in sut.TARGETS
                    and all(k is None or (isinstance(k, int) and 0 <= k <= 10_000) for k in kills)):
                return []
            fails, _ = real_round(env, base, texts, kills, target, real_refs(env, base, target))
            return fails
        choices = case.get("choices")
        init = case.get("init")
        mc = case.get("max_crashes")
        if not (isinstance(choices, list) and all(isinstance(c, int) and not isinstance(c, bool) for c in choices)
                and init in ("cold", "warm-A", "warm-B", "stray-tmp", "late-A") and isinstance(mc, int) and 0 <= mc <= 3):
            return []
        _, fails, _ = run_history(env, texts, init, [abs(c) for c in choices][:200], mc)
        return fails
    finally:
        env.close()
        _ENV = None
        tempfile.tempdir = old_tmp
        shutil.rmtree(base, ignore_errors=True)


def health(m: Any, tier: str) -> Any:
    notes = m["notes"]
    scale = float(os.environ.get("VERIF_SCALE", "1"))
    if scale >= 1 and notes.get("exhaustive_slices_done", 0) != notes.get("shards_expected", -1):
        return (f"exhaustive enumeration incomplete: {notes.get('exhaustive_slices_done')} of "
                f"{notes.get('shards_expected')} slices finished (cap {MAX_EXHAUSTIVE_PER_SHARD} histories per shard)")
    cl = m["classes"]
    for need in ("crash-before:write", "crash-before:close", "crash-before:rename:tmp->entry", "crash-before:unlink:tmp",
                 "cache-hits:1", "cache-hits:0", "no-crash", "sampled:N=3", "sampled:crashes=2"):
        if cl.get(need, 0) == 0:
            return f"class {need} never explored"
    if m["nontrivial_n"] < 0.1 * m["evaluations"]:
        return f"only {m['nontrivial_n']} non-trivial histories of {m['evaluations']}"
    return None


if __name__ == "__main__":
    runner.main(sys.modules[__name__])
