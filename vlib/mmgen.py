"""
Meta-model generator: Hypothesis strategies -> ``Spec`` -> meta-model source text.

Everything is drawn *by construction* so that (nearly) every base spec is accepted by the
front end; the acceptance rate is measured by the checks, never assumed.
"""
from __future__ import annotations

import dataclasses
import json
from dataclasses import dataclass, field
from typing import Any, Dict, List, Optional, Sequence, Tuple

from hypothesis import strategies as st

PRIMS = ("bool", "int", "float", "str", "bytearray")

TYPE_WORDS = ["Foo", "Bar", "Baz", "Qux", "Quux", "Corge", "Grault", "Garply", "Waldo",
              "Fred", "Plugh", "Xyzzy", "Thud", "Wibble", "Wobble", "Flob"]
TYPE_SUFFIXES = ["", "_item", "_URL", "_ID_short", "_2", "_kind", "_IEC_61360", "_thing_A",
                 "_with_a_rather_long_descriptive_name_XML_serializable"]
PROP_WORDS = ["foo", "bar", "baz", "qux", "quux", "corge", "grault", "garply", "waldo",
              "fred", "plugh", "xyzzy", "thud", "wibble", "wobble", "flob"]
PROP_SUFFIXES = ["", "_value", "_ID", "_URLs", "_1", "_short_name", "_x", "_of_the_supplemental_semantic_identifiers_list"]


# ---------------------------------------------------------------------------
# Spec data model
# ---------------------------------------------------------------------------


@dataclass
class TRef:
    """Type annotation."""

    kind: str  # prim | cp | enum | class | list | opt
    name: str = ""
    item: Optional["TRef"] = None

    def render(self) -> str:
        if self.kind == "list":
            assert self.item is not None
            return f"List[{self.item.render()}]"
        if self.kind == "opt":
            assert self.item is not None
            return f"Optional[{self.item.render()}]"
        if self.kind in ("cp", "enum", "class"):
            return f'"{self.name}"'
        return self.name

    @property
    def optional(self) -> bool:
        return self.kind == "opt"

    @property
    def core(self) -> "TRef":
        return self.item if self.kind == "opt" else self  # type: ignore


@dataclass
class Inv:
    """Invariant: lambda body (source) + description + tags for the oracles."""

    body: str
    desc: str
    tags: Dict[str, Any] = field(default_factory=dict)


@dataclass
class Prop:
    name: str
    type: TRef
    doc: Optional[str] = None
    default: Optional[str] = None  # constructor default of a NON-optional property (Python literal text)

    @property
    def has_default(self) -> bool:
        return self.type.optional or self.default is not None


@dataclass
class Cls:
    name: str
    bases: List[str]
    abstract: bool
    props: List[Prop]
    invs: List[Inv] = field(default_factory=list)
    with_model_type: bool = False
    doc: Optional[str] = None
    dbc: bool = True
    kw_super: bool = False  # call the super constructors with keyword arguments
    method_blocks: List[List[str]] = field(default_factory=list)  # raw method definitions (already indented)


@dataclass
class CP:
    """Constrained primitive."""

    name: str
    prim: str
    bases: List[str]
    invs: List[Inv] = field(default_factory=list)
    doc: Optional[str] = None


@dataclass
class Enm:
    name: str
    literals: List[Tuple[str, str]]
    doc: Optional[str] = None


@dataclass
class Const:
    name: str
    kind: str  # str|int|float|bool|bytearray | set_str|set_int|set_enum
    value: Any = None
    enum: Optional[str] = None  # for set_enum
    superset_of: List[str] = field(default_factory=list)
    doc: Optional[str] = None
    positional: bool = False


@dataclass
class Fn:
    """Verification function."""

    name: str
    kind: str  # pattern | transpilable | impl
    args: List[Tuple[str, TRef]]
    pattern: Optional[str] = None  # for kind == pattern: the full regex
    pattern_lines: Optional[List[str]] = None  # source lines computing ``pattern``
    body: Optional[str] = None  # for transpilable: expression returned
    doc: Optional[str] = None
    examples: List[str] = field(default_factory=list)  # strings known to match (pattern functions)


@dataclass
class Spec:
    enums: List[Enm] = field(default_factory=list)
    cps: List[CP] = field(default_factory=list)
    classes: List[Cls] = field(default_factory=list)
    consts: List[Const] = field(default_factory=list)
    fns: List[Fn] = field(default_factory=list)
    order: List[Tuple[str, str]] = field(default_factory=list)  # (kind, name) of top-level entities
    module_doc: Optional[str] = None
    version: str = "V1.0"
    xml_namespace: str = "https://example.com/ns/1"

    # ---- reference graph helpers (independent of the repository) ----
    def cls(self, name: str) -> Cls:
        for c in self.classes:
            if c.name == name:
                return c
        raise KeyError(name)

    def cp(self, name: str) -> CP:
        for c in self.cps:
            if c.name == name:
                return c
        raise KeyError(name)

    def enum(self, name: str) -> Enm:
        for e in self.enums:
            if e.name == name:
                return e
        raise KeyError(name)

    def ancestors(self, name: str) -> List[str]:
        """Transitive closure of declared bases, ancestors first, de-duplicated."""
        out = []  # type: List[str]

        def visit(n: str) -> None:
            for b in self.cls(n).bases:
                visit(b)
                if b not in out:
                    out.append(b)

        visit(name)
        return out

    def descendants(self, name: str) -> List[str]:
        return [c.name for c in self.classes if name in self.ancestors(c.name)]

    def concrete_descendants(self, name: str) -> List[str]:
        return [n for n in self.descendants(name) if not self.cls(n).abstract]

    def all_props(self, name: str) -> List[Prop]:
        out = []  # type: List[Prop]
        for a in self.ancestors(name):
            out.extend(self.cls(a).props)
        out.extend(self.cls(name).props)
        return out

    def cp_ancestors(self, name: str) -> List[str]:
        out = []  # type: List[str]

        def visit(n: str) -> None:
            for b in self.cp(n).bases:
                visit(b)
                if b not in out:
                    out.append(b)

        visit(name)
        return out

    def cp_prim(self, name: str) -> str:
        return self.cp(name).prim

    def to_json(self) -> Any:
        return dataclasses.asdict(self)

    @staticmethod
    def from_json(d: Any) -> "Spec":
        def tref(x: Any) -> Optional[TRef]:
            if x is None:
                return None
            return TRef(x["kind"], x.get("name", ""), tref(x.get("item")))

        def inv(x: Any) -> Inv:
            return Inv(x["body"], x["desc"], dict(x.get("tags") or {}))

        spec = Spec()
        spec.enums = [Enm(e["name"], [tuple(l) for l in e["literals"]], e.get("doc")) for e in d.get("enums", [])]
        spec.cps = [CP(c["name"], c["prim"], list(c["bases"]), [inv(i) for i in c.get("invs", [])], c.get("doc"))
                    for c in d.get("cps", [])]
        spec.classes = [
            Cls(c["name"], list(c["bases"]), bool(c["abstract"]),
                [Prop(p["name"], tref(p["type"]), p.get("doc"), p.get("default")) for p in c["props"]],  # type: ignore
                [inv(i) for i in c.get("invs", [])], bool(c.get("with_model_type")), c.get("doc"),
                bool(c.get("dbc", True)), bool(c.get("kw_super", False)),
                [list(b) for b in (c.get("method_blocks") or [])])
            for c in d.get("classes", [])
        ]
        spec.consts = [Const(c["name"], c["kind"], c.get("value"), c.get("enum"), list(c.get("superset_of") or []),
                             c.get("doc"), bool(c.get("positional"))) for c in d.get("consts", [])]
        spec.fns = [Fn(f["name"], f["kind"], [(a[0], tref(a[1])) for a in f["args"]], f.get("pattern"),  # type: ignore
                       f.get("pattern_lines"), f.get("body"), f.get("doc"), list(f.get("examples") or []))
                    for f in d.get("fns", [])]
        spec.order = [tuple(o) for o in d.get("order", [])]  # type: ignore
        spec.module_doc = d.get("module_doc")
        spec.version = d.get("version", "V1.0")
        spec.xml_namespace = d.get("xml_namespace", "https://example.com/ns/1")
        return spec


# ---------------------------------------------------------------------------
# Rendering
# ---------------------------------------------------------------------------


def pystr(s: str) -> str:
    """A Python string literal that is robust in any context (ASCII-only, double-quoted)."""
    out = []
    for ch in s:
        o = ord(ch)
        if ch == "\\":
            out.append("\\\\")
        elif ch == '"':
            out.append('\\"')
        elif ch == "\n":
            out.append("\\n")
        elif ch == "\r":
            out.append("\\r")
        elif ch == "\t":
            out.append("\\t")
        elif o < 0x20 or o == 0x7F:
            out.append(f"\\x{o:02x}")
        elif o <= 0x7E:
            out.append(ch)
        elif o <= 0xFFFF:
            out.append(f"\\u{o:04x}")
        else:
            out.append(f"\\U{o:08x}")
    return '"' + "".join(out) + '"'


def _doc(doc: Optional[str], indent: str) -> List[str]:
    if doc is None:
        return []
    lines = doc.split("\n")
    if len(lines) == 1:
        return [f'{indent}"""{lines[0]}"""']
    out = [f'{indent}"""']
    for ln in lines:
        out.append(f"{indent}{ln}" if ln else "")
    out.append(f'{indent}"""')
    return out


def _inv_lines(inv: Inv) -> List[str]:
    return ["@invariant(", f"    lambda self: {inv.body},", f"    {pystr(inv.desc)}", ")"]


def ctor_args(spec: Spec, cls: Cls) -> List[Prop]:
    props = spec.all_props(cls.name)
    return [p for p in props if not p.has_default] + [p for p in props if p.has_default]


def render_class(spec: Spec, cls: Cls) -> List[str]:
    out = []  # type: List[str]
    for inv in reversed(cls.invs):
        # icontract semantics: decorators closest to the class are applied first;
        # we list the invariants so that the first in ``cls.invs`` is the top-most.
        pass
    for inv in cls.invs:
        out.extend(_inv_lines(inv))
    if cls.abstract:
        out.append("@abstract")
    if cls.with_model_type:
        out.append("@serialization(with_model_type=True)")
    bases = list(cls.bases) + (["DBC"] if cls.dbc else [])
    head = f"class {cls.name}({', '.join(bases)}):" if bases else f"class {cls.name}:"
    out.append(head)
    body = []  # type: List[str]
    body.extend(_doc(cls.doc, "    "))
    for p in cls.props:
        body.append(f"    {p.name}: {p.type.render()}")
        body.extend(_doc(p.doc, "    "))
        if p.doc is not None:
            body.append("")
    for blk in cls.method_blocks:
        body.append("")
        body.extend(blk)
    all_props = spec.all_props(cls.name)
    if all_props:
        args = ctor_args(spec, cls)
        sig = ["self"]
        for p in args:
            if p.type.optional:
                sig.append(f"{p.name}: {p.type.render()} = None")
            elif p.default is not None:
                sig.append(f"{p.name}: {p.type.render()} = {p.default}")
            else:
                sig.append(f"{p.name}: {p.type.render()}")
        body.append("")
        if len(sig) > 3:
            body.append("    def __init__(")
            for s in sig:
                body.append(f"        {s},")
            body.append("    ) -> None:")
        else:
            body.append(f"    def __init__({', '.join(sig)}) -> None:")
        stmts = []  # type: List[str]
        for b in cls.bases:
            bprops = spec.all_props(b)
            if not bprops:
                continue
            bargs = ctor_args(spec, spec.cls(b))
            if cls.kw_super:
                call = ", ".join(["self"] + [f"{p.name}={p.name}" for p in bargs])
            else:
                call = ", ".join(
                    ["self"]
                    + [p.name if not p.has_default else f"{p.name}={p.name}" for p in bargs]
                )
            stmts.append(f"        {b}.__init__({call})")
        for p in cls.props:
            stmts.append(f"        self.{p.name} = {p.name}")
        if not stmts:
            stmts.append("        pass")
        body.extend(stmts)
    if not body:
        body.append("    pass")
    out.extend(body)
    return out


def render_cp(cp: CP) -> List[str]:
    out = []  # type: List[str]
    for inv in cp.invs:
        out.extend(_inv_lines(inv))
    bases = list(cp.bases) if cp.bases else [cp.prim]
    out.append(f"class {cp.name}({', '.join(bases + ['DBC'])}):")
    if cp.doc is not None:
        out.extend(_doc(cp.doc, "    "))
    else:
        out.append("    pass")
    return out


def render_enum(e: Enm) -> List[str]:
    out = [f"class {e.name}(Enum):"]
    out.extend(_doc(e.doc, "    "))
    for n, v in e.literals:
        out.append(f"    {n} = {pystr(v)}")
    if not e.literals and e.doc is None:
        out.append("    pass")
    return out


def pyvalue(kind: str, v: Any) -> str:
    if kind == "str":
        return pystr(v)
    if kind == "bytearray":
        return "b" + pystr(bytes(v).decode("latin-1")).replace("\\u00", "\\x")
    if kind == "float":
        if v == float("inf"):
            return "1e999"
        return repr(float(v))
    return repr(v)


def render_const(c: Const) -> List[str]:
    if c.kind.startswith("set_"):
        if c.kind == "set_enum":
            elem = c.enum
            vals = ", ".join(f"{c.enum}.{v}" for v in c.value)
        else:
            elem = c.kind[4:]
            vals = ", ".join(pyvalue(elem, v) for v in c.value)
        args = [f"values=[{vals}]"]
        if c.doc is not None:
            args.append(f"description={pystr(c.doc)}")
        if c.superset_of:
            args.append(f"superset_of=[{', '.join(c.superset_of)}]")
        return [f"{c.name}: Set[{elem}] = constant_set(", *[f"    {a}," for a in args], ")"]
    fn = {"str": "constant_str", "int": "constant_int", "float": "constant_float",
          "bool": "constant_bool", "bytearray": "constant_bytearray"}[c.kind]
    if c.positional and c.doc is None:
        args = [pyvalue(c.kind, c.value)]
    else:
        args = [f"value={pyvalue(c.kind, c.value)}"]
        if c.doc is not None:
            args.append(f"description={pystr(c.doc)}")
    return [f"{c.name}: {c.kind} = {fn}(", *[f"    {a}," for a in args], ")"]


def render_fn(f: Fn) -> List[str]:
    out = ["@verification"]
    if f.kind == "impl":
        out.append("@implementation_specific")
    sig = ", ".join(f"{n}: {t.render()}" for n, t in f.args)
    out.append(f"def {f.name}({sig}) -> bool:")
    out.extend(_doc(f.doc, "    "))
    if f.kind == "impl":
        if f.doc is None:
            out.append("    pass")
    elif f.kind == "pattern":
        assert f.pattern_lines is not None
        for ln in f.pattern_lines:
            out.append(f"    {ln}")
        out.append(f"    return match(pattern, {f.args[0][0]}) is not None")
    else:
        out.append(f"    return {f.body}")
    return out


HEADER = """\
from enum import Enum
from re import match
from typing import List, Optional, Set

from icontract import invariant, DBC

from aas_core_meta.marker import (
    abstract,
    serialization,
    implementation_specific,
    verification,
    constant_set,
    non_mutating,
)
"""


def canonical_order(spec: Spec) -> List[Tuple[str, str]]:
    """Definition order in which every base precedes its descendants (executable as Python)."""
    items = []  # type: List[Tuple[str, str]]
    items += [("enum", e.name) for e in spec.enums]
    items += [("fn", f.name) for f in spec.fns]
    items += [("cp", c.name) for c in spec.cps]
    items += [("const", c.name) for c in spec.consts]
    items += [("class", c.name) for c in spec.classes]
    return items


def render(spec: Spec, canonical: bool = False) -> str:
    """``canonical``: bases first (for executing the text); otherwise in ``spec.order``, which may define a
    class or constrained primitive before its bases (the front end reads the file with ``ast``, it does not run it)."""
    lines = []  # type: List[str]
    if spec.module_doc is not None:
        lines.extend(_doc(spec.module_doc, ""))
        lines.append("")
    lines.append(HEADER)
    order = spec.order
    if canonical and sorted(order) == sorted(canonical_order(spec)):
        order = canonical_order(spec)
    for kind, name in order:
        if kind == "enum":
            lines.extend(render_enum(spec.enum(name)))
        elif kind == "cp":
            lines.extend(render_cp(spec.cp(name)))
        elif kind == "class":
            lines.extend(render_class(spec, spec.cls(name)))
        elif kind == "const":
            lines.extend(render_const(next(c for c in spec.consts if c.name == name)))
        elif kind == "fn":
            lines.extend(render_fn(next(f for f in spec.fns if f.name == name)))
        lines.append("")
        lines.append("")
    lines.append(f"__version__ = {pystr(spec.version)}")
    lines.append("")
    lines.append(f"__xml_namespace__ = {pystr(spec.xml_namespace)}")
    return "\n".join(lines) + "\n"


# ---------------------------------------------------------------------------
# Strategies
# ---------------------------------------------------------------------------


@dataclass
class Opts:
    """Knobs of the generator; the defaults give 'an ordinary accepted model'."""

    max_enums: int = 2
    max_cps: int = 3
    max_classes: int = 6
    max_props: int = 4
    max_invs: int = 2
    consts: bool = True
    fns: bool = True
    impl_fns: bool = False  # implementation-specific verification functions need snippets
    invariants: str = "general"  # none | general | schema
    unsafe_optional: float = 0.0  # probability that an Optional is used without a guard
    docs: str = "plain"  # none | plain | adversarial
    adversarial_text: bool = False  # enumeration values / descriptions with quotes etc.
    p_diamond: float = 0.3
    nested_lists: bool = False
    float_props: bool = True
    bytes_props: bool = True
    weird_values: bool = False  # nan/inf/huge ints in constants
    forward_bases: float = 0.0  # probability that constrained primitives are defined without regard to their bases
    patterns: Optional[Any] = None  # strategy for anchored patterns (else a small built-in pool)
    class_weight: int = 1  # relative weight of class-typed properties / list items
    cp_chain: float = 0.0  # probability that a constrained primitive derives from the previous one (long chains)
    cp_weight: int = 2  # relative weight of properties / list items typed by a constrained primitive
    max_consts: int = 3
    max_literals: int = 4
    defaults: bool = False  # non-optional primitive/enum properties may get a constructor default
    compatible_patterns: float = 0.0  # probability that all patterns come from a jointly satisfiable family
    guard_other: float = 0.0  # schema invariants: probability of a None-guard on a *different* property (near-miss)


WEIRD_CHARS = "ab \"'\\\n\t\r\x00\x01\x1f\x7f\u0085\u00a0\u00e9\u00ff\u0100\u2028\u2029\ufeff\ufffd\U0001F600{}$`%"

# characters after which a following digit / hex digit / letter changes the meaning of a carelessly written
# escape (octal \\0, \\x.., \\u.... written with too few digits), and characters no escape table lists
_ESCAPE_SENSITIVE = ["\x00", "\x01", "\x07", "\x1b", "\x7f", "\x80", "\xff", "\u0100", "\u2028", "\ufeff", "\U0001F600",
                     "\U000E0001", "\U000F0000", "\U0010FFFF", "\U0001FFFE", "\\"]
_FOLLOWERS = list("0127890aAfFgxuUN{\"'")


def _weird_str(draw: Any) -> str:
    n = draw(st.integers(0, 6))
    out = []  # type: List[str]
    for _ in range(n):
        if draw(st.integers(0, 3)) == 0:
            # an escape-sensitive character immediately followed by a character that could be absorbed
            out.append(draw(st.sampled_from(_ESCAPE_SENSITIVE)) + draw(st.sampled_from(_FOLLOWERS)))
        else:
            out.append(draw(st.sampled_from(list(WEIRD_CHARS))))
    return "".join(out)


_DEFAULTS = {"bool": ["True", "False"], "int": ["0", "3"], "str": ['"x"', '""'], "float": ["1.5", "0.0"]}

PATTERN_EXAMPLES = {
    "^[a-z]+$": ["a", "ab", "abc", "zzzz", "abcdef"],
    "^[A-Z][a-z0-9_]*$": ["A", "Ab", "Z9_", "Abcde", "Foo"],
    "^(0|[1-9][0-9]*)$": ["0", "1", "10", "999", "12345"],
    "^[0-9]{2,4}$": ["00", "123", "9999"],
    "^a?b*c+$": ["c", "ac", "abc", "bbcc", "abbbccc"],
    "^(ab|cd)*$": ["", "ab", "cd", "abcd", "cdabab"],
    "^[^x]{1,3}$": ["a", "ab", "abc", "   ", "\u00e9"],
    "^x.y$": ["xay", "x-y", "x y"],
    "^[a-f0-9]{2}(-[a-f0-9]{2})*$": ["00", "af-09", "aa-bb-cc"],
    "^\\.[a-z]{1,3}$": [".a", ".ab", ".abc"],
    "^[\\x20-\\x7e]*$": ["", " ", "a~", "Foo bar", "x-1"],
    "^(\\+|-)?[0-9]+$": ["0", "+1", "-12", "123"],
    "^[a-zA-Z_][a-zA-Z0-9_]{0,5}$": ["a", "_", "ab_1", "Foo", "abcdef"],
    "^[\\U00010000-\\U0010FFFF]?[a-c]$": ["a", "\U0001F600b", "c"],
    # non-ASCII characters written directly in the pattern
    "^[a-z\u00e4\u00f6\u00fc\u00df]+$": ["c", "ac", "abc", "gr\u00fcn", "\u00e4", "stra\u00dfe"],
    # astral ranges of different widths (same / adjacent / three / many high surrogates)
    "^[\\U0001F000-\\U0001FAFF]+$": ["\U0001F600", "\U0001F300\U0001F914", "\U0001F000", "\U0001FAFF", "\U0001F400\U0001F7FF"],
    "^[a-z\\U0001F600-\\U0001F64F]{1,3}$": ["a", "\U0001F600", "z\U0001F64F", "\U0001F610b"],
    "^[\\U00020000-\\U0002A6DF\\u4E00-\\u9FFF]*$": ["", "\u4e00", "\U00020000", "\U00025000\u9fff", "\U0002A6DF"],
}
PATTERN_POOL = list(PATTERN_EXAMPLES)
# a second jointly satisfiable family: all of these accept "\u00e4", "\u00f6\u00fc" and "\u00e4\u00f6\u00fc"
# (values that NEED a non-ASCII character to be in the intersection)
NON_ASCII_FAMILY = ["^[a-z\u00e4\u00f6\u00fc\u00df]+$", "^[^x]{1,3}$", "^.{1,8}$", "^[\\u00e0-\\u00ff]+$", "^(\u00e4|\u00f6|\u00fc)+$"]
for _p in NON_ASCII_FAMILY:
    PATTERN_EXAMPLES.setdefault(_p, ["a", "abc"] if _p == "^.{1,8}$" else [])
    for _e in ["\u00e4", "\u00f6\u00fc", "\u00e4\u00f6\u00fc"]:
        if _e not in PATTERN_EXAMPLES[_p]:
            PATTERN_EXAMPLES[_p].append(_e)
# all of these accept "c", "ac" and "abc"
COMPATIBLE_PATTERNS = ["^[a-z\u00e4\u00f6\u00fc\u00df]+$", "^[a-z]+$", "^[a-zA-Z_][a-zA-Z0-9_]{0,5}$", "^[\\x20-\\x7e]*$", "^a?b*c+$", "^[^x]{1,3}$"]

DESC_WORDS = ["value", "must", "be", "the", "a", "an", "shall", "not", "empty", "item",
              "of", "list", "with", "at", "least", "one", "element", "Constraint", "AASd-1:",
              "identifier", "is", "larger", "than", "zero", "pattern", "matches", "when",
              "given"]


def _names(draw: Any, words: Sequence[str], suffixes: Sequence[str], n: int, taken: set) -> List[str]:
    out = []  # type: List[str]
    pool = [w + s for w in words for s in suffixes]
    idxs = draw(st.lists(st.integers(0, len(pool) - 1), min_size=n, max_size=n, unique=True))
    for i in idxs:
        nm = pool[i]
        k = 0
        while nm.lower() in taken:
            k += 1
            nm = pool[i] + f"_v{k}"
        taken.add(nm.lower())
        out.append(nm)
    return out


def _desc(draw: Any, used: set, adversarial: bool = False) -> str:
    """A unique invariant description."""
    n = draw(st.integers(2, 14))
    words = [draw(st.sampled_from(DESC_WORDS)) for _ in range(n)]
    if adversarial and draw(st.booleans()):
        words.insert(draw(st.integers(0, len(words))), draw(st.sampled_from(ADVERSARIAL_BITS)))
    text = " ".join(words)
    text = text[0].upper() + text[1:]
    base = text
    k = 0
    while text in used:
        k += 1
        text = f"{base} ({k})"
    used.add(text)
    return text


ADVERSARIAL_BITS = ['"', "'", "\\", '"""', "'''", "*/", "/*", "//", "<", ">", "&", "-->", "]]>",
                    "{@link x}", "${x}", "`", "{", "}", "%s", "{0}", "\\n", "\\u0041", "#", "@", "</summary>",
                    "\u00e9", "\u2028", "\U0001F600", "a" * 70, '\\"', "$"]

DOC_SAFE_WORDS = ["Represent", "some", "thing", "of", "the", "model", "value", "with", "items",
                  "and", "a", "reference", "for", "testing", "purposes", "only"]


def _plain_doc(draw: Any, opts: Opts) -> Optional[str]:
    if opts.docs == "none":
        return None
    if not draw(st.booleans()):
        return None
    n = draw(st.integers(1, 8))
    words = ["Represent"] + [draw(st.sampled_from(DOC_SAFE_WORDS)) for _ in range(n)]
    text = " ".join(words) + "."
    if opts.docs == "adversarial":
        bits = draw(st.lists(st.sampled_from(DOC_ADVERSARIAL_BITS), min_size=1, max_size=3))
        text = text + " " + " ".join(bits) + " end."
    return text


# characters/fragments that are legal in RST text (no markup errors) but matter to targets
DOC_ADVERSARIAL_BITS = ['"', "'", '"x"', "*/", "/*", "//", "<", ">", "&", "&amp;", "-->", "]]>",
                        "{@link x}", "{@code x}", "${x}", "{", "}", "%s", "#", "@param", "</summary>",
                        "<summary>", "<b>", "\u00e9", "\U0001F600", "``a*/b``", "``<x>``", '``"""``',
                        "``'''``", "x" * 90, "$", "~", "^", "[", "]", "(", ")", "=", "+", "\\\\",
                        "@", "*emphasis*", "<!--", "?>", "<?", "&#x0;", "%", "'''"]


@st.composite
def specs(draw: Any, opts: Opts = Opts()) -> Spec:
    taken = set()  # type: set
    spec = Spec()
    used_descs = set()  # type: set

    # ---- enumerations ----
    n_enums = draw(st.integers(0, opts.max_enums))
    for nm in _names(draw, TYPE_WORDS, ["_kind", "_type", "_mode"], n_enums, taken):
        n_lit = draw(st.integers(1, opts.max_literals))
        lit_names = _names(draw, TYPE_WORDS, ["", "_x", "_2"], n_lit, set())
        vals = []  # type: List[str]
        for ln in lit_names:
            if opts.adversarial_text and opts.weird_values and draw(st.integers(0, 3)) == 0:
                v = _weird_str(draw) or "x"
            elif opts.adversarial_text and draw(st.booleans()):
                v = draw(st.text(alphabet=st.sampled_from(list("ab \"'\\<>&{}$`/*\u00e9\U0001F600-_.%")), min_size=1, max_size=6))
            else:
                v = draw(st.sampled_from([ln, ln.upper().replace("_", "-"), ln.lower(), f"x:{ln}"]))
            k = 0
            base = v
            while v in vals:
                k += 1
                v = f"{base}{k}"
            vals.append(v)
        spec.enums.append(Enm(nm, list(zip(lit_names, vals)), _plain_doc(draw, opts)))

    # ---- pattern verification functions ----
    if opts.fns:
        family = opts.compatible_patterns > 0 and draw(st.floats(0, 1)) < opts.compatible_patterns
        n_fns = draw(st.integers(2, 4)) if family else draw(st.integers(0, 3))
        fam_pats = []  # type: List[str]
        if family:
            fam_pats = list(draw(st.permutations(NON_ASCII_FAMILY if draw(st.integers(0, 2)) == 0 else COMPATIBLE_PATTERNS)))
        for i, nm in enumerate(_names(draw, ["matches_" + w for w in PROP_WORDS], ["", "_x"], n_fns, taken)):
            if family:
                pat = fam_pats[i % len(fam_pats)]
            else:
                pat = draw(opts.patterns if opts.patterns is not None else st.sampled_from(PATTERN_POOL))
            style = draw(st.integers(0, 2))
            if style == 0:
                plines = [f"pattern = {pystr_regex(pat)}"]
            elif style == 1:
                plines = [f"pattern = f{pystr_regex(pat, fstring=True)}"]
            else:
                inner = pat[1:-1]
                plines = [f"inner = {pystr_regex(inner)}", 'pattern = f"^{inner}$"']
            spec.fns.append(Fn(nm, "pattern", [("text", TRef("prim", "str"))], pattern=pat,
                               pattern_lines=plines, doc=_plain_doc(draw, opts),
                               examples=list(PATTERN_EXAMPLES.get(pat, []))))

    # ---- constrained primitives (DAG per primitive) ----
    n_cps = draw(st.integers(min(2, opts.max_cps) if opts.cp_chain > 0 else 0, opts.max_cps))
    prims_for_cp = [p for p in PRIMS if (p != "float" or opts.float_props) and (p != "bytearray" or opts.bytes_props)]
    for nm in _names(draw, TYPE_WORDS, ["_str", "_code", "_text", "_num", "_non_empty_XML_serializable_text_value"], n_cps, taken):
        prim = draw(st.sampled_from(prims_for_cp + ["str", "str"]))
        chain = opts.cp_chain > 0 and bool(spec.cps) and draw(st.floats(0, 1)) < opts.cp_chain
        if chain:
            prim = spec.cps[-1].prim
        same = [c for c in spec.cps if c.prim == prim]
        bases = []  # type: List[str]
        if chain:
            bases = [spec.cps[-1].name]
            # ... and sometimes a second parent next to it (either order), so that what EACH parent contributes counts
            others = [c.name for c in same if c.name != bases[0] and c.name not in spec.cp_ancestors(bases[0])
                      and bases[0] not in spec.cp_ancestors(c.name)]
            if others and draw(st.booleans()):
                o2 = draw(st.sampled_from(others))
                bases = [o2, bases[0]] if draw(st.booleans()) else [bases[0], o2]
        elif same and draw(st.booleans()):
            k = draw(st.integers(1, min(2, len(same))))
            idx = draw(st.lists(st.integers(0, len(same) - 1), min_size=k, max_size=k, unique=True))
            bases = [same[i].name for i in sorted(idx)]
            # avoid listing a base together with its own ancestor (illegal MRO in Python)
            bases = [b for b in bases if not any(b in spec.cp_ancestors(o) for o in bases if o != b)]
        spec.cps.append(CP(nm, prim, bases, [], _plain_doc(draw, opts)))

    # ---- constants ----
    if opts.consts:
        n_consts = draw(st.integers(0, opts.max_consts))
        str_sets = []  # type: List[Const]
        enum_sets = []  # type: List[Const]
        for nm in _names(draw, TYPE_WORDS, ["_set", "_constants", "_limit"], n_consts, taken):
            kind = draw(st.sampled_from(["set_str", "set_str", "set_enum", "str", "int", "float", "bool", "set_int"]))
            if kind == "set_enum" and not spec.enums:
                kind = "set_str"
            if kind == "set_str":
                pool = ["a", "b", "ab", "x-1", "Foo", "foo", "", " "]
                if opts.weird_values:
                    pool += ["'", '"', "\\", "\n", "\t", "\u00e9", "\U0001F600", "{", "${x}", "a'b\"c", "\x00", "\x7f", "\u2028"]
                vals = draw(st.lists(st.sampled_from(pool), min_size=1, max_size=4, unique=True))
                if opts.weird_values and draw(st.booleans()):
                    vals = list(dict.fromkeys(vals + [_weird_str(draw)]))
                sup = []  # type: List[str]
                if str_sets and draw(st.booleans()):
                    sub = draw(st.sampled_from(str_sets))
                    sup = [sub.name]
                    vals = list(dict.fromkeys(list(sub.value) + vals))
                c = Const(nm, kind, vals, superset_of=sup, doc=_plain_doc(draw, opts))
                str_sets.append(c)
            elif kind == "set_int":
                vals = draw(st.lists(st.integers(0, 9), min_size=1, max_size=4, unique=True))
                c = Const(nm, kind, vals, doc=_plain_doc(draw, opts))
            elif kind == "set_enum":
                e = draw(st.sampled_from(spec.enums))
                lits = [n for n, _ in e.literals]
                vals = draw(st.lists(st.sampled_from(lits), min_size=1, max_size=len(lits), unique=True))
                sup = []
                cands = [s for s in enum_sets if s.enum == e.name]
                if cands and draw(st.booleans()):
                    sub = draw(st.sampled_from(cands))
                    sup = [sub.name]
                    vals = list(dict.fromkeys(list(sub.value) + vals))
                c = Const(nm, kind, vals, enum=e.name, superset_of=sup, doc=_plain_doc(draw, opts))
                enum_sets.append(c)
            elif kind == "str":
                if opts.weird_values and draw(st.booleans()):
                    v = _weird_str(draw)
                else:
                    v = draw(st.sampled_from(["", "abc", "x y", "A-1", "\u00e9"]))
                c = Const(nm, kind, v, doc=_plain_doc(draw, opts), positional=draw(st.booleans()))
            elif kind == "int":
                if opts.weird_values and draw(st.booleans()):
                    v = draw(st.sampled_from([2**31, 2**53 + 1, 2**63, 2**64, 10**30, 255, 65536]))
                else:
                    v = draw(st.integers(0, 2000))
                c = Const(nm, kind, v, doc=_plain_doc(draw, opts), positional=draw(st.booleans()))
            elif kind == "float":
                pool = [0.0, 1.5, 2.25, 1e10, 0.1]
                if opts.weird_values:
                    pool += [float("inf"), 5e-324, 1.7976931348623157e308, 0.1 + 0.2, 1e-7, 123456789.12345678, 1e22, 1e16]
                c = Const(nm, kind, draw(st.sampled_from(pool)), doc=_plain_doc(draw, opts))
            elif kind == "bool":
                c = Const(nm, kind, draw(st.booleans()), doc=_plain_doc(draw, opts))
            else:
                c = Const(nm, kind, list(draw(st.binary(max_size=6))), doc=_plain_doc(draw, opts))
            spec.consts.append(c)

    # ---- classes: DAG ----
    n_classes = draw(st.integers(1, opts.max_classes))
    cls_names = _names(draw, TYPE_WORDS, TYPE_SUFFIXES, n_classes, taken)
    prop_taken = set()  # type: set
    for ci, nm in enumerate(cls_names):
        bases = []  # type: List[str]
        if ci > 0:
            r = draw(st.floats(0, 1))
            if r < 0.65:
                k = 1 if (ci < 2 or draw(st.floats(0, 1)) > opts.p_diamond) else 2
                # a true diamond (two bases with a common ancestor, in either order) where one can be built
                pairs = []  # type: List[Tuple[str, str]]
                if k == 2:
                    for i in range(ci):
                        for j in range(i + 1, ci):
                            a, b = cls_names[i], cls_names[j]
                            if a in spec.ancestors(b) or b in spec.ancestors(a):
                                continue
                            if set(spec.ancestors(a)) & set(spec.ancestors(b)):
                                pairs.append((a, b))
                if pairs and draw(st.integers(0, 2)) > 0:
                    a, b = draw(st.sampled_from(pairs))
                    bases = [a, b] if draw(st.booleans()) else [b, a]
                else:
                    idx = draw(st.lists(st.integers(0, ci - 1), min_size=k, max_size=k, unique=True))
                    bases = [cls_names[i] for i in sorted(idx)]
                    bases = [b for b in bases if not any(b in spec.ancestors(o) for o in bases if o != b)]
        abstract = draw(st.floats(0, 1)) < 0.3
        spec.classes.append(Cls(nm, bases, abstract, [], [], False, _plain_doc(draw, opts),
                                dbc=draw(st.booleans()), kw_super=draw(st.booleans())))

    # last class in a chain must be concrete to make abstract classes usable
    for c in spec.classes:
        if c.abstract and not spec.concrete_descendants(c.name):
            c.abstract = False

    # ---- properties (names unique over the whole hierarchy to rule out re-declaration) ----
    def usable_classes(before: Optional[int] = None) -> List[str]:
        out = []
        for c in spec.classes:
            if c.abstract and not spec.concrete_descendants(c.name):
                continue
            out.append(c.name)
        return out

    def draw_type(depth: int = 0) -> TRef:
        kinds = ["prim", "prim", "prim"]
        if spec.cps:
            kinds += ["cp"] * opts.cp_weight
        if spec.enums:
            kinds.append("enum")
        kinds += ["class"] * opts.class_weight
        if depth == 0:
            kinds += ["list", "list"]
        elif opts.nested_lists and depth == 1:
            kinds += ["list"]
        k = draw(st.sampled_from(kinds))
        if k == "prim":
            prims = [p for p in PRIMS if (p != "float" or opts.float_props) and (p != "bytearray" or opts.bytes_props)]
            return TRef("prim", draw(st.sampled_from(prims + ["str", "int"])))
        if k == "cp":
            return TRef("cp", draw(st.sampled_from(spec.cps)).name)
        if k == "enum":
            return TRef("enum", draw(st.sampled_from(spec.enums)).name)
        if k == "class":
            return TRef("class", draw(st.sampled_from(usable_classes())))
        return TRef("list", item=draw_type(depth + 1))

    for c in spec.classes:
        n_props = draw(st.integers(0, opts.max_props))
        for pn in _names(draw, PROP_WORDS, PROP_SUFFIXES, n_props, prop_taken):
            t = draw_type()
            default = None
            if draw(st.floats(0, 1)) < 0.4:
                t = TRef("opt", item=t)
            elif opts.defaults and t.kind == "prim" and t.name in _DEFAULTS and draw(st.floats(0, 1)) < 0.2:
                default = draw(st.sampled_from(_DEFAULTS[t.name]))
            elif opts.defaults and t.kind == "enum" and spec.enum(t.name).literals and draw(st.floats(0, 1)) < 0.2:
                default = f"{t.name}.{spec.enum(t.name).literals[0][0]}"
            c.props.append(Prop(pn, t, _plain_doc(draw, opts), default))

    _make_instantiable(spec)

    # ---- with_model_type where dispatch is needed ----
    used_as_type = set()  # type: set

    def collect(t: TRef) -> None:
        if t.kind == "class":
            used_as_type.add(t.name)
        elif t.item is not None:
            collect(t.item)

    for c in spec.classes:
        for p in c.props:
            collect(p.type)
    for nm in sorted(used_as_type):
        if spec.concrete_descendants(nm):
            # the class itself or one of its ancestors gets the setting (propagates downwards)
            cands = [nm] + spec.ancestors(nm)
            pick = draw(st.sampled_from(cands))
            spec.cls(pick).with_model_type = True
    # random extra settings
    for c in spec.classes:
        if draw(st.floats(0, 1)) < 0.1:
            c.with_model_type = True

    # ---- invariants ----
    if opts.invariants != "none":
        from vlib import invgen

        invgen.add_invariants(draw, spec, opts, used_descs)

    # ---- declaration order: python requires bases / decorators' names resolved only at
    # exec time for bases (class statement) - types in annotations are string literals, so
    # only bases, enum literals in constant sets, and superset_of need "before" ordering.
    items = []  # type: List[Tuple[str, str]]
    items += [("enum", e.name) for e in spec.enums]
    items += [("fn", f.name) for f in spec.fns]
    items += [("cp", c.name) for c in spec.cps]
    items += [("const", c.name) for c in spec.consts]
    items += [("class", c.name) for c in spec.classes]
    free_bases = opts.forward_bases > 0 and draw(st.floats(0, 1)) < opts.forward_bases
    spec.order = _shuffle_respecting(draw, spec, items, free_bases)
    spec.module_doc = _plain_doc(draw, opts)
    return spec


def instantiable_types(spec: Spec) -> set:
    """Least fixpoint: class names of which a finite instance exists."""
    ok = set()  # type: set
    changed = True
    while changed:
        changed = False
        for c in spec.classes:
            if c.name in ok:
                continue
            if c.abstract:
                good = any(d in ok for d in spec.concrete_descendants(c.name))
            else:
                good = True
                for p in spec.all_props(c.name):
                    t = p.type
                    if t.kind == "class":
                        if t.name not in ok and not any(
                            d in ok for d in spec.concrete_descendants(t.name)
                        ):
                            good = False
            if good:
                ok.add(c.name)
                changed = True
    return ok


def _make_instantiable(spec: Spec) -> None:
    """Break mandatory recursion by making the offending properties optional."""
    for _ in range(len(spec.classes) + 2):
        ok = instantiable_types(spec)
        bad = [c for c in spec.classes if not c.abstract and c.name not in ok]
        if not bad:
            return
        for c in bad:
            for p in spec.all_props(c.name):
                if p.type.kind == "class" and p.type.name not in ok:
                    p.type = TRef("opt", item=p.type)


def _deps(spec: Spec, item: Tuple[str, str]) -> List[Tuple[str, str]]:
    kind, name = item
    if kind == "class":
        return [("class", b) for b in spec.cls(name).bases]
    if kind == "cp":
        return [("cp", b) for b in spec.cp(name).bases]
    if kind == "const":
        c = next(c for c in spec.consts if c.name == name)
        d = [("const", s) for s in c.superset_of]
        if c.enum:
            d.append(("enum", c.enum))
        return d
    return []


def _shuffle_respecting(draw: Any, spec: Spec, items: List[Tuple[str, str]], free_bases: bool = False) -> List[Tuple[str, str]]:
    """Random linear extension of the dependency order (``free_bases``: bases of constrained primitives do not count;
    a class defined before a base with properties is refused by the front end - constructor in-lining goes by
    definition order - so classes always follow their bases)."""
    remaining = list(items)
    placed = []  # type: List[Tuple[str, str]]
    placed_set = set()  # type: set
    keep_groups = (not free_bases) and draw(st.booleans())
    if keep_groups:
        return items
    while remaining:
        ready = [it for it in remaining
                 if all(d in placed_set for d in _deps(spec, it) if not (free_bases and it[0] == "cp"))]
        pick = ready[draw(st.integers(0, len(ready) - 1))]
        remaining.remove(pick)
        placed.append(pick)
        placed_set.add(pick)
    return placed


def pystr_regex(pat: str, fstring: bool = False) -> str:
    """Python source literal denoting ``pat`` (regular string, backslashes doubled)."""
    s = pat.replace("\\", "\\\\").replace('"', '\\"')
    if fstring:
        s = s.replace("{", "{{").replace("}", "}}")
    # keep the literal ASCII-only
    out = []
    for ch in s:
        o = ord(ch)
        if o < 0x20 or o == 0x7F:
            out.append(f"\\x{o:02x}")
        elif o > 0x7E:
            out.append(f"\\U{o:08x}" if o > 0xFFFF else f"\\u{o:04x}")
        else:
            out.append(ch)
    return '"' + "".join(out) + '"'
