import com.sun.source.tree.ClassTree;
import com.sun.source.tree.CompilationUnitTree;
import com.sun.source.tree.MethodTree;
import com.sun.source.tree.Tree;
import com.sun.source.tree.VariableTree;
import com.sun.source.util.JavacTask;

import java.io.BufferedReader;
import java.io.File;
import java.io.InputStreamReader;
import java.io.PrintStream;
import java.nio.charset.StandardCharsets;
import java.util.ArrayList;
import java.util.List;
import java.util.Locale;
import javax.tools.Diagnostic;
import javax.tools.DiagnosticCollector;
import javax.tools.JavaCompiler;
import javax.tools.JavaFileObject;
import javax.tools.StandardJavaFileManager;
import javax.tools.ToolProvider;

/**
 * Parse (no attribution) the Java files whose paths come on stdin, one per line.
 *
 * Output, one record per line, fields separated by TAB:
 *   E  path  line  column  code  message     (a parser/lexer diagnostic of kind ERROR)
 *   T  path  kind  qualified-type-name       (a declared type; nested types use '.')
 *   M  path  qualified-type-name  member-kind  member-name[/arity]
 *   F  path                                   (file done)
 */
public final class ParseOnly {
  private static String clean(String s) {
    return s.replace('\t', ' ').replace('\n', ' ').replace('\r', ' ');
  }

  private static void walk(PrintStream out, String path, String prefix, ClassTree cls) {
    String name = prefix.isEmpty() ? cls.getSimpleName().toString()
        : prefix + "." + cls.getSimpleName().toString();
    out.println("T\t" + path + "\t" + cls.getKind() + "\t" + name);
    for (Tree member : cls.getMembers()) {
      if (member instanceof ClassTree) {
        walk(out, path, name, (ClassTree) member);
      } else if (member instanceof MethodTree) {
        MethodTree m = (MethodTree) member;
        out.println("M\t" + path + "\t" + name + "\tmethod\t" + m.getName() + "/"
            + m.getParameters().size());
      } else if (member instanceof VariableTree) {
        VariableTree v = (VariableTree) member;
        out.println("M\t" + path + "\t" + name + "\tfield\t" + v.getName());
      }
    }
  }

  public static void main(String[] args) throws Exception {
    PrintStream out = new PrintStream(System.out, false, "UTF-8");
    List<File> files = new ArrayList<>();
    BufferedReader reader =
        new BufferedReader(new InputStreamReader(System.in, StandardCharsets.UTF_8));
    String line;
    while ((line = reader.readLine()) != null) {
      if (!line.isEmpty()) {
        files.add(new File(line));
      }
    }
    JavaCompiler compiler = ToolProvider.getSystemJavaCompiler();
    for (File file : files) {
      DiagnosticCollector<JavaFileObject> diagnostics = new DiagnosticCollector<>();
      StandardJavaFileManager fm =
          compiler.getStandardFileManager(diagnostics, Locale.ROOT, StandardCharsets.UTF_8);
      List<String> options = new ArrayList<>();
      options.add("-proc:none");
      options.add("-encoding");
      options.add("UTF-8");
      JavacTask task = (JavacTask) compiler.getTask(
          null, fm, diagnostics, options, null, fm.getJavaFileObjects(file));
      String path = file.getPath();
      try {
        for (CompilationUnitTree unit : task.parse()) {
          String pkg = unit.getPackageName() == null ? "" : unit.getPackageName().toString();
          for (Tree decl : unit.getTypeDecls()) {
            if (decl instanceof ClassTree) {
              walk(out, path, pkg, (ClassTree) decl);
            }
          }
        }
      } catch (Throwable t) {
        out.println("E\t" + path + "\t0\t0\tparser-crash\t" + clean(String.valueOf(t)));
      }
      for (Diagnostic<? extends JavaFileObject> d : diagnostics.getDiagnostics()) {
        if (d.getKind() == Diagnostic.Kind.ERROR) {
          out.println("E\t" + path + "\t" + d.getLineNumber() + "\t" + d.getColumnNumber() + "\t"
              + d.getCode() + "\t" + clean(d.getMessage(Locale.ROOT)));
        }
      }
      out.println("F\t" + path);
      fm.close();
    }
    out.flush();
  }
}
