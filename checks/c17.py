"""C17 — UTF-16 regex rewriting preserves the language."""
from __future__ import annotations

import random
import re
import sys
import warnings
from typing import Any, Dict, List, Optional, Sequence, Set, Tuple

from vlib import regen, runner

PID = "C17"
RULE = (
    "Patterns: Hypothesis-drawn regex ASTs (vlib.regen) with ~50% astral characters in literals and "
    "set ranges; ranges within one high surrogate, crossing to the adjacent one, two apart and far "
    "apart (the branches of the surrogate expansion), U+10000/U+10FFFF boundaries, mixed BMP/astral "
    "sets, quantified astral literals and sets, groups/unions, anchored and unanchored, spelled "
    "raw or as \\xHH/\\uXXXX/\\UXXXXXXXX; low rates of '.', complemented sets, lone-surrogate "
    "literals and ranges that start in the BMP and end above it. Only patterns that retree.parse "
    "accepts are judged. Strings per pattern (~28): positives sampled from the AST, neighbours "
    "(delete/insert/replace, code point +-1, +-0x400, BMP look-alike = low 16 bits), random strings "
    "over the pattern alphabet +-1; never lone surrogates. Oracle: Q=fix_pattern_for_utf16(P) does "
    "not raise and compiles; bool(re.match(P,s))==bool(re.match(Q,u16(s))) and the same for "
    "fullmatch, u16(s) = UTF-16 code units of s, one Python character each. Asserted (core) when the "
    "pattern mentions no surrogate code point and, if it has '.' or a complemented set, the string "
    "has no astral character; other pairs are evaluated and bucketed as ext:*. Non-trivial = pattern "
    "has an astral character and the string has one; distinct by (pattern, string)."
)
ASSUMPTIONS = [
    "a UTF-16 engine is modelled by Python re over strings whose characters are the UTF-16 code units",
    "core domain: no surrogate code point in the pattern (literal or inside a range); '.'/[^...] only against BMP-only strings",
    "strings are valid Unicode (no lone surrogates): u16 of a lone surrogate is ambiguous",
    "match and fullmatch verdicts are compared, not match spans",
    "patterns rejected by retree.parse are outside the property (counted as excluded)",
]

warnings.simplefilter("ignore")

OPTS = [
    regen.Opts(astral=50, surrogates=0, complement=12, dot=5, inner_anchors=1, max_depth=2,
               max_terms=3, max_alts=2, sets=40, controls=2, meta=6),
    regen.Opts(astral=50, surrogates=0, complement=12, dot=5, inner_anchors=1, max_depth=2,
               max_terms=3, max_alts=2, sets=40, controls=2, meta=6, anchored=True, dot_star_suffix=5),
    regen.Opts(astral=60, surrogates=0, complement=0, dot=0, inner_anchors=0, max_depth=2,
               max_terms=3, max_alts=2, sets=55, controls=0, meta=3, anchored=True),
    # extended domain and crash classes at a low rate
    regen.Opts(astral=45, surrogates=6, complement=15, dot=8, bmp_to_astral_range=25, max_depth=2,
               max_terms=3, max_alts=2, sets=45, anchored=True),
]
SPELLING = regen.Spelling(hex_escape=25)


def xbucket(exc: BaseException) -> str:
    b = runner.exc_bucket(exc)
    if type(exc).__name__ == "ViolationError":
        lines = str(exc).splitlines()
        where = lines[0].rsplit(" in ", 1)[-1].rstrip(":") if lines else ""
        what = lines[1] if len(lines) > 1 else ""
        slug = re.sub(r"[^A-Za-z0-9]+", "-", f"{where} {what}").strip("-")[:48]
        b = f"{b}:{slug}"
    return b


_CARET_HEAD_WITHOUT_END = re.compile(r"\[\\\^(?!-)")


def tree_features(regex: Any) -> Set[str]:
    """dot / complement / surrogate / astral, read off the parsed tree (replay has no AST)."""
    f = set()  # type: Set[str]

    def cp(c: str) -> None:
        o = ord(c)
        if o >= 0x10000:
            f.add("astral")
        elif 0xD800 <= o <= 0xDFFF:
            f.add("surrogate")

    stack = [regex]
    while stack:
        n = stack.pop()
        name = type(n).__name__
        if name == "Regex":
            stack.append(n.union)
        elif name == "UnionExpr":
            stack.extend(n.uniates)
        elif name == "Concatenation":
            stack.extend(n.concatenants)
        elif name == "Term":
            stack.append(n.value)
        elif name == "Group":
            stack.append(n.union)
        elif name == "Symbol":
            if n.kind.value == ".":
                f.add("dot")
        elif name == "Char":
            cp(n.character)
        elif name == "CharSet":
            if n.complementing:
                f.add("complement")
            for r in n.ranges:
                cp(r.start.character)
                if r.end is not None:
                    cp(r.end.character)
                    if ord(r.start.character) <= 0xDFFF and ord(r.end.character) >= 0xD800:
                        f.add("surrogate")
                    if ord(r.start.character) < 0x10000 <= ord(r.end.character):
                        f.add("range-bmp-to-astral")
    return f


def domain(feats: Set[str], s: str) -> str:
    if "surrogate" in feats:
        return "ext:surrogate-in-pattern"
    if ("dot" in feats or "complement" in feats) and any(ord(c) >= 0x10000 for c in s):
        return "ext:dot-or-complement-vs-astral-input"
    return "core"


def rewrite(P: str) -> Tuple[Optional[str], Optional[Tuple[str, str]], bool]:
    """(Q, failure, rejected_by_front_end)."""
    from aas_core_codegen.jsonschema.main import fix_pattern_for_utf16

    try:
        return fix_pattern_for_utf16(P), None, False
    except ValueError as e:
        if str(e).startswith("The pattern could not be parsed"):
            return None, None, True
        return None, (f"rewrite-raises-{xbucket(e)}", f"fix_pattern_for_utf16({P!r}):\n{runner.exc_text(e)}"), False
    except BaseException as e:  # noqa
        return None, (f"rewrite-raises-{xbucket(e)}", f"fix_pattern_for_utf16({P!r}):\n{runner.exc_text(e)}"), False


def compare(P: str, Q: str, feats: Set[str], strings: Sequence[str]) -> Tuple[List[Tuple[str, str, str]], List[str], bool]:
    """Returns (failures as (bucket, message, string), domain per string, finished)."""
    fails = []  # type: List[Tuple[str, str, str]]
    try:
        cp = re.compile(P)
    except re.error:
        return [], [], True  # not a Python pattern: C16's business
    try:
        cq = re.compile(Q)
    except (re.error, OverflowError) as e:
        return [("rewritten-pattern-invalid", f"{P!r} -> {Q!r}: {e}", "")], [], True
    doms = [domain(feats, s) for s in strings]
    # the renderer drops the end of a range that starts with an escaped caret at the head of a set
    # (found by C16, proposed fix C16-caret-range-first-in-set-loses-end.diff): own bucket
    # (after the rewriting the BMP part of a mixed set is a set of its own, so the range may head it
    # only in Q)
    caret = "^-" in P and bool(_CARET_HEAD_WITHOUT_END.search(Q))

    def run() -> None:
        for s, d in zip(strings, doms):
            u = regen.u16(s)
            a = (cp.match(s) is not None, cp.fullmatch(s) is not None)
            b = (cq.match(u) is not None, cq.fullmatch(u) is not None)
            if a != b:
                fails.append(("lang-differs:caret-range-first-in-set-rendered-without-end" if caret
                              else f"lang-differs:{d}",
                              f"P={P!r} Q={Q!r} s={s!r} u16(s)={u!r}: P (match, fullmatch)={a}, Q={b}", s))

    finished, _ = regen.cpu_limited(run)
    return fails, doms, finished


def shard(ctx: runner.Ctx) -> None:
    regen.with_roomy_stack(lambda: _shard(ctx))


def _shard(ctx: runner.Ctx) -> None:
    from hypothesis import strategies as st

    n_pairs = ctx.n(110_000, 16_000_000)
    n = max(1, n_pairs // 28)
    strategy = st.one_of(*[regen.cases(o) for o in (OPTS[0], OPTS[1], OPTS[2], OPTS[2], OPTS[3])])

    def one(case: Any) -> None:
        ast, seed = case
        rnd = random.Random(seed)
        P = regen.render(ast, rnd, SPELLING)
        feats = regen.features(ast)
        Q, failure, rejected = rewrite(P)
        if rejected:
            ctx.exclude("pattern rejected by retree.parse")
            return
        pclasses = ["pattern:" + f for f in sorted(feats)
                    if f in ("astral", "dot", "complement", "surrogate", "quantified-astral",
                             "range-bmp-to-astral", "union", "group", "lazy")
                    or f.startswith("astral-range:")]
        if failure is not None:
            ctx.case(False, key=[regen.enc(P), None], classes=["rewrite-raised"] + pclasses)
            ctx.fail(failure[0], {"P": regen.enc(P), "strings": []}, failure[1])
            return
        assert Q is not None
        strings, n_pos = regen.strings(ast, rnd, n_pos=10, n_neigh=14, n_rand=6,
                                       no_lone_surrogates=True, wide_neighbours=True)
        fails, doms, finished = compare(P, Q, feats, strings)
        if not finished:
            ctx.exclude("comparison abandoned: re backtracking exceeded the CPU allowance")
            return
        pat_astral = "astral" in feats
        first = True
        for s, d in zip(strings, doms):
            s_astral = any(ord(c) >= 0x10000 for c in s)
            classes = ["domain:" + d, "string:" + ("astral" if s_astral else "bmp-only")]
            if first:
                classes += pclasses + ["patterns", "rewritten:changed" if Q != P else "rewritten:same"]
                first = False
            ctx.case(pat_astral and s_astral, key=[regen.enc(P), regen.enc(s)],
                     sample={"P": P, "Q": Q, "s": s, "domain": d}, classes=classes)
        for b, m, s in fails:
            ctx.fail(b, {"P": regen.enc(P), "strings": [regen.enc(s)]}, m)

    runner.hyp_run(strategy, one, n, ctx.seed)
    import time

    ctx.notes["cpu_s_exploration"] = round(time.process_time(), 1)

    if ctx.shard == 0:
        for P, strings in CORNERS:
            for b, m in _evaluate(P, strings):
                ctx.fail(b, {"P": regen.enc(P), "strings": [regen.enc(s) for s in strings]}, m)
            ctx.case(True, key=[P, "corner"], classes=["corner"])


CORNERS = [
    ("^\\U0001F600$", ["\U0001F600", "\U0001F601", "", "", "\U0001F600\U0001F600"]),
    ("^\U0001F600+$", ["\U0001F600", "\U0001F600\U0001F600", "\U0001F600\U0001F601"]),
    ("^[\\U00010000-\\U0010FFFF]*$", ["\U00010000", "\U0010FFFF", "￿", "\U0001F600a", "\U0001F600\U00020000"]),
    ("^[\\U0001F600-\\U0001F64F]$", ["\U0001F600", "\U0001F64F", "\U0001F650", "\U0001F5FF", "\U0001FA00"]),
    ("^[\\U000103FF-\\U00010400]$", ["\U000103FE", "\U000103FF", "\U00010400", "\U00010401"]),
    ("^[\\U00010000-\\U00010800]$", ["\U00010000", "\U000103FF", "\U00010400", "\U000107FF", "\U00010800", "\U00010801"]),
    ("^[\\U00010000-\\U00010C00]$", ["\U00010400", "\U000107FF", "\U00010800", "\U00010BFF", "\U00010C00", "\U00010C01"]),
    ("^[a-z\\U0001F600\\-]{2}$", ["a\U0001F600", "--", "\U0001F600\U0001F600", "a\U0001F601"]),
    ("^[\\uFFF0-\\U00010010]$", ["￰", "\U00010000", "\U00010010", "\U00010011"]),
    ("^[^\\U00010000]$", ["a", "\U00010000"]),
    ("^.$", ["a", "\U0001F600"]),
    ("^[^a]$", ["b", "\U0001F600"]),
]


def _evaluate(P: str, strings: Sequence[str]) -> List[Tuple[str, str]]:
    from aas_core_codegen.parse import retree

    strings = [s for s in strings if not any(0xD800 <= ord(c) <= 0xDFFF for c in s)]
    Q, failure, rejected = rewrite(P)
    if rejected:
        return []
    if failure is not None:
        return [failure]
    try:
        tree, err = retree.parse([P])
    except BaseException:  # noqa: C16
        return []
    if tree is None:
        return []
    assert Q is not None
    fails, _, _ = compare(P, Q, tree_features(tree), strings)
    return [(b, m) for b, m, _ in fails]


def replay(case: Any) -> List[Tuple[str, str]]:
    try:
        P = regen.dec(case["P"])
        strings = [regen.dec(s) for s in case.get("strings", [])]
    except (KeyError, TypeError, ValueError):
        return []
    return _evaluate(P, strings)


def shrink(case: Any, bucket: str, budget: float) -> Any:
    from vlib.shrink import jshrink

    return jshrink(case, lambda c: any(b == bucket for b, _ in replay(c)), min(budget, 8.0))


def health(m: Any, tier: str) -> Any:
    c = m["classes"]
    pats = c.get("patterns", 0)
    rejected = m["excluded"].get("pattern rejected by retree.parse", 0)
    if pats + rejected and rejected > 0.25 * (pats + rejected):
        return f"{rejected} of {pats + rejected} generated patterns are rejected by retree.parse"
    if m["nontrivial_n"] < 0.15 * max(1, m["evaluations"]):
        return f"only {m['nontrivial_n']} non-trivial pairs of {m['evaluations']}"
    for k in ("pattern:astral-range:same-high", "pattern:astral-range:adjacent",
              "pattern:astral-range:two-apart", "pattern:astral-range:far", "pattern:quantified-astral"):
        if c.get(k, 0) < 0.01 * max(1, pats):
            return f"class {k} is nearly absent: {c.get(k, 0)} of {pats} patterns"
    return None


if __name__ == "__main__":
    runner.main(sys.modules[__name__])
