"""
C09: case generator (wraps vlib.mmgen / vlib.invgen / vlib.instgen) and JSON-document corpus.

A *case* is JSON-able::

    {"profile": "ts"|"java"|"cpp", "spec": <Spec.to_json()>, "instances": [neutral...],
     "muts": [[a, b], ...]}

``profile`` decides which restrictions were applied to the drawn model (so that the target's
generator does not refuse it for a *known* reason that belongs to C02) and which targets are run.
"""
from __future__ import annotations

import copy
import json
from typing import Any, Dict, Iterator, List, Optional, Tuple

from hypothesis import strategies as st

from vlib import instgen, invgen, mmgen
from vlib.mmgen import Spec, TRef
from vlib.schemakit import json_prop, model_type

# "javanum" = "java" but keeping int/float properties (on which the generated Java SDK does not compile: known finding)
PROFILE_TARGETS = {"ts": ["typescript"], "java": ["typescript", "java"], "javanum": ["typescript", "java"],
                   "cpp": ["typescript", "cpp"], "cppraw": ["typescript", "cpp"]}

CORE_INT_MAX = 2 ** 53 - 1


def canon(name: str) -> str:
    """Language-neutral key of an identifier: lower case, underscores removed."""
    return name.replace("_", "").lower()


# ---------------------------------------------------------------------------
# Model strategy
# ---------------------------------------------------------------------------


def base_opts(profile: str) -> mmgen.Opts:
    o = mmgen.Opts(max_classes=5, max_props=4, max_invs=3, invariants="none", docs="none", nested_lists=False)
    if profile in ("java", "javanum"):
        # the Java generator asserts on interfaces of classes with 2+ parents (C02 finding)
        o.p_diamond = 0.0
    if profile == "ts":
        # enumeration literal values with quotes, backslashes, non-ASCII (C++ asserts on non-ASCII values: C02)
        o.adversarial_text = True
    return o


def _usable_classes(spec: Spec) -> List[str]:
    return [c.name for c in spec.classes if not (c.abstract and not spec.concrete_descendants(c.name))]


def _ensure_dispatch(spec: Spec) -> None:
    """Every class used as a property/item type that has concrete descendants needs modelType."""
    used = set()  # type: set

    def collect(t: TRef) -> None:
        if t.kind == "class":
            used.add(t.name)
        elif t.item is not None:
            collect(t.item)

    for c in spec.classes:
        for p in c.props:
            collect(p.type)
    for nm in sorted(used):
        if spec.concrete_descendants(nm):
            if not any(spec.cls(k).with_model_type for k in [nm] + spec.ancestors(nm)):
                spec.cls(nm).with_model_type = True


def restrict(draw: Any, spec: Spec, profile: str) -> None:
    """Post-process a spec drawn *without invariants* so that the profile's extra target generates it."""
    if profile == "java":
        # the generated Java SDK does not compile for int and float properties (C09 known findings):
        # keep the search going behind them with str/bool instead
        for cp in spec.cps:
            if cp.prim in ("int", "float"):
                cp.prim = "str"
        # ... nor for a concrete class without properties (calls an undefined newX())
        for c in spec.classes:
            if not c.abstract and not spec.all_props(c.name):
                c.props.append(mmgen.Prop("only_" + canon(c.name), TRef("prim", "str")))
        # ... nor without any enumeration (import of the non-existent package types.enums)
        if not spec.enums:
            spec.enums.append(mmgen.Enm("Only_kind", [("Only_one", "only-one"), ("Other", "Other")]))
            spec.order.insert(0, ("enum", "Only_kind"))
        # ... nor for int / float constants (Long x = 13; Float x = 2.25;) and constant sets of int
        # (Set<Long> built from Integer literals)
        gone = {c.name for c in spec.consts if c.kind in ("int", "float", "set_int")}
        spec.consts = [c for c in spec.consts if c.name not in gone]
        spec.order = [o for o in spec.order if not (o[0] == "const" and o[1] in gone)]
        for c in spec.classes:
            for p in c.props:
                core = p.type.core
                if core.kind == "prim" and core.name in ("int", "float"):
                    core.name = "str" if core.name == "int" else "bool"
    if profile in ("java", "javanum"):
        # Java asserts on lists of non-class items (deep copies): turn them into lists of classes
        usable = _usable_classes(spec)
        for c in spec.classes:
            for p in c.props:
                core = p.type.core
                if core.kind == "list" and core.item is not None and core.item.kind != "class":
                    if usable:
                        new = TRef("list", item=TRef("class", usable[draw(st.integers(0, len(usable) - 1))]))
                    else:
                        new = core.item
                    p.type = TRef("opt", item=new) if p.type.optional else new
        _ensure_dispatch(spec)
    if profile == "cpp":
        # the generated C++ SDK does not compile for a concrete class with descendants (C09 known finding):
        # make such classes abstract (their leaves stay concrete); "cppraw" keeps them
        for c in spec.classes:
            if not c.abstract and spec.descendants(c.name):
                c.abstract = True
        mmgen._make_instantiable(spec)  # noqa: a mandatory property of a now abstract type must stay satisfiable
        # ... nor for a class without properties (constructor defined twice)
        for c in spec.classes:
            if not c.abstract and not spec.all_props(c.name):
                c.props.append(mmgen.Prop("only_" + canon(c.name), TRef("prim", "str")))
        # ... nor for a class with two lists of constrained primitives (member declared twice in the verificator)
        for c in spec.classes:
            seen = sum(1 for a in spec.ancestors(c.name) for p in spec.cls(a).props
                       if p.type.core.kind == "list" and p.type.core.item.kind == "cp")
            for p in c.props:
                core = p.type.core
                if core.kind == "list" and core.item is not None and core.item.kind == "cp":
                    seen += 1
                    if seen > 1:
                        p.type = TRef("opt", item=core.item) if p.type.optional else core.item
    if profile in ("cpp", "cppraw"):
        # C++ asserts on Optional[List[primitive]] (C02 finding): make such lists mandatory
        for c in spec.classes:
            for p in c.props:
                core = p.type.core
                if p.type.optional and core.kind == "list" and core.item is not None and core.item.kind != "class":
                    p.type = core


@st.composite
def models(draw: Any, profile: str) -> Spec:
    spec = draw(mmgen.specs(base_opts(profile)))
    restrict(draw, spec, profile)
    mode = draw(st.sampled_from(["general", "general", "schema"]))
    o = base_opts(profile)
    o.invariants = mode
    o.adversarial_text = True  # invariant descriptions with quotes, backslashes, non-ASCII, ${x}, ...
    known = {f.name for f in spec.fns}
    invgen.add_invariants(draw, spec, o, set())
    for f in spec.fns:
        if f.name not in known:
            spec.order.insert(draw(st.integers(0, len(spec.order))), ("fn", f.name))
    if profile in ("java", "javanum"):
        _drop_len_of_bytes(spec)
    # U+2028 inside a description is split by the generators' re-indentation of code blocks in every target
    # including Python (the literal no longer denotes the description: C19); keep C09 behind it
    for holder in list(spec.classes) + list(spec.cps):
        for inv in holder.invs:
            inv.desc = inv.desc.replace("\u2028", "\u00a0").replace("\u2029", "\u00a0")
    return spec


def _drop_len_of_bytes(spec: Spec) -> None:
    """The Java generator reports 'We do not know how to compute the length on type bytearray' (C02)."""
    import re

    def is_bytes(t: TRef) -> bool:
        t = t.core
        return (t.kind == "prim" and t.name == "bytearray") or (t.kind == "cp" and spec.cp_prim(t.name) == "bytearray")

    names = sorted({p.name for c in spec.classes for p in c.props if is_bytes(p.type)})
    if names:
        pat = re.compile(r"len\((?:[\w.\[\]]*\.)?(?:" + "|".join(re.escape(n) for n in names) + r")\)")
        for c in spec.classes:
            c.invs = [i for i in c.invs if not pat.search(i.body)]
    for cp in spec.cps:
        if cp.prim == "bytearray":
            cp.invs = [i for i in cp.invs if "len(self)" not in i.body]


class CoreInstGen(instgen.InstGen):
    """Boundary-biased instances within the core numeric domain (|int| <= 2^53-1, finite floats)."""

    def s_int(self) -> Any:
        return st.one_of(
            st.sampled_from(self.pools.ints), st.integers(-5, 12),
            st.sampled_from([2 ** 31 - 1, 2 ** 31, -(2 ** 31), -(2 ** 31) - 1, 2 ** 32, CORE_INT_MAX, -CORE_INT_MAX, 255, 256]),
        )

    def s_float(self) -> Any:
        return st.sampled_from([0.0, 1.5, -2.25, 100.0, 1.0, -1.0, 0.1, 2.25, 1e10, -0.0, 5e-324,
                                1.7976931348623157e308, 0.1 + 0.2, 123456789.12345678, 1e-7, 1e22, 1e21, 2.5e-5,
                                -1.5, 99.99999999999999, 100.00000000000001])


@st.composite
def cases(draw: Any, profile: str, n_inst: int, n_mut: int) -> Dict[str, Any]:
    spec = draw(models(profile))
    ig = CoreInstGen(spec, hard_values=True)
    insts = draw(st.lists(ig.any_instance(), min_size=n_inst, max_size=n_inst))
    muts = draw(st.lists(st.tuples(st.integers(0, 10_000), st.integers(0, 10_000)),
                         min_size=n_inst * n_mut, max_size=n_inst * n_mut))
    return {"profile": profile, "spec": spec.to_json(), "instances": insts, "muts": [list(m) for m in muts]}


# ---------------------------------------------------------------------------
# Typed walk over a produced JSON document
# ---------------------------------------------------------------------------


def _props_by_json_name(spec: Spec, cname: str) -> Dict[str, Any]:
    return {json_prop(p.name): p for p in spec.all_props(cname)}


def _class_by_model_type(spec: Spec) -> Dict[str, str]:
    return {model_type(c.name): c.name for c in spec.classes}


def sites(spec: Spec, t: TRef, doc: Any, neutral: Any, path: Tuple[Any, ...] = ()) -> Iterator[Tuple[Tuple[Any, ...], str, Any]]:
    """
    Yield (path, kind, info) for every value of the document; ``kind`` in
    object|list|bool|int|float|str|bytes|enum, ``info`` = class name / enum name / required flag.
    The neutral instance gives the concrete class of every object.
    """
    if t.kind == "opt":
        assert t.item is not None
        yield from sites(spec, t.item, doc, neutral, path)
        return
    if t.kind in ("prim", "cp"):
        prim = t.name if t.kind == "prim" else spec.cp_prim(t.name)
        yield path, {"bool": "bool", "int": "int", "float": "float", "str": "str", "bytearray": "bytes"}[prim], None
        return
    if t.kind == "enum":
        yield path, "enum", t.name
        return
    if t.kind == "list":
        yield path, "list", None
        if isinstance(doc, list) and isinstance(neutral, list):
            for i, (d, n) in enumerate(zip(doc, neutral)):
                assert t.item is not None
                yield from sites(spec, t.item, d, n, path + (i,))
        return
    if t.kind == "class":
        if not (isinstance(doc, dict) and isinstance(neutral, dict) and "cls" in neutral):
            return
        cname = neutral["cls"]
        yield path, "object", cname
        byname = _props_by_json_name(spec, cname)
        for k, v in doc.items():
            p = byname.get(k)
            if p is None:
                continue
            yield from sites(spec, p.type, v, neutral["props"].get(p.name), path + (k,))
        return
    raise AssertionError(t)


def _get(doc: Any, path: Tuple[Any, ...]) -> Any:
    for p in path:
        doc = doc[p]
    return doc


def _set(doc: Any, path: Tuple[Any, ...], val: Any) -> Any:
    doc = copy.deepcopy(doc)
    if not path:
        return val
    cur = doc
    for p in path[:-1]:
        cur = cur[p]
    cur[path[-1]] = val
    return doc


def _del(doc: Any, path: Tuple[Any, ...]) -> Any:
    doc = copy.deepcopy(doc)
    cur = doc
    for p in path[:-1]:
        cur = cur[p]
    del cur[path[-1]]
    return doc


class RawNumber:
    """A JSON number written with an exact lexical form (e.g. ``5.0`` or ``1e400``)."""

    def __init__(self, text: str) -> None:
        self.text = text


BAD_BASE64 = [
    ("non-alphabet", "!!!!"), ("non-ascii", "éééé"), ("single-char", "a"), ("only-padding", "===="),
    ("missing-padding", "YQ"), ("short-padding", "YWI"), ("inner-space", "Y Q=="), ("trailing-newline", "YQ==\n"),
    ("url-alphabet", "-_-_"), ("padding-in-middle", "YQ==YQ=="), ("excess-padding", "YQ==="), ("nonzero-trailing-bits", "YR=="),
]


def mutations(spec: Spec, cname: str, doc: Any, neutral: Any, a: int, b: int, salt: int = 0) -> Optional[Tuple[str, str, Any]]:
    """
    One single-site mutation of ``doc`` chosen by the integers (a, b):
    (tag, domain, mutated document); domain = "core" (asserted) | "ext" (reported only).
    """
    ss = list(sites(spec, TRef("class", cname), doc, neutral))
    if not ss:
        return None
    # (a, b) come from Hypothesis, which favours small numbers: mix them before use
    import random

    # (Hypothesis also likes to repeat elements of a list: ``salt`` = position of the mutation keeps them apart)
    rnd = random.Random(a * 10_007 + b + salt * 7_919)
    # pick the site among those of a kind chosen first, so that rare kinds (bytes, enum) get their share
    kinds = sorted({k for _, k, _ in ss})
    kind = kinds[rnd.randrange(len(kinds))]
    cands = [s for s in ss if s[1] == kind]
    path, kind, info = cands[rnd.randrange(len(cands))]
    val = _get(doc, path)
    b0, b1 = rnd.randrange(1 << 20), rnd.randrange(1 << 20)
    is_prop = bool(path) and isinstance(path[-1], str)

    generic = []  # type: List[Tuple[str, str, Any]]
    if is_prop:
        generic.append(("drop-property", "core", _del(doc, path)))
        generic.append(("null-property", "core", _set(doc, path, None)))
    elif path:
        generic.append(("null-item", "core", _set(doc, path, None)))
    else:
        generic.append(("null-root", "core", None))

    out = []  # type: List[Tuple[str, str, Any]]
    if kind == "object":
        d = copy.deepcopy(val)
        d["unknownProperty"] = 1
        out.append(("unknown-property", "core", _set(doc, path, d)))
        d = copy.deepcopy(val)
        d["modelType"] = "NoSuchModelType"
        out.append(("modelType-unknown" if "modelType" in val else "modelType-added-unknown", "core", _set(doc, path, d)))
        others = [model_type(c.name) for c in spec.classes if not c.abstract and c.name != info]
        if others:
            d = copy.deepcopy(val)
            d["modelType"] = others[b1 % len(others)]
            out.append(("modelType-of-other-class" if "modelType" in val else "modelType-added-of-other-class", "core", _set(doc, path, d)))
        if "modelType" in val:
            d = copy.deepcopy(val)
            d["modelType"] = 42
            out.append(("modelType-not-string", "core", _set(doc, path, d)))
            out.append(("modelType-missing", "core", _del(doc, path + ("modelType",))))
            d = copy.deepcopy(val)
            d["modelType"] = val["modelType"].lower()
            out.append(("modelType-wrong-case", "core", _set(doc, path, d)))
        else:
            d = copy.deepcopy(val)
            d["modelType"] = model_type(info)
            out.append(("modelType-added-own", "core", _set(doc, path, d)))
        out.append(("object->array", "core", _set(doc, path, [])))
        out.append(("object->array-of-object", "core", _set(doc, path, [val])))
        out.append(("object->string", "core", _set(doc, path, "x")))
        out.append(("object->number", "core", _set(doc, path, 1)))
        out.append(("object->bool", "core", _set(doc, path, True)))
    elif kind == "list":
        out.append(("array->object", "core", _set(doc, path, {})))
        out.append(("array->number", "core", _set(doc, path, 7)))
        out.append(("array->string", "core", _set(doc, path, "ab")))
        if val:
            out.append(("array-item->nested-array", "core", _set(doc, path + (0,), [val[0]])))
            out.append(("array->first-item", "core", _set(doc, path, val[0])))
        out.append(("array+null-item", "core", _set(doc, path, list(val) + [None])))
    elif kind == "bool":
        out.append(("bool->string", "core", _set(doc, path, "true")))
        out.append(("bool->number", "core", _set(doc, path, 1 if val else 0)))
        out.append(("bool->array", "core", _set(doc, path, [val])))
    elif kind == "int":
        out.append(("int->string", "core", _set(doc, path, str(val))))
        out.append(("int->bool", "core", _set(doc, path, True)))
        out.append(("int->fraction", "core", _set(doc, path, val + 0.5 if abs(val) < 2 ** 40 else 0.5)))
        out.append(("int->large-in-core", "core", _set(doc, path, [2 ** 31, -(2 ** 31) - 1, 2 ** 32 + 1, CORE_INT_MAX, -CORE_INT_MAX][b1 % 5])))
        out.append(("int->array", "core", _set(doc, path, [val])))
        out.append(("int->beyond-2^53", "ext", _set(doc, path, [2 ** 53, 2 ** 53 + 1, 2 ** 63 - 1, -(2 ** 63)][b1 % 4])))
        out.append(("int->beyond-int64", "ext", _set(doc, path, [2 ** 63, 2 ** 64, -(2 ** 63) - 1, 10 ** 30][b1 % 4])))
        out.append(("int->whole-float-literal", "ext", _set(doc, path, RawNumber(f"{val}.0"))))
        out.append(("int->exponent-literal", "ext", _set(doc, path, RawNumber("1e2"))))
    elif kind == "float":
        out.append(("float->string", "core", _set(doc, path, repr(val))))
        out.append(("float->bool", "core", _set(doc, path, False)))
        out.append(("float->integer-literal", "core", _set(doc, path, 7)))
        out.append(("float->large-finite", "core", _set(doc, path, [1e308, -1.7976931348623157e308, 5e-324, 1e-320][b1 % 4])))
        out.append(("float->array", "core", _set(doc, path, [val])))
        out.append(("float->overflow-literal", "ext", _set(doc, path, RawNumber(["1e400", "-1e400", "1e-400"][b1 % 3]))))
        out.append(("float->huge-integer-literal", "ext", _set(doc, path, 10 ** 30)))
    elif kind == "str":
        out.append(("string->number", "core", _set(doc, path, 123)))
        out.append(("string->bool", "core", _set(doc, path, True)))
        out.append(("string->array", "core", _set(doc, path, [val])))
        out.append(("string->object", "core", _set(doc, path, {})))
    elif kind == "bytes":
        name, text = BAD_BASE64[b1 % len(BAD_BASE64)]
        out.append((f"bytes->bad-base64:{name}", "core", _set(doc, path, text)))
        out.append((f"bytes->bad-base64:{name}", "core", _set(doc, path, text)))
        out.append(("bytes->number", "core", _set(doc, path, 5)))
        out.append(("bytes->array", "core", _set(doc, path, [65])))
    elif kind == "enum":
        en = spec.enum(info)
        out.append(("enum->unknown-literal", "core", _set(doc, path, "NoSuchLiteral?")))
        names = [n for n, v in en.literals if n not in [w for _, w in en.literals]]
        if names:
            out.append(("enum->literal-name", "core", _set(doc, path, names[b1 % len(names)])))
        if isinstance(val, str) and val.swapcase() not in [w for _, w in en.literals]:
            out.append(("enum->wrong-case", "core", _set(doc, path, val.swapcase())))
        out.append(("enum->number", "core", _set(doc, path, 0)))
        out.append(("enum->empty-string", "core", _set(doc, path, "") if "" not in [w for _, w in en.literals] else _set(doc, path, 0)))
    pool = out + generic
    return pool[b0 % len(pool)]


def dumps(doc: Any) -> str:
    """JSON text of a (possibly mutated) document; RawNumber keeps its lexical form."""
    raws = []  # type: List[str]

    def default(o: Any) -> Any:
        if isinstance(o, RawNumber):
            raws.append(o.text)
            return f"\u0000RAW{len(raws) - 1}\u0000"
        raise TypeError(type(o))

    text = json.dumps(doc, default=default, ensure_ascii=True, allow_nan=False)
    for i, r in enumerate(raws):
        text = text.replace(json.dumps(f"\u0000RAW{i}\u0000"), r)
    return text
