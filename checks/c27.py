"""C27 — Message wrapping keeps text and layout rules."""
from __future__ import annotations

import sys
from typing import Any, List, Tuple

from hypothesis import strategies as st

from vlib import runner

PID = "C27"
RULE = (
    "Hypothesis: text = parts joined by single spaces; parts drawn from lowercase "
    "articles (a/an/the), capitalised and prefixed look-alikes (The, then, and, a.), "
    "words of 1-25 chars over letters/digits/punctuation/tab/newline, and empty parts "
    "(double spaces, leading/trailing spaces); width 1-80. Oracle: join(segments)==text; "
    "len(segment)<=width unless the segment is one token (a word, or an article glued to "
    "its following word); no segment ends with a lowercase article part when the next "
    "part of the text is a non-empty non-article word. Non-trivial = some article is "
    "followed by a word AND len(text) > width; distinct by (text,width)."
)
ASSUMPTIONS = [
    "'word' = maximal run between single U+0020 separators (the function's documented tokenisation)",
    "a segment's length counts its trailing separator space (the segment is the emitted literal)",
    "'single word' exception = one token; an article and the word it is glued to form one token (documented design)",
    "consecutive articles: only the last one is glued to the following word",
]

ARTICLES = ("a", "an", "the")

_word_alphabet = "abcdefgxyzTHEAN019.,;:!?-_()'\"\t\n"
_word = st.text(alphabet=_word_alphabet, min_size=1, max_size=25)
_part = st.one_of(
    st.sampled_from(ARTICLES),
    st.sampled_from(ARTICLES),
    st.sampled_from(["The", "A", "An", "then", "and", "a.", "the,", "an\t", "\nthe", "aa", "thee"]),
    _word,
    _word,
    _word,
    st.just(""),
)
STRATEGY = st.tuples(st.lists(_part, min_size=0, max_size=30), st.integers(1, 80))


def ref_tokens(text: str) -> List[str]:
    """Reference tokenisation, written from the docstring (not shared with the repo)."""
    parts = text.split(" ")
    toks = []  # type: List[str]
    i = 0
    while i < len(parts):
        p = parts[i]
        if p in ARTICLES and i + 1 < len(parts) and parts[i + 1] not in ARTICLES:
            toks.append(p + " " + parts[i + 1])
            i += 2
        else:
            toks.append(p)
            i += 1
    return toks


def evaluate(text: str, width: int) -> List[Tuple[str, str]]:
    from aas_core_codegen.common import wrap_text_into_lines

    fails = []  # type: List[Tuple[str, str]]
    try:
        segs = wrap_text_into_lines(text, width)
    except BaseException as e:  # noqa: includes icontract.ViolationError of the @ensure
        name = type(e).__name__
        if name == "ViolationError":
            return [("text-not-preserved", f"postcondition: {str(e)[:300]}")]
        return [(f"raises-{name}", runner.exc_text(e))]
    if not isinstance(segs, list) or not all(isinstance(s, str) for s in segs):
        return [("bad-return-type", repr(segs)[:300])]
    if "".join(segs) != text:
        return [("text-not-preserved", f"text={text!r} width={width} segments={segs!r}")]

    # token boundaries of the reference tokenisation, as offsets into text
    toks = ref_tokens(text)
    # token start offsets
    starts = []
    off = 0
    for t in toks:
        starts.append(off)
        off += len(t) + 1  # the separator
    start_set = set(starts)

    parts = text.split(" ")
    part_at = {}  # offset of part start -> index
    off = 0
    for i, p in enumerate(parts):
        part_at[off] = i
        off += len(p) + 1

    pos = 0
    for si, seg in enumerate(segs):
        end = pos + len(seg)
        # width rule
        if len(seg) > width:
            # allowed only if the segment is exactly one reference token (+ separator)
            ntok = sum(1 for s in start_set if pos <= s < end)
            aligned = pos in start_set and (end in start_set or end >= len(text))
            if not (aligned and ntok == 1):
                fails.append(
                    ("segment-too-long",
                     f"text={text!r} width={width} segment#{si}={seg!r} len={len(seg)} tokens_in_segment={ntok}")
                )
        # article rule at the boundary after this segment
        if si < len(segs) - 1 and end < len(text) and seg.endswith(" ") and end in part_at:
            nxt = parts[part_at[end]]
            # part just before the boundary
            before = text[pos:end - 1]
            last = before.split(" ")[-1] if before != "" else ""
            # ``last`` must be a full part: it starts at a part offset
            last_start = end - 1 - len(last)
            if (
                last in ARTICLES
                and last_start in part_at
                and nxt != ""
                and nxt not in ARTICLES
                and any(s != "" for s in segs[si + 1:])
            ):
                fails.append(
                    ("article-ends-segment",
                     f"text={text!r} width={width} segment#{si}={seg!r} next_word={nxt!r}")
                )
        pos = end
    return fails


def nontrivial(text: str, width: int) -> bool:
    parts = text.split(" ")
    has = any(
        p in ARTICLES and i + 1 < len(parts) and parts[i + 1] not in ARTICLES and parts[i + 1] != ""
        for i, p in enumerate(parts)
    )
    return has and len(text) > width


def shard(ctx: runner.Ctx) -> None:
    n = ctx.n(100_000, 5_000_000)

    def one(case: Any) -> None:
        parts, width = case
        text = " ".join(parts)
        fails = evaluate(text, width)
        nt = nontrivial(text, width)
        cls = ["long" if len(text) > width else "short"]
        if nt:
            cls.append("article+word,overflow")
        ctx.case(nt, key=[text, width], sample={"text": text, "width": width}, classes=cls)
        for b, m in fails:
            ctx.fail(b, {"text": text, "width": width}, m)

    runner.hyp_run(STRATEGY, one, n, ctx.seed)
    # fixed corner cases (replay tier)
    for text, width in [("", 1), (" ", 1), ("a", 1), ("the", 2), ("a b", 1), ("the x", 3),
                        ("x the", 3), ("the the the x", 4), ("a  b", 2), ("  ", 1)]:
        for b, m in evaluate(text, width):
            ctx.fail(b, {"text": text, "width": width}, m)
        ctx.case(nontrivial(text, width), key=[text, width], classes=["corner"])


def replay(case: Any) -> List[Tuple[str, str]]:
    return evaluate(str(case["text"]), max(1, int(case["width"])))


def health(m: Any, tier: str) -> Any:
    if m["nontrivial_n"] < 0.2 * m["evaluations"]:
        return f"only {m['nontrivial_n']} non-trivial of {m['evaluations']}"
    return None


if __name__ == "__main__":
    runner.main(sys.modules[__name__])
