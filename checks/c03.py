"""C03 — Exit status and error-report contract."""
from __future__ import annotations

import collections
import os
import pathlib
import random
import shutil
import subprocess
import sys
import zlib
from typing import Any, Dict, List, Optional, Tuple

from hypothesis import strategies as st

from vlib import c03_gen as g
from vlib import mmgen, mmmut, runner, sut

PID = "C03"
RULE = (
    "Hypothesis: a generated meta-model (vlib.mmgen) run through one drawn target of the 8 via main.execute with "
    "StringIO stdout/stderr, in six kinds: accepted model + minimal snippets; accepted model + deficient snippet "
    "directory (a required snippet missing/empty/garbage/non-UTF-8, an unknown extra file); model with 1-2 near-miss "
    "mutations (vlib.mmmut, ~50 % rejected); accepted model + one understood (non implementation-specific) method; path faults (--model_path missing or a directory, --snippets_dir missing "
    "or a file, --output_dir a file / missing and to be created / below a file); 'joint' = one entity-targeted error "
    "operator of vlib.c03_gen (14 operators, each detected by one collecting loop: dangling property type, invariant "
    "without description, duplicate invariant, non-None default, uninitialised property, constructor argument "
    "type/order mismatch, reserved class/property prefix, unanchored pattern, dangling base, non-string enumeration "
    "literal, dangling docstring reference, len() of a number) applied at two different entities individually and "
    "jointly. Every 50th case is repeated through both real CLIs as subprocesses (aas-core-codegen, python -m "
    "aas_core_codegen). Oracle on every run: (1) rc==0 <=> stderr==''; (2) rc==0 => stdout ends with 'Code generated "
    "to: <output dir>\\n'; (3) rc!=0 => stderr non-empty and no 'Code generated to' line; (4) report shape: one-line "
    "diagnostic, or a one-line headline ending in ':' followed by '* ' bullets / lines indented by >=2 spaces, at "
    "least one bullet, no empty or doubled bullet; (5) joint: multiset of innermost messages of report(m(e1)) + "
    "report(m(e2)) is contained in that of report(m(e1) o m(e2)). Exceptions escaping main.execute are C01/C02's: "
    "counted under excluded, not judged. Non-trivial = a run with rc != 0 (for (5): both single reports non-empty "
    "with the same headline); distinct by (kind, target, text, fault)."
)
ASSUMPTIONS = [
    "single-line diagnostics that do not end in ':' (missing path, Python syntax error, missing snippet) are degenerate reports and conform",
    "a stderr of several lines must start with ONE headline line ending in ':' (the property's 'one-line headline')",
    "innermost message = report line not followed by a deeper-indented line, location prefix removed",
    "joint oracle only for operators whose detection is one collecting loop over the entities (Op.where); two sites in the same class only where the loop over members collects as well (Op.within)",
    "subprocess runs: a Python traceback on stderr is an escaped exception (C01/C02), not judged here",
    "CLI arguments are restricted to the 8 valid targets and syntactically valid options (argparse usage errors are outside the property)",
]

SUBPROCESS_EVERY = 50
CLI_SCRIPT = "/venv/bin/aas-core-codegen"
PYTHON = "/venv/bin/python"

PATH_FAULTS = ["model-missing", "model-is-dir", "snippets-missing", "snippets-is-file", "output-is-file",
               "output-missing-nested", "output-below-file"]
DEFICIENCIES = ["missing", "empty", "garbage", "non-utf8", "extra-file"]

JOINT_OPS = [op for op in g.OPS]
# collectors that intermediate._verify runs unconditionally one after the other (every one of them must report);
# the constructor/property match is documented to be skipped when a property is not initialised at all
CROSS_STAGE = {
    "intermediate._verify_invariant_descriptions_unique",
    "intermediate._verify_optional_constructor_arguments_default_to_none",
    "intermediate._verify_all_properties_are_initialized_in_the_constructor",
    "intermediate._verify_constructor_arguments_and_properties_match",
    "intermediate._verify_patterns_anchored_at_start_and_end",
}
CROSS_DEPENDENT = {
    frozenset(("intermediate._verify_all_properties_are_initialized_in_the_constructor",
               "intermediate._verify_constructor_arguments_and_properties_match")),
}


# ---------------------------------------------------------------------------
# Generation
# ---------------------------------------------------------------------------


@st.composite
def cases(draw: Any) -> Dict[str, Any]:
    kind = draw(st.sampled_from(["accepted", "deficient", "mutated", "mutated", "mutated", "paths", "joint", "joint",
                                 "joint", "method"]))
    target = draw(st.sampled_from(sut.TARGETS))
    opts = mmgen.Opts(max_classes=draw(st.integers(2, 5)), max_props=draw(st.integers(1, 3)),
                      invariants=draw(st.sampled_from(["general", "general", "schema"])))
    spec = draw(mmgen.specs(opts))
    text = mmgen.render(spec)
    case = {"kind": kind, "target": target, "text": text}  # type: Dict[str, Any]
    if kind == "deficient":
        case["deficient"] = [draw(st.sampled_from(DEFICIENCIES)), draw(st.integers(0, 1))]
    elif kind == "mutated":
        names = []
        for _ in range(draw(st.sampled_from([1, 1, 2]))):
            name, text = mmmut.mutate(draw, text, None)
            names.append(name)
        case["text"] = text
        case["mutations"] = names
    elif kind == "paths":
        case["fault"] = draw(st.sampled_from(PATH_FAULTS))
        if draw(st.booleans()):
            # a rejected model behind the path fault: the fault must win or the report must still conform
            _, case["text"] = mmmut.mutate(draw, text, None)
    elif kind == "method":
        # an understood (non implementation-specific) method: accepted by the front end, refused by the SDK targets
        try:
            src = g.Src(text)
            cands = [c for c in src.classes() if not g.Src.is_enum(c) and not g.Src.is_cp(c)]
            c = cands[draw(st.integers(0, len(cands) - 1))]
            lines = text.split("\n")
            body = draw(st.sampled_from(["pass", "return None", '"""Do something."""']))
            lines[c.end_lineno:c.end_lineno] = ["", "    def zq_method(self) -> None:", f"        {body}"]
            case["text"] = "\n".join(lines)
        except (SyntaxError, ValueError, IndexError):
            case["kind"] = "accepted"
    elif kind == "joint":
        try:
            src = g.Src(text)
        except (SyntaxError, ValueError):
            case["kind"] = "accepted"
            return case
        applicable = []
        for op in JOINT_OPS:
            if op.late and target in ("jsonschema", "xsd"):
                continue
            sites = op.sites(src)
            pairs = [(a, b) for i, a in enumerate(sites) for b in sites[i + 1:] if g.independent(op, a, b)]
            if pairs:
                applicable.append((op, pairs))
        if not applicable:
            case["kind"] = "accepted"
            return case
        # uniform choice through a PRNG seeded by Hypothesis (its integer draws favour small values)
        rng = random.Random(draw(st.integers(0, 2 ** 32 - 1)) ^ zlib.crc32(text.encode("utf-8")))
        op, pairs = rng.choice(applicable)
        s1, s2 = rng.choice(pairs)
        if rng.random() < 0.5:
            s1, s2 = s2, s1
        case["op"] = op.name
        case["s1"] = s1
        case["s2"] = s2
        # cross-operator variant: two DIFFERENT rules of the same verification stage, broken in different classes
        cross = [o for o, _ in applicable if o.where in CROSS_STAGE]
        if len(cross) >= 2 and rng.random() < 0.35:
            o1, o2 = rng.sample(cross, 2)
            if frozenset((o1.where, o2.where)) not in CROSS_DEPENDENT:
                sites1, sites2 = o1.sites(src), o2.sites(src)
                pairs2 = [(a, b) for a in sites1 for b in sites2 if a[0] != b[0]]
                if pairs2:
                    a, b = rng.choice(pairs2)
                    case.update({"op": o1.name, "op2": o2.name, "s1": a, "s2": b})
    return case


# ---------------------------------------------------------------------------
# One run + oracles (1)-(4)
# ---------------------------------------------------------------------------


def snippets_for(target: str, deficient: Any) -> Dict[str, Any]:
    sn = dict(sut.BASE_SNIPPETS[target])  # type: Dict[str, Any]
    if deficient is not None:
        how, idx = deficient
        keys = sorted(sn)
        k = keys[idx % len(keys)]
        if how == "missing":
            del sn[k]
        elif how == "empty":
            sn[k] = ""
        elif how == "garbage":
            sn[k] = "<<< {garbage \x01 ]]>"
        elif how == "non-utf8":
            sn[k] = b"\xff\xfe\x00bad"
        elif how == "extra-file":
            sn["Unknown/zq_extra.txt"] = "something"
    return sn


def write_snippets(d: pathlib.Path, sn: Dict[str, Any]) -> None:
    d.mkdir(parents=True, exist_ok=True)
    for key, val in sn.items():
        p = d / key
        p.parent.mkdir(parents=True, exist_ok=True)
        if isinstance(val, bytes):
            p.write_bytes(val)
        else:
            p.write_text(val, encoding="utf-8")


def layout(d: pathlib.Path, case: Dict[str, Any], text: str, tag: str) -> Tuple[pathlib.Path, pathlib.Path, pathlib.Path]:
    """Materialise model, snippets and output paths of one run (with the path fault, if any)."""
    fault = case.get("fault")
    mp = d / f"{tag}-meta_model.py"
    sd = d / f"{tag}-snippets"
    od = d / f"{tag}-out"
    if fault == "model-is-dir":
        mp.mkdir()
    elif fault != "model-missing":
        mp.write_text(text, encoding="utf-8")
    if fault == "snippets-is-file":
        sd.write_text("x")
    elif fault != "snippets-missing":
        write_snippets(sd, snippets_for(case["target"], case.get("deficient")))
    if fault == "output-is-file":
        od.write_text("x")
    elif fault == "output-missing-nested":
        od = od / "a" / "b"
    elif fault == "output-below-file":
        (d / f"{tag}-file").write_text("x")
        od = d / f"{tag}-file" / "out"
    return mp, sd, od


def judge(where: str, rc: Any, out: str, err: str, od: pathlib.Path) -> List[Tuple[str, str]]:
    """Oracles (1)-(4) on one observed run."""
    fails = []  # type: List[Tuple[str, str]]
    if not isinstance(rc, int) or isinstance(rc, bool):
        return [(f"{where}:non-int-status", repr(rc))]
    if rc == 0:
        if err != "":
            fails.append((f"{where}:status0-with-stderr", f"stderr={err[:600]!r}"))
            return fails + [(f"report-shape:{k}", f"rc={rc} {m}") for k, m in g.shape_violations(err)]
        expected = f"Code generated to: {od}\n"
        if not out.endswith(expected) or out.count("Code generated to") != 1:
            fails.append((f"{where}:status0-without-code-generated-line", f"stdout={out[-300:]!r} expected tail={expected!r}"))
    else:
        if err == "":
            fails.append((f"{where}:nonzero-status-empty-stderr", f"rc={rc} stdout={out[-200:]!r}"))
        if "Code generated to" in out:
            fails.append((f"{where}:nonzero-status-with-code-generated-line", f"rc={rc} stdout={out[-200:]!r}"))
    for kind, msg in g.shape_violations(err):
        fails.append((f"report-shape:{kind}", f"rc={rc} {msg}"))
    return fails


def stage_of(rc: int, err: str) -> str:
    if rc == 0:
        return "ok"
    h = g.headline(err)
    for key, name in [("--model_path", "path"), ("--snippets_dir", "path"), ("--output_dir", "path"),
                      ("implementation-specific snippets", "snippets-dir"), ("snippet", "snippet-missing"),
                      ("invalid syntax", "syntax"), ("Failed to parse the meta-model:", "syntax"),
                      ("unexpected imports", "imports"), ("Failed to construct the symbol table", "parse"),
                      ("Failed to translate the parsed", "translate"), ("Failed to generate", "generate"),
                      ("Failed to verify", "verify")]:
        if key in h:
            return name
    return "other"


class Escaped(Exception):
    def __init__(self, bucket: str) -> None:
        super().__init__(bucket)
        self.bucket = bucket


def run_inprocess(case: Dict[str, Any], text: str, d: pathlib.Path, tag: str) -> Tuple[int, str, str, pathlib.Path, pathlib.Path]:
    mp, sd, od = layout(d, case, text, tag)
    try:
        rc, out, err = sut.execute(mp, case["target"], sd, od)
    except BaseException as e:  # noqa
        if type(e).__name__ in ("KeyboardInterrupt", "SystemExit", "MemoryError"):
            raise
        raise Escaped(runner.exc_bucket(e))
    return rc, out, err, od, mp


def run_cli(case: Dict[str, Any], text: str, d: pathlib.Path, tag: str, module: bool) -> Tuple[int, str, str, pathlib.Path]:
    mp, sd, od = layout(d, case, text, tag)
    cmd = ([PYTHON, "-m", "aas_core_codegen"] if module else [CLI_SCRIPT]) + [
        "--model_path", str(mp), "--snippets_dir", str(sd), "--output_dir", str(od), "--target", case["target"]]
    env = dict(os.environ)
    repo = os.environ.get("VERIF_REPO", "/repo")
    env["PYTHONPATH"] = repo
    env["PYTHONWARNINGS"] = "ignore"
    p = subprocess.run(cmd, env=env, cwd=str(d), stdout=subprocess.PIPE, stderr=subprocess.PIPE, timeout=600)
    out = p.stdout.decode("utf-8", errors="replace")
    err = p.stderr.decode("utf-8", errors="replace")
    if "Traceback (most recent call last):" in err:
        raise Escaped("subprocess-traceback")
    return p.returncode, out, err, od


def evaluate(case: Dict[str, Any], base: pathlib.Path, cli: bool) -> Dict[str, Any]:
    """Run one case; returns fails, classes, nontrivial flag, excluded reasons."""
    res = {"fails": [], "classes": [], "nt": False, "excluded": [], "runs": 0}  # type: Dict[str, Any]
    kind = case["kind"]
    target = case["target"]
    d = sut.fresh_dir(base, "c03")
    try:
        if kind == "joint" and "op" in case:
            _joint(case, d, res)
        else:
            try:
                rc, out, err, od, mp = run_inprocess(case, case["text"], d, "x")
                res["runs"] += 1
                res["fails"].extend(judge("execute", rc, out, err, od))
                stage = stage_of(rc, err)
                res["classes"] += [f"outcome:{stage}", f"{target}:{'ok' if rc == 0 else 'reported'}"]
                if rc != 0:
                    res["nt"] = True
                    res["classes"].append("shape:headline+bullets" if g.headline(err).endswith(":") else "shape:one-line")
            except Escaped as e:
                res["excluded"].append(f"exception-escaped:{e.bucket}")
                res["classes"].append("outcome:exception-escaped")
                rc = None
            if cli and rc is not None:
                for module in (False, True):
                    where = "cli-module" if module else "cli-script"
                    try:
                        crc, cout, cerr, cod = run_cli(case, case["text"], d, "m" if module else "s", module)
                    except Escaped as e:
                        res["excluded"].append(f"{where}:exception-escaped:{e.bucket}")
                        continue
                    res["runs"] += 1
                    res["classes"].append(f"{where}:{'ok' if crc == 0 else 'status-' + str(crc)}")
                    res["fails"].extend(judge(where, crc, cout, cerr, cod))
                    # the process status must tell the same as the in-process status
                    if (crc == 0) != (rc == 0) and not (crc == 0 and cerr != ""):
                        res["fails"].append((f"{where}:status-differs-from-execute", f"execute rc={rc}, process status={crc} stderr={cerr[:300]!r}"))
    finally:
        shutil.rmtree(d, ignore_errors=True)
    return res


def _norm(err: str, mp: pathlib.Path) -> str:
    return err.replace(str(mp), "<model>")


def _joint(case: Dict[str, Any], d: pathlib.Path, res: Dict[str, Any]) -> None:
    op = g.OPS_BY_NAME.get(case.get("op"))
    if op is None:
        return
    op2 = g.OPS_BY_NAME.get(case.get("op2")) if case.get("op2") else op
    if op2 is None:
        return
    crossed = op2 is not op
    try:
        src = g.Src(case["text"])
        t1 = op.apply(src, case["s1"])
        t2 = op2.apply(src, case["s2"])
        t12 = op2.apply(g.Src(t1), case["s2"]) if t1 is not None else None
    except (SyntaxError, ValueError, IndexError, KeyError, TypeError, AttributeError):
        res["classes"].append("joint:inapplicable")
        return
    if crossed:
        indep = (op.where in CROSS_STAGE and op2.where in CROSS_STAGE
                 and frozenset((op.where, op2.where)) not in CROSS_DEPENDENT and case["s1"][0] != case["s2"][0])
    else:
        indep = g.independent(op, case["s1"], case["s2"])
    if t1 is None or t2 is None or t12 is None or not indep:
        res["classes"].append("joint:inapplicable")
        return
    errs = []
    for tag, text in (("e1", t1), ("e2", t2), ("e12", t12)):
        try:
            rc, out, err, od, mp = run_inprocess(case, text, d, tag)
        except Escaped as e:
            res["excluded"].append(f"exception-escaped:{e.bucket}")
            res["classes"].append("joint:exception-escaped")
            return
        res["runs"] += 1
        res["fails"].extend(judge("execute", rc, out, err, od))
        errs.append((rc, _norm(err, mp)))
    (rc1, e1), (rc2, e2), (rc12, e12) = errs
    res["classes"].append(f"op:{op.name}")
    if rc1 == 0 or rc2 == 0 or e1 == "" or e2 == "":
        res["classes"].append("joint:single-mutant-accepted")
        return
    if g.headline(e1) != g.headline(e2):
        res["classes"].append("joint:headlines-differ")
        return
    # the single-mutant reports must consist of the operator's own kind of error only (same collecting loop);
    # a mutation that also trips another check (side effect in a dependent entity) is not judged
    for e, site, o in ((e1, case["s1"], op), (e2, case["s2"], op2)):
        if not all(o.needle(site) in leaf for leaf in g.leaves(e)):
            res["classes"].append("joint:side-effects")
            return
    res["nt"] = True
    res["classes"].append("joint:judged")
    if crossed:
        res["classes"].append("joint:judged:cross-operator")
    if rc12 == 0:
        res["fails"].append((f"error-dropped@{op.where}", f"op={op.name}: both single mutants are rejected, the joint mutant is ACCEPTED"))
        return
    need = collections.Counter(g.leaves(e1)) + collections.Counter(g.leaves(e2))
    have = collections.Counter(g.leaves(e12))
    missing = need - have
    if missing:
        where = op.where if not crossed else "cross:" + "+".join(sorted((op.where.split(".")[-1], op2.where.split(".")[-1])))
        res["fails"].append((
            f"error-dropped@{where}",
            f"op={op.name} op2={op2.name} sites={case['s1']},{case['s2']}\nmissing from the joint report: {sorted(missing.elements())!r}\n"
            f"--- report(m(e1)):\n{e1}\n--- report(m(e2)):\n{e2}\n--- report(joint):\n{e12}"))


# ---------------------------------------------------------------------------
# Shard / replay / health
# ---------------------------------------------------------------------------


def shard(ctx: runner.Ctx) -> None:
    n = ctx.n(1_600, 60_000)
    counter = {"i": 0, "pending": 0}

    def one(case: Dict[str, Any]) -> None:
        counter["i"] += 1
        if counter["i"] % SUBPROCESS_EVERY == 7:
            counter["pending"] += 1
        # the next single-run case after every 50th (first: the 7th) is repeated through the real CLIs
        cli = counter["pending"] > 0 and not (case["kind"] == "joint" and "op" in case)
        if cli:
            counter["pending"] -= 1
        res = evaluate(case, ctx.scratch, cli)
        for reason in res["excluded"]:
            ctx.exclude(reason)
        key = [case["kind"], case["target"], case["text"], case.get("fault"), case.get("deficient"),
               case.get("op"), case.get("s1"), case.get("s2")]
        sample = {k: case[k] for k in ("kind", "target", "fault", "deficient", "mutations", "op", "s1", "s2") if k in case}
        sample["classes"] = res["classes"]
        ctx.case(res["nt"], key=key, sample=sample,
                 classes=[f"kind:{case['kind']}"] + res["classes"] + (["via-cli"] if cli else []))
        ctx.notes["runs"] = ctx.notes.get("runs", 0) + res["runs"]
        if cli:
            ctx.notes["subprocess_cases"] = ctx.notes.get("subprocess_cases", 0) + 1
        for b, m in res["fails"]:
            ctx.fail(b, dict(case, cli=cli), m)

    runner.hyp_run(cases(), one, n, ctx.seed)


def replay(case: Any) -> List[Tuple[str, str]]:
    if not isinstance(case, dict) or not isinstance(case.get("text"), str):
        return []
    if case.get("kind") not in ("accepted", "deficient", "mutated", "paths", "joint", "method") or case.get("target") not in sut.TARGETS:
        return []
    c = dict(case)
    d = c.get("deficient")
    if d is not None and not (isinstance(d, (list, tuple)) and len(d) == 2 and d[0] in DEFICIENCIES and isinstance(d[1], int)):
        c["deficient"] = None
    if c.get("fault") is not None and c["fault"] not in PATH_FAULTS:
        c["fault"] = None
    if c["kind"] == "joint":
        ok = (isinstance(c.get("op"), str) and isinstance(c.get("s1"), list) and isinstance(c.get("s2"), list)
              and all(isinstance(x, (str, int)) for x in c["s1"] + c["s2"]) and c["s1"] and c["s2"])
        if not ok:
            return []
    base = runner.make_scratch("c03-replay")
    try:
        res = evaluate(c, base, bool(c.get("cli")))
    except (SyntaxError, ValueError, IndexError, KeyError, TypeError, AttributeError):
        return []
    finally:
        shutil.rmtree(base, ignore_errors=True)
    return res["fails"]


def health(m: Any, tier: str) -> Any:
    ev = max(1, m["evaluations"])
    cl = m["classes"]
    if m["nontrivial_n"] < 0.3 * ev:
        return f"only {m['nontrivial_n']} non-trivial of {ev}"
    if cl.get("joint:judged", 0) < 0.08 * ev:
        return f"only {cl.get('joint:judged', 0)} judged joint cases of {ev}"
    for k in ("outcome:ok", "outcome:parse", "outcome:translate", "outcome:path"):
        if cl.get(k, 0) < 0.02 * ev:
            return f"class {k} holds only {cl.get(k, 0)} of {ev}"
    if m["notes"].get("subprocess_cases", 0) < 0.008 * ev:
        return f"only {m['notes'].get('subprocess_cases', 0)} subprocess cases"
    return None


if __name__ == "__main__":
    runner.main(sys.modules[__name__])
