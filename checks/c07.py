"""C07 — Type-checked invariants cannot fail at run time."""
from __future__ import annotations

import re
import sys
from typing import Any, Dict, List, Tuple

from hypothesis import strategies as st

from vlib import instgen, mmgen, refmodel, runner, sut

PID = "C07"
RULE = (
    "Hypothesis: meta-models whose invariants come from the typed grammar of vlib.invgen with the Optional dimension "
    "randomised (unsafe_optional=0.5: guards dropped, placed after the use, turned into 'is None and ...', or disjoined "
    "instead of conjoined) plus a second family mixing operand kinds (len of an int, ordering comparison of str with int, "
    "arithmetic on str, member access on a primitive, comparison of an Optional without guard, index on a non-list). An "
    "invariant counts as 'accepted' when run.load_model accepts the model AND intermediate.type_inference."
    "infer_for_invariant (what every generator runs before emitting code) returns no error for it. Oracle: for every "
    "accepted invariant and 30 (quick) / 80 (thorough) type-conforming reference instances (None wherever Optional "
    "allows, empty lists/strings) evaluating the ORIGINAL lambda (meta-model executed as Python) returns a bool and raises "
    "nothing but IndexError. Non-trivial = accepted invariant that mentions an Optional property evaluated on an "
    "instance where that property is None; distinct by (invariant body, instance)."
)
ASSUMPTIONS = [
    "'the front end accepts' includes the type inference that every generator and the smoke tool run on each invariant; "
    "load_model alone does not type-check invariants",
    "instances are built from the declared property types only (invariants are NOT required to hold)",
    "buckets of the operand-kind family are separate from the Optional family",
]

N_INST_QUICK = 30
N_INST_THOROUGH = 80


def opts() -> mmgen.Opts:
    return mmgen.Opts(max_classes=4, max_props=4, max_invs=4, invariants="general", docs="none", unsafe_optional=0.5)


MIX_TEMPLATES = [
    ("int", "len(self.{p}) > 0"), ("int", "self.{p}.unknown_member == 1"), ("int", "self.{p}[0] == 1"),
    ("str", "self.{p} > 3"), ("str", "self.{p} + 1 > 2"), ("str", "self.{p} - 1 > 2"), ("str", "self.{p} < 1.5"),
    ("str", "self.{p}.x == 1"), ("bool", "len(self.{p}) == 1"), ("float", "len(self.{p}) == 1"),
    ("float", "self.{p} + 1 > 2.0"), ("int", "self.{p} + 1.5 > 2.0"), ("str", "all(c == 'a' for c in self.{p})"),
    ("int", "all(c == 1 for c in self.{p})"), ("int", "self.{p} in Some_unknown_set"), ("str", "self.{p}(1)"),
    ("int", "not self.{p}"), ("str", "self.{p} and True"), ("int", "self.{p} or True"), ("str", "self.{p} is None"),
    ("int", "self.{p} is not None"), ("str", "any(x > 0 for x in range(0, self.{p}))"),
    ("str", "any(x > 0 for x in range(self.{p}, 3))"), ("int", "any(x > 0 for x in range(0, self.{p}))"),
]


@st.composite
def cases(draw: Any, n_inst: int) -> Dict[str, Any]:
    spec = draw(mmgen.specs(opts()))
    used = {i.desc for c in spec.classes for i in c.invs} | {i.desc for c in spec.cps for i in c.invs}
    k = 0
    for c in spec.classes:
        props = spec.all_props(c.name)
        for p in props:
            if draw(st.integers(0, 3)) != 0:
                continue
            core = p.type.core
            prim = core.name if core.kind == "prim" else None
            cands = [t for want, t in MIX_TEMPLATES if want == prim]
            if p.type.optional:
                # Optional used bare in a comparison / call
                cands = cands + ["self.{p} == self.{p}", "self.{p} != None"] if prim else []
            if not cands:
                continue
            body = cands[draw(st.integers(0, len(cands) - 1))].format(p=p.name)
            k += 1
            desc = f"Mixed kinds {k}"
            while desc in used:
                k += 1
                desc = f"Mixed kinds {k}"
            used.add(desc)
            c.invs.append(mmgen.Inv(body, desc, {"form": "mix", "optional": p.type.optional}))
    ig = instgen.InstGen(spec, max_depth=2, max_list=2)
    insts = draw(st.lists(ig.any_instance(), min_size=n_inst, max_size=n_inst))
    return {"spec": spec.to_json(), "instances": insts}


def accepted_invariants(symbol_table: Any) -> Tuple[Dict[str, bool], List[Tuple[str, str]]]:
    """description -> accepted by infer_for_invariant; plus crashes of the inferrer (reported under C01's domain)."""
    from aas_core_codegen.common import Identifier
    from aas_core_codegen.intermediate import type_inference as ti

    out = {}  # type: Dict[str, bool]
    crashes = []  # type: List[Tuple[str, str]]
    base_env = ti.populate_base_environment(symbol_table)
    for our_type in symbol_table.our_types:
        invs = getattr(our_type, "invariants", None)
        if invs is None:
            continue
        env = ti.MutableEnvironment(parent=base_env)
        env.set(identifier=Identifier("self"), type_annotation=ti.OurTypeAnnotation(our_type=our_type))
        for inv in invs:
            if inv.specified_for is not our_type:
                continue
            try:
                _, err = ti.infer_for_invariant(inv, env)
                out[inv.description] = err is None
            except BaseException as e:  # noqa
                crashes.append((f"inferrer-crash:{runner.exc_bucket(e)}", runner.exc_text(e)))
                out[inv.description] = False
    return out, crashes


def cause_of(e: BaseException) -> str:
    """Root-cause class of a run-time failure of an accepted invariant (normalised message)."""
    msg = str(e)
    name = type(e).__name__
    m = re.search(r"object of type '(\w+)' has no len\(\)", msg)
    if m:
        return "None-passed-to-len" if m.group(1) == "NoneType" else f"len-of-{m.group(1)}"
    m = re.search(r"'(\S+)' not supported between instances of '(\w+)' and '(\w+)'", msg)
    if m:
        a, b = m.group(2), m.group(3)
        if "NoneType" in (a, b):
            return "ordering-comparison-with-None"
        return f"ordering-comparison-{a}-with-{b}"
    if "expected string or bytes-like object" in msg:
        return "None-passed-to-pattern-function" if "NoneType" in msg else "non-string-passed-to-pattern-function"
    m = re.search(r"'NoneType' object has no attribute", msg)
    if m:
        return "member-of-None"
    m = re.search(r"'NoneType' object is not (iterable|subscriptable|callable)", msg)
    if m:
        return f"None-{m.group(1)}"
    m = re.search(r"unsupported operand type\(s\) for (\S+): '(\w+)' and '(\w+)'", msg)
    if m:
        return f"arithmetic-{m.group(2)}-{m.group(1)}-{m.group(3)}"
    m = re.search(r"argument of type '(\w+)' is not iterable", msg)
    if m:
        return f"membership-in-{m.group(1)}"
    return f"{name}:{re.sub(r'[^A-Za-z ]+', '_', msg)[:50]}"


def none_call_argument(body: str, ref: Any) -> bool:
    """Some call ``f(self.a.b)`` in the invariant receives None on this instance."""
    for m in re.finditer(r"\b\w+\((self(?:\.\w+)+)\)", body):
        cur = ref
        try:
            for part in m.group(1).split(".")[1:]:
                cur = getattr(cur, part)
        except AttributeError:
            continue
        if cur is None:
            return True
    return False


def opt_paths_none(body: str, neutral: Any) -> bool:
    """Some ``self.x`` mentioned in the body is None in the (root) instance."""
    for m in re.finditer(r"self\.(\w+)", body):
        if m.group(1) in neutral["props"] and neutral["props"][m.group(1)] is None:
            return True
    return False


def evaluate(case: Dict[str, Any], base: Any, ctx: Any = None) -> List[Tuple[str, str]]:
    fails = []  # type: List[Tuple[str, str]]
    spec = mmgen.Spec.from_json(case["spec"])
    text = mmgen.render(spec)
    try:
        symtab, _, err = sut.load_text(text, base)
    except BaseException:  # noqa: front-end crash: C01
        if ctx is not None:
            ctx.exclude("front-end-crash")
        return []
    if err is not None:
        if ctx is not None:
            ctx.exclude("rejected-by-load_model")
        return []
    acc, crashes = accepted_invariants(symtab)
    if ctx is not None:
        for b, m in crashes:
            ctx.exclude(b)
    try:
        rm = refmodel.load(text)
    except BaseException as e:  # noqa
        if ctx is not None:
            ctx.exclude(f"reference-exec-failed:{type(e).__name__}")
        return []
    by_cls = {}  # type: Dict[str, List[Any]]
    for c in spec.classes:
        for i in c.invs:
            by_cls.setdefault(c.name, []).append(i)
    if ctx is not None:
        for c in spec.classes:
            for i in c.invs:
                fam = i.tags.get("form", "general")
                ctx.classes[f"{fam}:{'accepted' if acc.get(i.desc) else 'rejected'}"] += 1
    for neutral in case["instances"]:
        cname = neutral["cls"]
        try:
            ref = refmodel.to_ref(spec, rm, neutral)
        except BaseException:  # noqa
            continue
        for k in [cname] + spec.ancestors(cname):
            for inv in by_cls.get(k, []):
                if not acc.get(inv.desc):
                    continue
                cond = next((c for c, d in rm.invs.get(k, []) if d == inv.desc), None)
                if cond is None:
                    continue
                nt = bool(re.search(r" is (not )?None", inv.body) or inv.tags.get("optional")) and opt_paths_none(inv.body, neutral)
                if ctx is not None:
                    ctx.case(nt, key=[inv.body, neutral], sample={"invariant": inv.body, "instance": neutral},
                             classes=["evaluation"])
                try:
                    r = cond(ref)
                except IndexError:
                    continue
                except BaseException as e:  # noqa
                    cause = cause_of(e)
                    import traceback as _tb

                    inside_fn = any(fr.name in rm.fns for fr in _tb.extract_tb(e.__traceback__))
                    if not cause.startswith("None-passed-to") and "NoneType" in str(e) and (
                            inside_fn or none_call_argument(inv.body, ref)):
                        # the failure happens inside the called function, the root cause is the None argument
                        cause = "None-passed-to-call-argument"
                    fails.append((f"accepted-invariant-raises:{cause}",
                                  f"invariant={inv.body!r}\ninstance={neutral!r}\n{type(e).__name__}: {e}"))
                    continue
                if not isinstance(r, bool):
                    fails.append((f"accepted-invariant-not-bool:{type(r).__name__}-operand-in-boolean-expression",
                                  f"invariant={inv.body!r}\ninstance={neutral!r}\nresult={r!r}"))
    return fails


def shard(ctx: runner.Ctx) -> None:
    n = ctx.n(400, 30_000)
    n_inst = N_INST_QUICK if ctx.quick else N_INST_THOROUGH

    def one(case: Dict[str, Any]) -> None:
        ctx.classes["models"] += 1
        for b, m in evaluate(case, ctx.scratch, ctx):
            ctx.fail(b, case, m)

    runner.hyp_run(cases(n_inst), one, n, ctx.seed)


def replay(case: Any) -> List[Tuple[str, str]]:
    if not isinstance(case, dict) or "spec" not in case:
        return []
    import shutil

    base = runner.make_scratch("c07-replay")
    try:
        case = dict(case)
        case.setdefault("instances", [])
        return evaluate(case, base, None)
    except (KeyError, TypeError, AttributeError, IndexError, AssertionError, StopIteration, ValueError):
        return []
    finally:
        shutil.rmtree(base, ignore_errors=True)


def health(m: Any, tier: str) -> Any:
    cl = m["classes"]
    acc = cl.get("general:accepted", 0)
    rej = cl.get("general:rejected", 0)
    if acc + rej == 0 or acc < 0.15 * (acc + rej) or rej < 0.15 * (acc + rej):
        return f"Optional family unbalanced: accepted={acc} rejected={rej}"
    return None


if __name__ == "__main__":
    runner.main(sys.modules[__name__])
