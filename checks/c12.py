"""C12 — JSON Schema enforces every inferred constraint."""
from __future__ import annotations

import base64
import copy
import json
import re
import shutil
import sys
from typing import Any, Dict, List, Optional, Tuple

from vlib import mmgen, runner, schemakit
from checks import c11

PID = "C12"
RULE = (
    "Same models, SDK documents and validator as C11 (only documents of invariant-satisfying instances that validate are "
    "used). Each document receives ONE violating edit chosen by the harness from the spec (not from the schema): a string / "
    "list one shorter than its recognised minimum or one longer than its maximum, a string outside a recognised pattern "
    "(confirmed non-matching with Python re), for constraints declared on the value's own class, an ancestor, or a "
    "constrained primitive used as value or as list item; or a structural edit: missing required property, wrong JSON "
    "type, wrong / missing modelType where the class carries one. Oracle: the edited document is INVALID under "
    "#/definitions/<ModelType>. Excluded and counted, as the property says: byte-array length edits (base64 text length "
    "cannot express them). Non-trivial = constraint edit (length/pattern) whose constraint is declared in an ancestor or a "
    "constrained primitive, or any constraint edit on a nested value; distinct by (model, document, edit)."
)
ASSUMPTIONS = c11.ASSUMPTIONS + [
    "tightenings by a descendant on the items of an inherited list are not generated (class invariants of the generator "
    "constrain properties, item constraints come from constrained primitives only)",
]

cases = c11.cases
opts = c11.opts


def positions(spec: Any, prop_refs: Any, cp_refs: Any, neutral: Any, path: Tuple[Any, ...] = ()) -> List[Dict[str, Any]]:
    """All constrained values of the instance with their JSON path and reference constraint."""
    out = []  # type: List[Dict[str, Any]]
    cname = neutral["cls"]
    for pr in spec.all_props(cname):
        v = neutral["props"].get(pr.name)
        jp = path + (schemakit.json_prop(pr.name),)
        if v is None:
            continue
        core = pr.type.core
        r = prop_refs[(cname, pr.name)]
        if not r.empty():
            out.append({"path": jp, "ref": r, "type": core, "value": v, "nested": len(path) > 0,
                        "inherited": any(k != cname for k in r.declaring)})
        if core.kind == "list":
            item = core.item
            if item.kind == "cp" and not cp_refs[item.name].empty():
                for i, x in enumerate(v):
                    out.append({"path": jp + (i,), "ref": cp_refs[item.name], "type": item, "value": x, "nested": True,
                                "inherited": True})
            if item.kind == "class":
                for i, x in enumerate(v):
                    out.extend(positions(spec, prop_refs, cp_refs, x, jp + (i,)))
        elif core.kind == "class":
            out.extend(positions(spec, prop_refs, cp_refs, v, jp))
    return out


def _set(doc: Any, path: Tuple[Any, ...], val: Any) -> Any:
    doc = copy.deepcopy(doc)
    cur = doc
    for p in path[:-1]:
        cur = cur[p]
    cur[path[-1]] = val
    return doc


def _get(doc: Any, path: Tuple[Any, ...]) -> Any:
    for p in path:
        doc = doc[p]
    return doc


def constraint_edit(spec: Any, pos: Dict[str, Any], doc: Any, a: int) -> Optional[List[Tuple[str, Any]]]:
    r = pos["ref"]
    t = pos["type"]
    kind = t.name if t.kind == "prim" else (spec.cp_prim(t.name) if t.kind == "cp" else t.kind)
    cur = _get(doc, pos["path"])
    options = []  # type: List[Tuple[str, Any]]
    lo, hi = r.len_range()
    if r.len and kind == "str":
        if lo >= 1:
            options.append(("string-shorter-than-min", "a" * (lo - 1) if not r.patterns else cur[: lo - 1]))
        if hi is not None:
            options.append(("string-longer-than-max", (cur + "a" * (hi + 1))[: hi + 1] if cur else "a" * (hi + 1)))
    if r.len and kind == "list":
        if lo >= 1:
            options.append(("list-shorter-than-min", cur[: lo - 1]))
        if hi is not None and cur:
            options.append(("list-longer-than-max", (cur * (hi + 2))[: hi + 1]))
    if r.len and kind == "bytearray":
        return [("excluded:bytes-length", None)]
    if r.patterns and kind == "str":
        # per pattern (at most 3): violate THAT pattern, keeping the other constraints satisfied where the pool allows it
        pool = list(schemakit.GENERIC) + [cur + "!", "!" + cur, cur.upper(), cur + cur, "\u0001"]
        for f in spec.fns:
            pool += list(f.examples)
        for k in range(min(3, len(r.patterns))):
            i = (a + k) % len(r.patterns)
            target = r.patterns[i]
            others = [p for j, p in enumerate(r.patterns) if j != i]
            exact = [c for c in pool if re.match(target, c) is None and all(re.match(p, c) for p in others)
                     and (not r.len or lo <= len(c) <= (hi if hi is not None else 10 ** 9))]
            loose = [c for c in pool if re.match(target, c) is None]
            if exact:
                options.append((f"string-outside-pattern-{min(i, 2)}-of-{min(len(r.patterns), 3)}", exact[a % len(exact)]))
            elif loose and k == 0:
                options.append(("string-outside-pattern", loose[a % len(loose)]))
    if not options:
        return None
    # every edit of the position is applied (each to its own copy of the document): validation is cheap
    sb = several_bounds(r)
    return [(name + ":several-bounds" if (sb and "than-m" in name) else name, _set(doc, pos["path"], val)) for name, val in options]


def several_bounds(r: Any) -> bool:
    return (len({mx for _, mx, _ in r.len if mx is not None}) > 1) or (len({mn for mn, _, _ in r.len if mn is not None}) > 1)


def structural_edit(spec: Any, neutral: Any, doc: Any, a: int, b: int) -> Optional[Tuple[str, Any]]:
    cname = neutral["cls"]
    req = [schemakit.json_prop(p.name) for p in spec.all_props(cname) if not p.type.optional]
    kind = b % 4
    if kind == 0 and req:
        k = req[a % len(req)]
        d = copy.deepcopy(doc)
        d.pop(k, None)
        return "missing-required-property", d
    if kind == 1 and doc:
        keys = [k for k in doc if k != "modelType"]
        if not keys:
            return None
        k = keys[a % len(keys)]
        v = doc[k]
        if isinstance(v, bool):
            nv = "true"  # type: Any
        elif isinstance(v, (int, float)):
            nv = str(v)
        elif isinstance(v, str):
            nv = 12
        elif isinstance(v, list):
            nv = {"x": 1}
        else:
            nv = [1]
        return "mistyped-value", _set(doc, (k,), nv)
    if kind == 2 and "modelType" in doc:
        return "wrong-modelType", _set(doc, ("modelType",), "NoSuchType")
    if kind == 3 and "modelType" in doc:
        d = copy.deepcopy(doc)
        del d["modelType"]
        return "missing-modelType", d
    return None


def evaluate(case: Dict[str, Any], base: Any, ctx: Any = None) -> List[Tuple[str, str]]:
    fails = []  # type: List[Tuple[str, str]]
    ignore = []  # type: List[Tuple[str, str]]
    p = c11.prepare(case, base, ctx, ignore)
    if p is None:
        return fails
    with p.sdk:
        spec = p.spec
        cp_refs, prop_refs = schemakit.build_refs(spec)
        defs = p.schema.get("definitions", {})
        edits = list(case.get("edits") or [])
        for idx, (neutral, x, doc) in enumerate(p.docs):
            tdef = schemakit.model_type(neutral["cls"])
            if tdef not in defs:
                continue
            try:
                v = schemakit.make_json_validator(p.schema, tdef)
                if not v.is_valid(doc):
                    if ctx is not None:
                        ctx.exclude("unedited-document-invalid(C11)")
                    continue
            except BaseException:  # noqa
                continue
            a, b = edits[idx % len(edits)] if edits else (0, 0)
            todo = []  # type: List[Tuple[str, Any, bool]]
            pos = positions(spec, prop_refs, cp_refs, neutral)
            for k in range(min(6, len(pos))):
                ps = pos[(a + k) % len(pos)]
                for ce in constraint_edit(spec, ps, doc, b + k) or []:
                    if ce[1] is None:
                        if ctx is not None:
                            ctx.exclude(ce[0])
                    else:
                        todo.append((ce[0] + (":inherited-or-primitive" if ps["inherited"] else ":own-class"), ce[1],
                                     ps["inherited"] or ps["nested"]))
            se = structural_edit(spec, neutral, doc, a, b)
            if se is not None:
                todo.append((se[0], se[1], False))
            for name, edited, nt in todo:
                if ctx is not None:
                    ctx.case(nt, key=[p.text, doc, name], sample={"edit": name, "edited": edited, "original": doc},
                             classes=[f"edit:{name}"])
                try:
                    still_valid = v.is_valid(edited)
                except BaseException as e:  # noqa
                    fails.append((f"validator-raises:{type(e).__name__}", runner.exc_text(e)))
                    continue
                if still_valid:
                    if name == "missing-modelType" and not spec.ancestors(neutral["cls"]):
                        name = "missing-modelType:class-without-ancestors"
                    fails.append((f"violating-edit-accepted:{name}",
                                  f"definition={tdef}\nedited={json.dumps(edited)[:700]}\noriginal={json.dumps(doc)[:700]}\n"
                                  f"instance={neutral!r}\n{p.text[-1800:]}"))
    return fails


def shard(ctx: runner.Ctx) -> None:
    n = ctx.n(400, 30_000)
    n_inst = c11.N_INST_QUICK if ctx.quick else c11.N_INST_THOROUGH

    def one(case: Dict[str, Any]) -> None:
        ctx.classes["models"] += 1
        for b, m in evaluate(case, ctx.scratch, ctx):
            ctx.fail(b, case, m)

    runner.hyp_run(cases(n_inst), one, n, ctx.seed)


def replay(case: Any) -> List[Tuple[str, str]]:
    if not isinstance(case, dict) or "spec" not in case:
        return []
    base = runner.make_scratch("c12-replay")
    try:
        case = dict(case)
        case.setdefault("instances", [])
        case.setdefault("edits", [])
        return evaluate(case, base, None)
    except (KeyError, TypeError, AttributeError, IndexError, AssertionError, StopIteration, ValueError):
        return []
    finally:
        shutil.rmtree(base, ignore_errors=True)


def health(m: Any, tier: str) -> Any:
    edits = sum(v for k, v in m["classes"].items() if k.startswith("edit:"))
    cons = sum(v for k, v in m["classes"].items() if k.startswith("edit:string") or k.startswith("edit:list"))
    if edits < m["classes"].get("models", 0):
        return f"only {edits} edits; excluded={m['excluded']}"
    if cons < 0.1 * edits:
        return f"only {cons} constraint edits of {edits}"
    return None


if __name__ == "__main__":
    runner.main(sys.modules[__name__])
