"""
Cooperative scheduler + crash injector for file-system protocols (C24).

The harness *owns the schedule*: N callables run in N threads under a baton, so that exactly one
runs at a time. Wrapped file-system operations on paths inside a watched directory are **yield
points**: the thread parks *before* the operation and the scheduler decides which parked thread
performs its next operation, or **crashes** a thread (as after SIGKILL: the pending operation and
every later file-system effect of that thread do not happen; ``finally`` blocks and ``with``
exits unwind, but through wrappers that have become no-ops; data still sitting in the user-space
buffer of an open file is lost, so a file can be left partial).

Wrapped (from the outside, nothing in the code under test changes):
``pathlib.Path.exists/open/mkdir/rename/replace/unlink`` on watched paths, the file object returned
by ``open('wb')`` (own user-space buffer: the first half of each of the first two ``write`` calls
reaches the disk at once, the rest at ``flush``/``close``; ``write``, ``flush`` and ``close`` are yield
points), and a ``pickle`` shim (``load`` is a yield point that reports the bytes it reads).

A *history* is identified by the list of option indexes chosen at every step (``choices``); the
option list at a step is deterministic: ``("run", tid)`` for every parked thread in ascending order,
then ``("crash", tid)`` for the thread that made the previous step (if the crash budget allows).
Offering the crash only right after the thread's own step removes histories that differ only in
where the (effect-free) death is placed among the other threads' steps.
"""
from __future__ import annotations

import io
import os
import pathlib
import pickle as _real_pickle
import threading
from typing import Any, Callable, Dict, List, Optional, Sequence, Tuple


class Crash(BaseException):
    """Injected death of a thread (never caught by ``except Exception``)."""


RUN, NOOP, PASS = "run", "noop", "pass"


class _T:
    def __init__(self, tid: int) -> None:
        self.tid = tid
        self.sem = threading.Semaphore(0)
        self.parked = False
        self.finished = False
        self.crashed = False
        self.crash_pending = False
        self.label = ""
        self.outcome = None  # type: Optional[Tuple[Any, ...]]
        self.steps = 0


class SchedulerStuck(Exception):
    pass


class _Pool:
    """Persistent worker threads (creating threads per history is the dominant cost otherwise)."""

    def __init__(self) -> None:
        self.workers = []  # type: List[Tuple[threading.Semaphore, List[Any]]]

    def submit(self, i: int, job: Callable[[], None]) -> None:
        while len(self.workers) <= i:
            sem = threading.Semaphore(0)
            slot = [None]  # type: List[Any]
            th = threading.Thread(target=self._loop, args=(sem, slot), daemon=True)
            self.workers.append((sem, slot))
            th.start()
        sem, slot = self.workers[i]
        slot[0] = job
        sem.release()

    @staticmethod
    def _loop(sem: threading.Semaphore, slot: List[Any]) -> None:
        while True:
            sem.acquire()
            job, slot[0] = slot[0], None
            if job is not None:
                job()


_POOL = _Pool()


class Scheduler:
    """
    Runs ``fns`` under a baton following ``choose``; collects the trace.

    The baton is passed directly between the workers: the thread that reaches a yield point (or
    finishes) evaluates the next choice itself and only blocks when another thread is chosen, so a
    run of consecutive steps of one thread costs no context switch.
    """

    def __init__(self, choose: Callable[[List[Tuple[str, int]]], int], max_crashes: int = 1,
                 timeout: float = 120.0) -> None:
        self.choose = choose
        self.max_crashes = max_crashes
        self.timeout = timeout
        self._tls = threading.local()
        self._main = threading.Semaphore(0)
        self.threads = []  # type: List[_T]
        self.active = False
        self._starting = True
        self._crashes = 0
        self.trace = []  # type: List[Tuple[int, str, str]]  (tid, label, action)
        self.choices = []  # type: List[Tuple[int, int]]  (number of options, chosen index)
        self.events = []  # type: List[Tuple[Any, ...]]  free-form observations of the wrappers
        self.error = None  # type: Optional[BaseException]
        #: called as on_park(tid, steps_done, label) when a thread reaches a yield point, i.e. right after its
        #: previous operation took effect and before anything else is scheduled (used to stage external events)
        self.on_park = None  # type: Optional[Callable[[int, int, str], None]]

    # ---- called from worker threads ----
    def current(self) -> Optional[int]:
        return getattr(self._tls, "tid", None) if self.active else None

    def is_crashed(self) -> bool:
        tid = self.current()
        return tid is not None and self.threads[tid].crashed

    def _dispatch(self, last: Optional[int]) -> Optional[Tuple[str, int]]:
        """Choose the next action; returns it, or None when nothing is parked (history over)."""
        parked = [t.tid for t in self.threads if t.parked and not t.finished]
        if not parked:
            return None
        options = [("run", tid) for tid in parked]  # type: List[Tuple[str, int]]
        if self._crashes < self.max_crashes and last is not None and last in parked:
            options.append(("crash", last))
        idx = self.choose(options)
        if not isinstance(idx, int) or isinstance(idx, bool):
            idx = 0
        idx %= len(options)
        self.choices.append((len(options), idx))
        action, tid = options[idx]
        self.trace.append((tid, self.threads[tid].label, action))
        if action == "crash":
            self._crashes += 1
        return action, tid

    def _hand_over(self, me: Optional[int], last: Optional[int]) -> Optional[str]:
        """Decide and pass the baton. Returns the action if ``me`` itself was chosen."""
        try:
            nxt = self._dispatch(last)
        except BaseException as e:  # noqa: a broken chooser must not dead-lock the harness
            self.error = e
            nxt = None
        if nxt is None:
            self._main.release()
            return None
        action, tid = nxt
        if tid == me:
            return action
        t = self.threads[tid]
        if action == "crash":
            t.crash_pending = True
        t.sem.release()
        return None

    def point(self, label: str) -> str:
        tid = self.current()
        if tid is None:
            return PASS
        t = self.threads[tid]
        if t.crashed:
            return NOOP
        t.label = label
        if self.on_park is not None:
            self._tls.tid = None  # the callback's own file operations are not yield points
            try:
                self.on_park(tid, t.steps, label)
            finally:
                self._tls.tid = tid
        t.parked = True
        if self._starting:
            self._main.release()
            mine = None
        else:
            mine = self._hand_over(tid, tid)
        if mine is None:
            t.sem.acquire()
            mine = "crash" if t.crash_pending else "run"
        t.parked = False
        t.crash_pending = False
        if mine == "crash":
            t.crashed = True
            raise Crash()
        t.steps += 1
        return RUN

    def note(self, *event: Any) -> None:
        self.events.append((self.current(),) + event)

    def _body(self, tid: int, fn: Callable[[], Any]) -> None:
        self._tls.tid = tid
        t = self.threads[tid]
        try:
            t.outcome = ("ok", fn())
        except Crash:
            t.outcome = ("crashed",)
        except BaseException as e:  # noqa
            t.outcome = ("raised", e)
        finally:
            t.finished = True
            t.parked = False
            self._tls.tid = None
            if self._starting:
                self._main.release()
            else:
                self._hand_over(None, tid)

    # ---- main thread ----
    def _wait(self) -> None:
        if not self._main.acquire(timeout=self.timeout):
            raise SchedulerStuck("a worker neither parked nor finished")

    def run(self, fns: Sequence[Callable[[], Any]]) -> List[Tuple[Any, ...]]:
        self.threads = [_T(i) for i in range(len(fns))]
        self.active = True
        self._starting = True
        try:
            for i, fn in enumerate(fns):
                _POOL.submit(i, (lambda i=i, fn=fn: self._body(i, fn)))
                self._wait()  # parked at its first yield point (or finished)
            self._starting = False
            self._hand_over(None, None)
            self._wait()  # released when nothing is parked any more
            if self.error is not None:
                raise self.error
            if not all(t.finished for t in self.threads):
                raise SchedulerStuck("history ended with unfinished threads")
        finally:
            self.active = False
        return [t.outcome or ("stuck",) for t in self.threads]


def prefix_chooser(prefix: Sequence[int]) -> Callable[[List[Tuple[str, int]]], int]:
    """Follow ``prefix`` (option indexes), then always option 0."""
    it = iter(list(prefix))

    def choose(options: List[Tuple[str, int]]) -> int:
        try:
            return int(next(it))
        except (StopIteration, TypeError, ValueError):
            return 0

    return choose


# ---------------------------------------------------------------------------
# wrappers
# ---------------------------------------------------------------------------


class WriterProxy:
    """File object for ``open('wb')`` with an explicit user-space buffer."""

    def __init__(self, raw: io.FileIO, sched: Scheduler, path: str) -> None:
        self.raw = raw
        self.sched = sched
        self.name = path
        self.buf = b""
        self.nwrites = 0
        self.total = b""
        self.closed = False

    def write(self, data: Any) -> int:
        data = bytes(data)
        self.nwrites += 1
        if self.nwrites <= 2:
            if self.sched.point("write") == NOOP:
                return len(data)
            k = len(data) // 2
            self.raw.write(self.buf + data[:k])
            self.buf = data[k:]
        else:
            if self.sched.is_crashed():
                return len(data)
            self.buf += data
        self.total += data
        return len(data)

    def flush(self) -> None:
        if self.closed or self.sched.point("flush") == NOOP:
            return
        self.raw.write(self.buf)
        self.buf = b""

    def close(self) -> None:
        if self.closed:
            return
        self.closed = True
        try:
            if self.sched.point("close") != NOOP:
                self.raw.write(self.buf)
                self.buf = b""
                self.sched.note("complete-write", self.name, self.total)
        finally:
            self.raw.close()

    def writable(self) -> bool:
        return True

    def fileno(self) -> int:
        return self.raw.fileno()

    def __enter__(self) -> "WriterProxy":
        return self

    def __exit__(self, *exc: Any) -> None:
        self.close()


class PickleShim:
    """Stands in for the ``pickle`` module inside the module under test."""

    def __init__(self, sched_ref: Callable[[], Optional[Scheduler]],
                 loads: Callable[[bytes], Any] = _real_pickle.loads) -> None:
        self._sched_ref = sched_ref
        self._loads = loads

    def load(self, fid: Any, *a: Any, **kw: Any) -> Any:
        sched = self._sched_ref()
        if sched is not None and sched.current() is not None:
            if sched.point("load") == NOOP:
                raise Crash()
            data = fid.read()
            sched.note("load", getattr(fid, "name", "?"), data)
            return self._loads(data)
        # outside a schedule (e.g. the "later run"): same decoder, so that it can be memoised by content
        return self._loads(fid.read())

    def dump(self, obj: Any, fid: Any, *a: Any, **kw: Any) -> None:
        _real_pickle.dump(obj, fid, *a, **kw)

    def __getattr__(self, name: str) -> Any:
        return getattr(_real_pickle, name)


class Hooks:
    """Context manager: patch ``pathlib.Path`` so that operations inside ``root`` are yield points."""

    def __init__(self, root: str) -> None:
        self.root = os.path.abspath(root).rstrip(os.sep) + os.sep
        self.sched = None  # type: Optional[Scheduler]
        self._orig = {}  # type: Dict[str, Any]

    def set_root(self, root: str) -> None:
        self.root = os.path.abspath(root).rstrip(os.sep) + os.sep

    def _tracked(self, path: Any) -> Optional[Scheduler]:
        s = self.sched
        if s is None or s.current() is None:
            return None
        p = os.path.abspath(os.fspath(path))
        if (p + os.sep).startswith(self.root):
            return s
        return None

    @staticmethod
    def kind(path: Any) -> str:
        name = os.path.basename(os.fspath(path))
        if name.endswith(".pickle"):
            return "entry"
        if name.endswith(".tmp"):
            return "tmp"
        return "dir"

    def __enter__(self) -> "Hooks":
        P = pathlib.Path
        hooks = self
        for name in ("exists", "open", "mkdir", "rename", "replace", "unlink"):
            self._orig[name] = getattr(P, name)
        orig = self._orig

        def exists(self: pathlib.Path, *a: Any, **kw: Any) -> bool:
            s = hooks._tracked(self)
            if s is not None and s.point(f"exists:{hooks.kind(self)}") == NOOP:
                return False
            return orig["exists"](self, *a, **kw)

        def open_(self: pathlib.Path, mode: str = "r", *a: Any, **kw: Any) -> Any:
            s = hooks._tracked(self)
            if s is None:
                return orig["open"](self, mode, *a, **kw)
            writing = any(c in mode for c in "wax+")
            if s.point(f"open-{'w' if writing else 'r'}:{hooks.kind(self)}") == NOOP:
                raise Crash()
            if writing and "b" in mode:
                raw = io.FileIO(os.fspath(self), mode.replace("b", ""))
                s.note("open-w", os.fspath(self))
                return WriterProxy(raw, s, os.fspath(self))
            return orig["open"](self, mode, *a, **kw)

        def mkdir(self: pathlib.Path, *a: Any, **kw: Any) -> None:
            s = hooks._tracked(self)
            if s is not None and s.point("mkdir") == NOOP:
                return None
            return orig["mkdir"](self, *a, **kw)

        def rename(self: pathlib.Path, target: Any) -> Any:
            s = hooks._tracked(self)
            if s is not None:
                if s.point(f"rename:{hooks.kind(self)}->{hooks.kind(target)}") == NOOP:
                    return target
                s.note("rename", os.fspath(self), os.fspath(target))
            return orig["rename"](self, target)

        def replace(self: pathlib.Path, target: Any) -> Any:
            s = hooks._tracked(self)
            if s is not None:
                if s.point(f"rename:{hooks.kind(self)}->{hooks.kind(target)}") == NOOP:
                    return target
                s.note("rename", os.fspath(self), os.fspath(target))
            return orig["replace"](self, target)

        def unlink(self: pathlib.Path, *a: Any, **kw: Any) -> None:
            s = hooks._tracked(self)
            if s is not None and s.point(f"unlink:{hooks.kind(self)}") == NOOP:
                return None
            return orig["unlink"](self, *a, **kw)

        P.exists = exists  # type: ignore
        P.open = open_  # type: ignore
        P.mkdir = mkdir  # type: ignore
        P.rename = rename  # type: ignore
        P.replace = replace  # type: ignore
        P.unlink = unlink  # type: ignore
        return self

    def __exit__(self, *exc: Any) -> None:
        for name, fn in self._orig.items():
            setattr(pathlib.Path, name, fn)
        self._orig = {}


# ---------------------------------------------------------------------------
# exhaustive enumeration of histories (stateless depth-first search by re-execution)
# ---------------------------------------------------------------------------


def frontier(run_history: Callable[[List[int]], List[Tuple[int, int]]], depth: int) -> List[List[int]]:
    """All choice prefixes of length ``depth`` (shorter if the history ends earlier), in DFS order."""
    out = []  # type: List[List[int]]
    stack = [[]]  # type: List[List[int]]
    while stack:
        pre = stack.pop()
        choices = run_history(pre)
        out.append([c for _, c in choices[:depth]])
        for i in range(min(len(choices), depth) - 1, len(pre) - 1, -1):
            n, c = choices[i]
            for alt in range(n - 1, c, -1):
                stack.append([x for _, x in choices[:i]] + [alt])
    return out


def subtree(run_history: Callable[[List[int]], List[Tuple[int, int]]], prefix: List[int],
            limit: Optional[int] = None) -> Tuple[int, bool]:
    """Run every history below ``prefix`` exactly once; returns (count, complete)."""
    n_run = 0
    stack = [list(prefix)]
    while stack:
        if limit is not None and n_run >= limit:
            return n_run, False
        pre = stack.pop()
        choices = run_history(pre)
        n_run += 1
        for i in range(len(choices) - 1, max(len(pre), len(prefix)) - 1, -1):
            n, c = choices[i]
            for alt in range(n - 1, c, -1):
                stack.append([x for _, x in choices[:i]] + [alt])
    return n_run, True
