"""C02 — Generators never crash on accepted meta-models."""
from __future__ import annotations

import io
import pathlib
import shutil
import sys
from typing import Any, Dict, List, Tuple

from hypothesis import strategies as st

from vlib import mmgen, runner, sut

PID = "C02"
RULE = (
    "Hypothesis: meta-models from vlib.mmgen with drawn generator options (class DAGs/diamonds, constrained-primitive "
    "DAGs, optional/list/nested-list properties of every type kind, enumerations, constants and constant sets, pattern "
    "functions, typed invariants incl. len bounds like >= 0 / contradictory bounds, adversarial descriptions); only models "
    "the front end accepts are evaluated (others counted as 'rejected-by-front-end'). Each accepted model is run through "
    "all 8 targets via main.execute with the minimal snippet set of the target (20%: one required snippet missing or "
    "corrupted) and through smoke.main.execute. Oracle: an int is returned, no exception escapes; rc==0 => stderr empty "
    "and output directory non-empty; rc!=0 => stderr non-empty. Non-trivial = accepted model with >= 2 classes or a "
    "constrained primitive; distinct by model text."
)
ASSUMPTIONS = [
    "bucket = target + exception type + innermost aas_core_codegen frame; one known-finding entry per bucket",
    "snippets are the minimal set each target needs (as in the repository's own test data)",
]


@st.composite
def cases(draw: Any) -> Dict[str, Any]:
    opts = mmgen.Opts(
        max_classes=draw(st.integers(1, 6)),
        max_props=draw(st.integers(0, 4)),
        nested_lists=draw(st.booleans()),
        docs=draw(st.sampled_from(["none", "plain", "plain", "adversarial"])),
        adversarial_text=draw(st.booleans()),
        invariants=draw(st.sampled_from(["general", "general", "schema", "none"])),
        defaults=draw(st.integers(0, 3)) == 0,
    )
    spec = draw(mmgen.specs(opts))
    deficient = None
    if draw(st.integers(0, 4)) == 0:
        deficient = (draw(st.sampled_from(["missing", "empty", "garbage"])), draw(st.integers(0, 1)))
    return {"text": mmgen.render(spec), "deficient": deficient,
            "n_classes": len(spec.classes), "n_cps": len(spec.cps)}


def snippets_for(target: str, deficient: Any) -> Dict[str, str]:
    sn = dict(sut.BASE_SNIPPETS[target])
    if deficient is not None:
        how, idx = deficient
        keys = sorted(sn)
        k = keys[idx % len(keys)]
        if how == "missing":
            del sn[k]
        elif how == "empty":
            sn[k] = ""
        else:
            sn[k] = "<<< {garbage \x01 ]]>"
    return sn


def evaluate(case: Dict[str, Any], base: pathlib.Path) -> Tuple[bool, List[Tuple[str, str]], List[str]]:
    text = case["text"]
    fails = []  # type: List[Tuple[str, str]]
    classes = []  # type: List[str]
    try:
        symtab, _, err = sut.load_text(text, base)
    except BaseException:  # noqa: front-end crashes belong to C01
        return False, [], ["front-end-crash"]
    if err is not None:
        return False, [], ["rejected-by-front-end"]
    d = sut.fresh_dir(base, "c02")
    try:
        mp = d / "meta_model.py"
        mp.write_text(text, encoding="utf-8")
        for target in sut.TARGETS:
            sd = d / f"snippets-{target}"
            sut.write_snippets(sd, snippets_for(target, case.get("deficient")))
            od = d / f"out-{target}"
            try:
                rc, out, errtxt = sut.execute(mp, target, sd, od)
            except BaseException as e:  # noqa
                if type(e).__name__ in ("KeyboardInterrupt", "SystemExit", "MemoryError"):
                    raise
                fails.append((f"{target}:{runner.exc_bucket(e)}", runner.exc_text(e)))
                classes.append(f"{target}:crash")
                continue
            if not isinstance(rc, int) or isinstance(rc, bool):
                fails.append((f"{target}:non-int-status", repr(rc)))
                continue
            if rc == 0:
                classes.append(f"{target}:ok")
                if errtxt != "":
                    fails.append((f"{target}:status0-with-stderr", errtxt[:500]))
                if not od.exists() or not any(od.rglob("*")):
                    fails.append((f"{target}:status0-without-output", ""))
            else:
                classes.append(f"{target}:reported")
                if errtxt.strip() == "":
                    fails.append((f"{target}:nonzero-status-empty-stderr", f"rc={rc}"))
        # smoke
        try:
            from aas_core_codegen.smoke import main as smoke_main

            err_io = io.StringIO()
            rc = smoke_main.execute(model_path=mp, stderr=err_io)
            if rc == 0:
                classes.append("smoke:ok")
                if err_io.getvalue() != "":
                    fails.append(("smoke:status0-with-stderr", err_io.getvalue()[:500]))
            else:
                classes.append("smoke:reported")
                if err_io.getvalue().strip() == "":
                    fails.append(("smoke:nonzero-status-empty-stderr", f"rc={rc}"))
        except BaseException as e:  # noqa
            if type(e).__name__ in ("KeyboardInterrupt", "SystemExit", "MemoryError"):
                raise
            fails.append((f"smoke:{runner.exc_bucket(e)}", runner.exc_text(e)))
            classes.append("smoke:crash")
    finally:
        shutil.rmtree(d, ignore_errors=True)
    return True, fails, classes


def shard(ctx: runner.Ctx) -> None:
    n = ctx.n(800, 80_000)

    def one(case: Dict[str, Any]) -> None:
        accepted, fails, classes = evaluate(case, ctx.scratch)
        nt = accepted and (case["n_classes"] >= 2 or case["n_cps"] >= 1)
        if case.get("deficient") is not None:
            classes = classes + ["deficient-snippets"]
        ctx.case(nt, key=[case["text"], case.get("deficient")],
                 sample={"deficient": case.get("deficient"), "outcomes": classes, "text_tail": case["text"][-500:]},
                 classes=classes + (["accepted"] if accepted else []))
        for b, m in fails:
            ctx.fail(b, {"text": case["text"], "deficient": case.get("deficient")}, m)

    runner.hyp_run(cases(), one, n, ctx.seed)


def replay(case: Any) -> List[Tuple[str, str]]:
    if not isinstance(case, dict) or not isinstance(case.get("text"), str):
        return []
    d = case.get("deficient")
    if d is not None and not (isinstance(d, (list, tuple)) and len(d) == 2 and isinstance(d[0], str) and isinstance(d[1], int)):
        d = None
    base = runner.make_scratch("c02-replay")
    try:
        _, fails, _ = evaluate({"text": case["text"], "deficient": d}, base)
    finally:
        shutil.rmtree(base, ignore_errors=True)
    return fails


def health(m: Any, tier: str) -> Any:
    acc = m["classes"].get("accepted", 0)
    if acc < 0.85 * m["evaluations"]:
        return f"only {acc}/{m['evaluations']} generated models accepted by the front end"
    return None


if __name__ == "__main__":
    runner.main(sys.modules[__name__])
