"""
Independent checker of the structural rules of the meta-model language (property C06).

Reads the meta-model *text* with Python's own ``ast`` (nothing of the repository is imported) and evaluates the
rules as they are worded in the property:

  acyclic inheritance from existing classes; unique and non-reserved type/member/constant/function names;
  no re-declared inherited members; constructor arguments that match the properties in name, type and order with
  optional arguments defaulting to None; only supported type shapes (no nested optionals, no lists of optionals);
  unique invariant descriptions; resolvable documentation references; non-empty pattern functions anchored with
  '^' and '$'.

``check(text) -> {rule id: [details]}``; an empty dict means "obeys every rule modelled here". The rule ids that
carry the prefix ``x-`` are rules of the implementation that the property does not list (measured, never asserted).
"""
from __future__ import annotations

import ast
import collections
import re
from dataclasses import dataclass, field
from typing import Any, Dict, List, Optional, Tuple

from vlib import c06_reserved

PRIMS = {"bool", "int", "float", "str", "bytearray"}

# rule ids (documentation of the table; the operators in checks/c06.py are keyed by these)
RULES = [
    "cycle", "base-missing", "base-is-enum",
    "dup-type", "dup-constant", "dup-function", "dup-property", "dup-method",
    "reserved-type", "reserved-property", "reserved-method", "reserved-constant", "reserved-function",
    "prefix-I_", "prefix-Must_", "member-mutable", "method-over-or-empty",
    "prop-redeclared", "method-overridden",
    "ctor-arg-missing", "ctor-arg-extra", "ctor-arg-wrong-type", "ctor-arg-wrong-order",
    "ctor-optional-without-default", "ctor-optional-non-none-default",
    "nested-optional", "list-of-optional",
    "inv-desc-dup-same-class", "inv-desc-dup-inherited",
    "doc-dangling-class", "doc-dangling-attr", "doc-dangling-const",
    "pattern-empty", "pattern-no-caret", "pattern-no-dollar", "pattern-alternation",
]
EXTRA_RULES = ["x-missing-version", "x-missing-xml-namespace", "x-missing-with-model-type", "x-prop-never-assigned"]


@dataclass
class MProp:
    name: str
    ann: Optional[ast.expr]
    doc: Optional[str]


@dataclass
class MClass:
    name: str
    node: ast.ClassDef
    bases: List[str]
    is_enum: bool = False
    abstract: bool = False
    wmt: Optional[bool] = None
    invs: List[str] = field(default_factory=list)
    props: List[MProp] = field(default_factory=list)
    methods: List[ast.FunctionDef] = field(default_factory=list)
    init: Optional[ast.FunctionDef] = None
    doc: Optional[str] = None
    literals: List[Tuple[str, Optional[str]]] = field(default_factory=list)


@dataclass
class Model:
    classes: List[MClass] = field(default_factory=list)
    consts: List[Tuple[str, Optional[str]]] = field(default_factory=list)
    fns: List[ast.FunctionDef] = field(default_factory=list)
    version: bool = False
    xml_namespace: bool = False
    module_doc: Optional[str] = None


def _is_str(node: Any) -> bool:
    return isinstance(node, ast.Expr) and isinstance(node.value, ast.Constant) and isinstance(node.value.value, str)


def _deco_name(d: ast.expr) -> str:
    if isinstance(d, ast.Call):
        d = d.func
    if isinstance(d, ast.Name):
        return d.id
    if isinstance(d, ast.Attribute):
        return d.attr
    return ""


def extract(text: str) -> Model:
    tree = ast.parse(text)
    m = Model()
    for i, st in enumerate(tree.body):
        if isinstance(st, ast.ClassDef):
            bases = [b.id for b in st.bases if isinstance(b, ast.Name)]
            c = MClass(st.name, st, [b for b in bases if b not in ("DBC", "Enum")], is_enum="Enum" in bases)
            for d in st.decorator_list:
                dn = _deco_name(d)
                if dn == "abstract":
                    c.abstract = True
                elif dn == "serialization" and isinstance(d, ast.Call):
                    for kw in d.keywords:
                        if kw.arg == "with_model_type" and isinstance(kw.value, ast.Constant):
                            c.wmt = bool(kw.value.value)
                elif dn == "invariant" and isinstance(d, ast.Call):
                    desc = None
                    if len(d.args) >= 2 and isinstance(d.args[1], ast.Constant) and isinstance(d.args[1].value, str):
                        desc = d.args[1].value
                    for kw in d.keywords:
                        if kw.arg == "description" and isinstance(kw.value, ast.Constant):
                            desc = kw.value.value
                    if desc is not None:
                        c.invs.append(desc)
            body = st.body
            j = 0
            if body and _is_str(body[0]):
                c.doc = body[0].value.value  # type: ignore
                j = 1
            while j < len(body):
                b = body[j]
                nxt = body[j + 1] if j + 1 < len(body) else None
                if isinstance(b, ast.AnnAssign) and isinstance(b.target, ast.Name):
                    doc = nxt.value.value if _is_str(nxt) else None  # type: ignore
                    c.props.append(MProp(b.target.id, b.annotation, doc))
                elif isinstance(b, ast.Assign) and c.is_enum and len(b.targets) == 1 and isinstance(b.targets[0], ast.Name):
                    doc = nxt.value.value if _is_str(nxt) else None  # type: ignore
                    c.literals.append((b.targets[0].id, doc))
                elif isinstance(b, ast.FunctionDef):
                    if b.name == "__init__":
                        c.init = b
                    else:
                        c.methods.append(b)
                j += 1
            m.classes.append(c)
        elif isinstance(st, ast.FunctionDef):
            m.fns.append(st)
        elif isinstance(st, ast.AnnAssign) and isinstance(st.target, ast.Name):
            doc = None
            if isinstance(st.value, ast.Call):
                for kw in st.value.keywords:
                    if kw.arg == "description" and isinstance(kw.value, ast.Constant) and isinstance(kw.value.value, str):
                        doc = kw.value.value
            m.consts.append((st.target.id, doc))
        elif isinstance(st, ast.Assign) and len(st.targets) == 1 and isinstance(st.targets[0], ast.Name):
            if st.targets[0].id == "__version__":
                m.version = True
            elif st.targets[0].id == "__xml_namespace__":
                m.xml_namespace = True
        elif _is_str(st) and m.module_doc is None:
            m.module_doc = st.value.value  # type: ignore
    return m


def norm_ann(a: Optional[ast.expr]) -> str:
    if a is None:
        return "<none>"
    if isinstance(a, ast.Constant) and isinstance(a.value, str):
        try:
            return norm_ann(ast.parse(a.value, mode="eval").body)
        except SyntaxError:
            return repr(a.value)
    if isinstance(a, ast.Name):
        return a.id
    if isinstance(a, ast.Subscript):
        return f"{norm_ann(a.value)}[{norm_ann(a.slice)}]"
    if isinstance(a, ast.Constant):
        return repr(a.value)
    return ast.dump(a)


def _ann_nodes(a: Optional[ast.expr]) -> List[ast.expr]:
    """The annotation and all nested annotations (string literals are parsed)."""
    out = []  # type: List[ast.expr]
    if a is None:
        return out
    if isinstance(a, ast.Constant) and isinstance(a.value, str):
        try:
            return _ann_nodes(ast.parse(a.value, mode="eval").body)
        except SyntaxError:
            return out
    out.append(a)
    if isinstance(a, ast.Subscript):
        out.extend(_ann_nodes(a.slice))
    return out


def _head(a: ast.expr) -> str:
    if isinstance(a, ast.Constant) and isinstance(a.value, str):
        try:
            a = ast.parse(a.value, mode="eval").body
        except SyntaxError:
            return ""
    if isinstance(a, ast.Subscript) and isinstance(a.value, ast.Name):
        return a.value.id
    if isinstance(a, ast.Name):
        return a.id
    return ""


# ---------------------------------------------------------------------------
# patterns
# ---------------------------------------------------------------------------


def pattern_of(fn: ast.FunctionDef) -> Optional[str]:
    """The pattern of a pattern verification function, computed by executing its string assignments."""
    if not any(_deco_name(d) == "verification" for d in fn.decorator_list):
        return None
    if any(_deco_name(d) == "implementation_specific" for d in fn.decorator_list):
        return None
    body = [s for s in fn.body if not _is_str(s)]
    if not body or not isinstance(body[-1], ast.Return):
        return None
    ret = body[-1].value
    if not (isinstance(ret, ast.Compare) and len(ret.ops) == 1 and isinstance(ret.ops[0], ast.IsNot)
            and isinstance(ret.left, ast.Call) and isinstance(ret.left.func, ast.Name) and ret.left.func.id == "match"
            and len(ret.left.args) == 2):
        return None
    if not all(isinstance(s, ast.Assign) for s in body[:-1]):
        return None
    ns = {}  # type: Dict[str, Any]
    try:
        mod = ast.Module(body=body[:-1], type_ignores=[])
        ast.fix_missing_locations(mod)
        exec(compile(mod, "<pattern>", "exec"), {"__builtins__": {}}, ns)
        expr = ast.Expression(ret.left.args[0])
        ast.fix_missing_locations(expr)
        val = eval(compile(expr, "<pattern>", "eval"), {"__builtins__": {}}, ns)
    except Exception:  # noqa
        return None
    return val if isinstance(val, str) else None


def pattern_rules(p: str) -> List[str]:
    if p == "":
        return ["pattern-empty"]
    out = []
    if not p.startswith("^"):
        out.append("pattern-no-caret")
    k = 0
    i = len(p) - 2
    while i >= 0 and p[i] == "\\":
        k += 1
        i -= 1
    if not p.endswith("$") or k % 2 == 1:
        out.append("pattern-no-dollar")
    depth = 0
    in_class = False
    i = 0
    alt = False
    while i < len(p):
        ch = p[i]
        if ch == "\\":
            i += 2
            continue
        if in_class:
            if ch == "]":
                in_class = False
        elif ch == "[":
            in_class = True
            if i + 1 < len(p) and p[i + 1] == "^":
                i += 1
            if i + 1 < len(p) and p[i + 1] == "]":
                i += 1
        elif ch == "(":
            depth += 1
        elif ch == ")":
            depth -= 1
        elif ch == "|" and depth == 0:
            alt = True
        i += 1
    if alt:
        out.append("pattern-alternation")
    return out


# ---------------------------------------------------------------------------
# the rules
# ---------------------------------------------------------------------------

_ROLE_RE = re.compile(r":(class|attr|const):`([^`]*)`")


def check(text: str) -> Dict[str, List[str]]:
    m = extract(text)
    out = collections.defaultdict(list)  # type: Dict[str, List[str]]

    first = {}  # type: Dict[str, MClass]
    for c in m.classes:
        first.setdefault(c.name, c)

    # ---- uniqueness ----
    for nm, k in collections.Counter(c.name for c in m.classes).items():
        if k > 1:
            out["dup-type"].append(nm)
    for nm, k in collections.Counter(n for n, _ in m.consts).items():
        if k > 1:
            out["dup-constant"].append(nm)
    for nm, k in collections.Counter(f.name for f in m.fns).items():
        if k > 1:
            out["dup-function"].append(nm)
    for c in m.classes:
        for nm, k in collections.Counter(p.name for p in c.props).items():
            if k > 1:
                out["dup-property"].append(f"{c.name}.{nm}")
        for nm, k in collections.Counter(f.name for f in c.methods).items():
            if k > 1:
                out["dup-method"].append(f"{c.name}.{nm}")

    # ---- reserved names ----
    for c in m.classes:
        if c.name.startswith("I_"):
            out["prefix-I_"].append(c.name)
        if c.name.startswith("Must_"):
            out["prefix-Must_"].append(c.name)
        if c.name.lower() in c06_reserved.RESERVED_TYPE_NAMES:
            out["reserved-type"].append(c.name)
        if c.is_enum:
            continue
        for p in c.props:
            if p.name.lower() in c06_reserved.RESERVED_MEMBER_NAMES:
                out["reserved-property"].append(f"{c.name}.{p.name}")
            if p.name.lower().startswith("mutable"):
                out["member-mutable"].append(f"{c.name}.{p.name}")
        for f in c.methods:
            low = f.name.lower()
            if low in c06_reserved.RESERVED_MEMBER_NAMES:
                out["reserved-method"].append(f"{c.name}.{f.name}")
            if low.startswith("mutable"):
                out["member-mutable"].append(f"{c.name}.{f.name}")
            if low.startswith("over") and (low.endswith("or_empty") or low.endswith("orempty")):
                out["method-over-or-empty"].append(f"{c.name}.{f.name}")
    for nm, _ in m.consts:
        if nm.lower() in c06_reserved.RESERVED_CONSTANT_OR_FUNCTION_NAMES:
            out["reserved-constant"].append(nm)
    for f in m.fns:
        if f.name.lower() in c06_reserved.RESERVED_CONSTANT_OR_FUNCTION_NAMES:
            out["reserved-function"].append(f.name)

    # ---- inheritance from existing classes, acyclic ----
    for c in m.classes:
        if c.is_enum:
            continue
        for b in c.bases:
            if b in PRIMS:
                continue
            if b not in first:
                out["base-missing"].append(f"{c.name}({b})")
            elif first[b].is_enum:
                out["base-is-enum"].append(f"{c.name}({b})")
    state = {}  # type: Dict[str, int]
    cyclic = []  # type: List[str]

    def visit(n: str) -> None:
        state[n] = 1
        for b in first[n].bases:
            if b in first and not first[b].is_enum:
                if state.get(b, 0) == 1:
                    cyclic.append(b)
                elif state.get(b, 0) == 0:
                    visit(b)
        state[n] = 2

    for c in m.classes:
        if not c.is_enum and state.get(c.name, 0) == 0:
            visit(c.name)
    if cyclic:
        out["cycle"].extend(sorted(set(cyclic)))

    def ancestors(n: str) -> List[str]:
        res = []  # type: List[str]

        def walk(x: str) -> None:
            for b in first[x].bases:
                if b in first and not first[b].is_enum:
                    walk(b)
                    if b not in res:
                        res.append(b)

        walk(n)
        return res

    def is_cp(n: str) -> bool:
        return any(b in PRIMS for x in ancestors(n) + [n] for b in first[x].bases)

    plain = []  # type: List[MClass]  (classes proper: no enumeration, no constrained primitive)
    if not cyclic:
        plain = [c for c in m.classes if not c.is_enum and first[c.name] is c and not is_cp(c.name)]

    # ---- hierarchy-dependent rules (meaningless on a cyclic hierarchy) ----
    if not cyclic:
        for c in m.classes:
            if c.is_enum or first[c.name] is not c:
                continue
            anc = ancestors(c.name)
            inherited_props = {p.name: a for a in anc for p in first[a].props}
            inherited_meths = {f.name: a for a in anc for f in first[a].methods}
            for p in c.props:
                if p.name in inherited_props:
                    out["prop-redeclared"].append(f"{c.name}.{p.name} (also in {inherited_props[p.name]})")
            for f in c.methods:
                if f.name in inherited_meths:
                    out["method-overridden"].append(f"{c.name}.{f.name} (also in {inherited_meths[f.name]})")
            # invariant descriptions over the lineage
            occ = collections.defaultdict(list)  # type: Dict[str, List[str]]
            for a in anc + [c.name]:
                for d in first[a].invs:
                    occ[d].append(a)
            for d, owners in occ.items():
                if len(owners) < 2:
                    continue
                if collections.Counter(owners)[c.name] >= 2:
                    out["inv-desc-dup-same-class"].append(f"{c.name}: {d!r}")
                if len(set(owners)) >= 2:
                    out["inv-desc-dup-inherited"].append(f"{c.name}: {d!r} declared in {sorted(set(owners))}")

        # ---- constructors ----
        for c in plain:
            lineage = ancestors(c.name) + [c.name]
            props = [(p.name, norm_ann(p.ann)) for a in lineage for p in first[a].props]
            # a re-declared / duplicated property is a different rule: keep the first occurrence
            seen = set()  # type: set
            props = [x for x in props if not (x[0] in seen or seen.add(x[0]))]
            if c.init is None:
                if props:
                    out["ctor-arg-missing"].append(f"{c.name}: no constructor, properties {[n for n, _ in props]}")
                continue
            a = c.init.args
            args = list(a.args[1:]) if a.args else []
            defaults = [None] * (len(a.args) - len(a.defaults)) + list(a.defaults)  # type: List[Any]
            defaults = defaults[1:] if a.args else []
            got = [(x.arg, norm_ann(x.annotation), d) for x, d in zip(args, defaults)]
            pn = [n for n, _ in props]
            an = [n for n, _, _ in got]
            missing = [n for n in pn if n not in an]
            extra = [n for n in an if n not in pn]
            if missing:
                out["ctor-arg-missing"].append(f"{c.name}: {missing}")
            if extra:
                out["ctor-arg-extra"].append(f"{c.name}: {extra}")
            ptype = dict(props)
            for n, t, _ in got:
                if n in ptype and ptype[n] != t:
                    out["ctor-arg-wrong-type"].append(f"{c.name}.{n}: argument {t}, property {ptype[n]}")
            if not missing and not extra:
                nodef = [n for n, _, d in got if d is None]
                withdef = [n for n, _, d in got if d is not None]
                if nodef != [n for n in pn if n in set(nodef)] or withdef != [n for n in pn if n in set(withdef)]:
                    out["ctor-arg-wrong-order"].append(f"{c.name}: arguments {an}, properties {pn}")
            for n, t, d in got:
                if t.startswith("Optional["):
                    if d is None:
                        out["ctor-optional-without-default"].append(f"{c.name}.{n}")
                    elif not (isinstance(d, ast.Constant) and d.value is None):
                        out["ctor-optional-non-none-default"].append(f"{c.name}.{n}")
            assigned = set()
            for s in ast.walk(c.init):
                if isinstance(s, ast.Assign):
                    for t_ in s.targets:
                        if isinstance(t_, ast.Attribute) and isinstance(t_.value, ast.Name) and t_.value.id == "self":
                            assigned.add(t_.attr)
            for p in c.props:
                if p.name not in assigned:
                    out["x-prop-never-assigned"].append(f"{c.name}.{p.name}")

    # ---- type shapes ----
    for c in m.classes:
        if c.is_enum:
            continue
        for p in c.props:
            for node in _ann_nodes(p.ann):
                if isinstance(node, ast.Subscript):
                    h = _head(node)
                    inner = _head(node.slice)
                    if h == "Optional" and inner == "Optional":
                        out["nested-optional"].append(f"{c.name}.{p.name}")
                    if h == "List" and inner == "Optional":
                        out["list-of-optional"].append(f"{c.name}.{p.name}")

    # ---- documentation references ----
    const_names = {n for n, _ in m.consts}

    def members(tn: str) -> set:
        t = first[tn]
        if t.is_enum:
            return {n for n, _ in t.literals}
        if cyclic:
            return {p.name for p in t.props}
        return {p.name for a in ancestors(tn) + [tn] for p in first[a].props}

    def scan(doc: Optional[str], where: str, enclosing: Optional[str]) -> None:
        if not doc:
            return
        for role, target in _ROLE_RE.findall(doc):
            target = re.sub(r"^[!~]+", "", target)
            if role == "class":
                if target not in first:
                    out["doc-dangling-class"].append(f"{where}: {target}")
            elif role == "const":
                if target not in const_names:
                    out["doc-dangling-const"].append(f"{where}: {target}")
            else:
                parts = target.split(".")
                if len(parts) == 1:
                    if enclosing is None or parts[0] not in members(enclosing):
                        out["doc-dangling-attr"].append(f"{where}: {target}")
                elif len(parts) == 2:
                    if parts[0] not in first or parts[1] not in members(parts[0]):
                        out["doc-dangling-attr"].append(f"{where}: {target}")
                else:
                    out["doc-dangling-attr"].append(f"{where}: {target}")

    scan(m.module_doc, "module", None)
    for c in m.classes:
        if first[c.name] is not c:
            continue
        scan(c.doc, c.name, c.name)
        for p in c.props:
            scan(p.doc, f"{c.name}.{p.name}", c.name)
        for n, d in c.literals:
            scan(d, f"{c.name}.{n}", c.name)
        for f in c.methods + ([c.init] if c.init else []):
            scan(ast.get_docstring(f, clean=False), f"{c.name}.{f.name}", c.name)
    for n, d in m.consts:
        scan(d, n, None)
    for f in m.fns:
        scan(ast.get_docstring(f, clean=False), f.name, None)

    # ---- pattern functions ----
    for f in m.fns:
        p = pattern_of(f)
        if p is not None:
            for r in pattern_rules(p):
                out[r].append(f"{f.name}: {p!r}")

    # ---- rules of the implementation which the property does not list ----
    if not m.version:
        out["x-missing-version"].append("")
    if not m.xml_namespace:
        out["x-missing-xml-namespace"].append("")
    if not cyclic:
        plain_names = {c.name for c in plain}
        used = set()
        for c in plain:
            for p in c.props:
                for node in _ann_nodes(p.ann):
                    if isinstance(node, ast.Name) and node.id in plain_names:
                        used.add(node.id)

        def eff(n: str) -> bool:
            return any(first[x].wmt is True for x in ancestors(n) + [n])

        for u in sorted(used):
            conc = [c.name for c in plain if u in ancestors(c.name) and not c.abstract]
            if conc and not all(eff(x) for x in [u] + conc):
                out["x-missing-with-model-type"].append(u)
    return dict(out)
