#!/usr/bin/env python3
"""Rewrite the seeded-changes table of DESIGN.md §7.5 from seeded/*/meta.json."""
import json, pathlib, re

V = pathlib.Path(__file__).resolve().parent.parent
rows = ["| seed | property | what it needs to manifest | detected (bucket / after which general strengthening) | pinned tests with the patch |",
        "|---|---|---|---|---|"]
n = caught = 0
for d in sorted((V / "seeded").iterdir()):
    mp = d / "meta.json"
    if not mp.exists():
        continue
    m = json.loads(mp.read_text())
    n += 1
    det = m.get("detected", "")
    if det.startswith("yes") or det.startswith("by:"):
        caught += 1
    t = m.get("tests_with_patch")
    if isinstance(t, dict):
        if "summary" in t:
            ts = t["summary"]
        else:
            ts = f"{t.get('all_tests_except_the_aas_core_meta_v3_goldens', '?')}; v3 goldens {t.get('aas_core_meta_v3_goldens_run')}: {t.get('aas_core_meta_v3_goldens_result')}"
        ts = re.sub(r"\s+in [0-9.]+s.*?(;|$)", r"\1", ts)
    else:
        ts = str(t)
    rows.append(f"| {d.name} | {m['property']} | {m['needs_to_manifest']} | {det} | {ts} |".replace("\n", " "))
table = "\n".join(rows) + f"\n\n{caught} of {n} seeded changes are detected by the registered checks (quick tier, scale 0.5-1.0).\n"
p = V / "DESIGN.md"
s = p.read_text()
begin, end = "<!-- SEED-TABLE-BEGIN -->", "<!-- SEED-TABLE-END -->"
if begin in s:
    s = s[: s.index(begin) + len(begin)] + "\n" + table + s[s.index(end):]
else:
    # replace the hand-written table of 7.5
    i = s.index("| seed | what it needs to manifest | first run | now | strengthening made |")
    j = s.index("\n\n", i) if "\n\n" in s[i:] else len(s)
    s = s[:i] + begin + "\n" + table + end + "\n" + s[j:]
p.write_text(s)
print(caught, "of", n)
