"""
Instance generator for a ``Spec``: neutral nested dicts, boundary-biased.

neutral value: None | bool | int | float | str | {"bytes": [ints]} | {"enum": E, "lit": L} |
               {"cls": C, "props": {...}} | [values]
"""
from __future__ import annotations

import re
from typing import Any, Dict, List, Optional, Set

from hypothesis import strategies as st

from vlib.mmgen import Spec, TRef


class Pools:
    """Boundary values harvested from the spec (constants in invariants, set members, patterns)."""

    def __init__(self, spec: Spec) -> None:
        ints = {0, 1, 2}  # type: Set[int]
        strs = {"", "a", "ab"}  # type: Set[str]
        bodies = []  # type: List[str]
        for c in spec.classes:
            bodies += [i.body for i in c.invs]
        for c in spec.cps:
            bodies += [i.body for i in c.invs]
        for f in spec.fns:
            if f.body:
                bodies.append(f.body)
        for b in bodies:
            for m in re.finditer(r"(?<![\w.])-?\d+(?![\w.])", b):
                k = int(m.group(0))
                ints.update({k - 1, k, k + 1})
            for m in re.finditer(r'"((?:[^"\\]|\\.)*)"', b):
                try:
                    strs.add(bytes(m.group(1), "ascii").decode("unicode_escape"))
                except (UnicodeDecodeError, UnicodeEncodeError):
                    pass
        for k in spec.consts:
            if k.kind == "set_str":
                strs.update(k.value)
            elif k.kind == "set_int":
                for v in k.value:
                    ints.update({v - 1, v, v + 1})
            elif k.kind == "str":
                strs.add(k.value)
            elif k.kind == "int":
                ints.update({k.value - 1, k.value, k.value + 1})
        for f in spec.fns:
            strs.update(f.examples)
        self.ints = sorted(ints)
        self.lens = sorted({k for k in ints if 0 <= k <= 8} | {0, 1, 2, 3})
        self.strs = sorted(strs)


def _ranks(spec: Spec) -> Dict[str, int]:
    """Round of the least fixpoint at which a class becomes instantiable (smaller = shallower)."""
    rank = {}  # type: Dict[str, int]
    rnd = 0
    changed = True
    while changed:
        changed = False
        rnd += 1
        new = {}
        for c in spec.classes:
            if c.name in rank:
                continue
            if c.abstract:
                good = any(d in rank for d in spec.concrete_descendants(c.name))
            else:
                good = True
                for p in spec.all_props(c.name):
                    t = p.type
                    if t.kind == "class" and t.name not in rank and not any(
                        d in rank for d in spec.concrete_descendants(t.name)
                    ):
                        good = False
            if good:
                new[c.name] = rnd
        if new:
            rank.update(new)
            changed = True
    return rank


ALPHA = "abAB01 -_xé"


class InstGen:
    def __init__(self, spec: Spec, max_depth: int = 3, max_list: int = 3, hard_values: bool = False) -> None:
        self.spec = spec
        self.pools = Pools(spec)
        self.rank = _ranks(spec)
        self.max_depth = max_depth
        self.max_list = max_list
        self.hard = hard_values

    # -- primitive strategies --
    def s_int(self) -> Any:
        base = [st.sampled_from(self.pools.ints), st.integers(-5, 12)]
        if self.hard:
            base.append(st.sampled_from([2**31 - 1, -2**31, 2**53 - 1, -(2**53) + 1, 2**63 - 1, -2**63]))
        return st.one_of(*base)

    def s_float(self) -> Any:
        vals = [0.0, 1.5, -2.25, 100.0, 1.0, -1.0, 0.1, 2.25, 1e10]
        if self.hard:
            vals += [-0.0, 5e-324, 1.7976931348623157e308, 0.1 + 0.2, 123456789.12345678, 1e-7]
        return st.sampled_from(vals)

    def s_str(self) -> Any:
        n = st.sampled_from(self.pools.lens)
        texts = n.flatmap(lambda k: st.text(alphabet=ALPHA, min_size=k, max_size=k))
        base = [st.sampled_from(self.pools.strs), texts, texts]
        if self.hard:
            base.append(st.sampled_from(["\r", "a\rb", "\r\n", " a ", "\t", "]]>", "&amp;", "<x>", "\U0001F600",
                                         "a\nb", " ", "\"", "'", "\\", "�", "\x7f"]))
        return st.one_of(*base)

    def s_bytes(self) -> Any:
        return st.sampled_from(self.pools.lens).flatmap(
            lambda k: st.lists(st.integers(0, 255), min_size=k, max_size=k)
        ).map(lambda xs: {"bytes": xs})

    def concrete_choices(self, name: str) -> List[str]:
        c = self.spec.cls(name)
        out = [] if c.abstract else [name]
        out += [d for d in self.spec.concrete_descendants(name)]
        return [n for n in out if n in self.rank]

    def value(self, t: TRef, depth: int) -> Any:
        spec = self.spec
        if t.kind == "opt":
            assert t.item is not None
            if depth >= self.max_depth:
                return st.none()
            return st.one_of(st.none(), self.value(t.item, depth), self.value(t.item, depth))
        if t.kind == "prim" or t.kind == "cp":
            prim = t.name if t.kind == "prim" else spec.cp_prim(t.name)
            if prim == "bool":
                return st.booleans()
            if prim == "int":
                return self.s_int()
            if prim == "float":
                return self.s_float()
            if prim == "str":
                return self.s_str()
            return self.s_bytes()
        if t.kind == "enum":
            en = spec.enum(t.name)
            return st.sampled_from([{"enum": en.name, "lit": n} for n, _ in en.literals])
        if t.kind == "list":
            assert t.item is not None
            if depth >= self.max_depth:
                return st.just([])
            sizes = [k for k in self.pools.lens if k <= self.max_list] or [0, 1]
            return st.sampled_from(sizes).flatmap(
                lambda k: st.lists(self.value(t.item, depth + 1), min_size=k, max_size=k)  # type: ignore
            )
        if t.kind == "class":
            choices = self.concrete_choices(t.name)
            if depth >= self.max_depth:
                # shallowest instantiable choice
                choices = sorted(choices, key=lambda n: self.rank[n])[:1]
            return st.sampled_from(choices).flatmap(lambda n: self.instance(n, depth + 1))
        raise AssertionError(t)

    def instance(self, cname: str, depth: int = 0) -> Any:
        props = self.spec.all_props(cname)
        if not props:
            return st.just({"cls": cname, "props": {}})
        return st.fixed_dictionaries({p.name: self.value(p.type, depth) for p in props}).map(
            lambda d: {"cls": cname, "props": d}
        )

    def any_instance(self) -> Any:
        names = [c.name for c in self.spec.classes if not c.abstract and c.name in self.rank]
        if not names:
            return st.nothing()
        return st.sampled_from(names).flatmap(lambda n: self.instance(n, 0))


def size(v: Any) -> int:
    if isinstance(v, dict):
        if "cls" in v:
            return 1 + sum(size(x) for x in v["props"].values())
        return 1
    if isinstance(v, list):
        return 1 + sum(size(x) for x in v)
    return 1


def depth(v: Any) -> int:
    if isinstance(v, dict) and "cls" in v:
        return 1 + max([depth(x) for x in v["props"].values()] + [0])
    if isinstance(v, list):
        return max([depth(x) for x in v] + [0])
    return 0
