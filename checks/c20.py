"""C20 — Generated source files are syntactically well-formed."""
from __future__ import annotations

import concurrent.futures
import pathlib
import re
import shutil
import sys
import time
from typing import Any, Dict, List, Optional, Sequence, Tuple

from hypothesis import strategies as st

from vlib import c20_gen, c20_parse, c20_unit, runner, sut
from vlib.c20_gen import fragment_class
from vlib.c20_parse import Diag

PID = "C20"
RULE = (
    "Hypothesis: meta-models from vlib.mmgen (1-4 classes, enumerations, constrained primitives, constants, pattern "
    "functions, invariants) whose texts are replaced by vlib.c20_gen: RST descriptions of every kind (module, class, "
    "constrained primitive, enumeration, enumeration literal, property, constant, verification function with "
    ":param:/:returns:) made of summary, remark paragraphs, bullet lists, notes, ``literals``, *emphasis*, roles, URLs and "
    ":constraint X: fields, carrying fragments such as \" ' \"\"\" ''' \\ \\u */ /* // < & --> ]]> </summary> {@link x} ${x} ` "
    "(also as the last characters of a description and inside constraint identifiers); invariant messages, enumeration "
    "literal values, string constants and string sets with quote/backslash/template/format fragments. Every fragment is "
    "preceded by a unique marker word. 50% 'single' models: all description fragments from one fragment class and one "
    "form, all value fragments from one class (precise attribution; terminator-like classes weighted up); 25% 'mixed' "
    "models: all classes together; 25% 'mixed' without the triggers of the defects already found (a double quote, "
    "*/, backslash-u, trailing backslash in descriptions), so that the search goes on behind them. Only models accepted by the "
    "front end count; per target main.execute must succeed (else counted as excluded, belongs to C02). Oracle per "
    "generated file: Python compile(); TypeScript node-22 parser (module.stripTypeScriptTypes transform); Java JDK "
    "parser (JavacTask.parse via drivers/ParseOnly.java); C++ g++ -std=c++17 -fsyntax-only on a translation unit "
    "including all generated headers plus the model-dependent .cpp files (quick: 6 models, thorough: every 6th model, every 60th with all translation units; only "
    "lexer/parser diagnostics count, others are counted as inconclusive) and the rule that a // comment line must not "
    "end in a backslash followed by a non-comment line; JSON json.loads; XSD xml.etree; C# and Go spec-derived lexers; "
    "C# /// blocks parsed as XML fragments. A file that fails is re-generated from the same model with every fragment "
    "replaced by '~': still failing => structural defect (bucket by diagnostic and code line), else text-caused "
    "(bucket target:file:text-kind:fragment-class). Non-trivial = accepted model of which at least one marker was "
    "found in a generated file of a target that succeeded; distinct by model text. FUNCTION LEVEL (vlib/c20_unit.py): "
    "the Stripped -> Stripped functions that wrap a rendered description (python docstring and documentation_comment; "
    "typescript, java, cpp, golang documentation_comment) are called directly with 6400 (thorough 600000) stripped texts of "
    "1-3 lines made of plain words and the same fragment pools, half of them ending in an end fragment, lengths on both "
    "sides of the one-line limit; each result is embedded where a comment ending early, late or never breaks the syntax "
    "(class body before a statement; array literal; parenthesised initialiser; before a field whose presence is checked) "
    "and parsed by ast / node / javac / g++ / the Go lexer. Non-trivial there = text with a terminator-like fragment."
)
ASSUMPTIONS = [
    "C# and Go: no compiler/parser is installed; the check is LEXICAL well-formedness only (comments, regular/verbatim/"
    "interpolated/raw string and char/rune literals with their escape sequences, balanced brackets, no stray characters), "
    "written from ECMA-334 and the Go specification, validated against the 283 C# / 275 Go golden files of the repository",
    "C# documentation comments: every maximal run of /// lines, wrapped in one root element, must be well-formed XML (expat)",
    "C++: g++ diagnostics are classified by message; only lexer/parser kinds (unterminated, missing terminating, stray, "
    "expected ... before/at end, universal character, string literal operator ...) are violations; others are 'inconclusive'",
    "C++: a // line ending in backslash whose next line is not a comment is a violation (phase-2 line splicing swallows code) "
    "even when the remaining text still parses",
    "control characters and U+0085/U+2028/U+2029 inside literals are the domain of C19 and are not generated here",
    "only the first diagnostic of a file is used (later ones are cascades); text-caused failures of 'mixed' models are "
    "attributed to the nearest marker at or before the reported line",
    "a target that reports an error (rc != 0) or crashes on an accepted model is out of this property's domain (C02) and is counted",
]

TARGET_EXT = {"python": (".py",), "typescript": (".ts",), "java": (".java",), "csharp": (".cs",), "golang": (".go",),
              "cpp": (".cpp", ".hpp"), "jsonschema": (".json",), "xsd": (".xsd", ".xml")}

# Model-dependent translation units (quick); level 2 adds every other .cpp of src/.
CPP_QUICK_TUS = ["src/constants.cpp", "src/verification.cpp", "src/stringification.cpp", "src/wstringification.cpp",
                 "src/types.cpp"]

_MARKER_RE = re.compile(r"mk(\d+)q")
_VALUE_KINDS = ("invariant-message", "enumeration-literal-value", "string-constant", "string-set-constant")


def where_group(where: str) -> str:
    return "description" if where.endswith("-doc") else where


def trigger_key(fragment: str, where: str, form: str) -> Tuple[str, str]:
    fc = fragment_class(fragment, form)
    if form in ("text-at-end", "literal", "constraint-id"):
        fc += "@" + form
    return where_group(where), fc


def is_known_trigger(fragment: str, where: str, form: str) -> bool:
    """Fragments that trigger the defects found so far (proposed_fixes/C20-*.diff, known_findings.jsonl).

    'mixed' models are generated without them, so that whatever fails there is something new:
    a double quote may end a Python docstring; ``*/`` closes Java/TypeScript documentation comments; ``\\u`` is an
    illegal unicode escape in Java comments; a trailing backslash splices a C++ ``///`` line with the next line.
    """
    if where_group(where) == "description":
        return '"' in fragment or "*/" in fragment or "\\u" in fragment or fragment.endswith("\\")
    return False


@st.composite
def cases(draw: Any) -> Dict[str, Any]:
    mode = draw(st.sampled_from(["single", "single", "mixed-without-known-triggers", "mixed"]))
    adversarial = draw(st.sampled_from([0.25, 0.45, 0.6]))
    if mode == "single":
        ts = draw(c20_gen.text_specs(max_classes=4, adversarial=adversarial, single=True))
    elif mode == "mixed":
        ts = draw(c20_gen.text_specs(max_classes=4, adversarial=adversarial))
    else:
        ts = draw(c20_gen.text_specs(max_classes=4, adversarial=adversarial, avoid=is_known_trigger))
    return {"ts": ts}


def list_files(root: pathlib.Path, exts: Sequence[str]) -> List[str]:
    out = []
    for p in sorted(root.rglob("*")):
        if p.is_file() and p.suffix in exts:
            out.append(str(p.relative_to(root)))
    return out


def file_kind(target: str, rel: str) -> str:
    p = pathlib.PurePosixPath(rel)
    if target == "java":
        if "test" in p.parts:
            return "tests/" + p.name
        if "types" in p.parts:
            return "types/*.java"
        if "generation" in p.parts:
            return "generation/*.java"
        return p.name
    if "test" in p.parts[:-1] or "tests" in p.parts[:-1] or p.name.endswith("_test.go") or ".Tests" in rel:
        return "tests/" + p.name
    return p.name


_KEEP_WORDS = {"return", "const", "static", "final", "public", "private", "class", "enum", "interface", "if", "else",
               "for", "while", "new", "import", "package", "namespace", "struct", "func", "def", "var", "let", "export",
               "function", "throw", "case", "switch", "default", "void", "extern", "template", "typename", "using"}


def normalize_code_line(line: str) -> str:
    line = re.sub(r'"(?:[^"\\]|\\.)*"', '""', line.strip())
    line = re.sub(r"[A-Za-z_][A-Za-z0-9_]*", lambda m: m.group(0) if m.group(0) in _KEEP_WORDS else "x", line)
    line = re.sub(r"\d+(\.\d+)?", "0", line)
    line = re.sub(r"\s+", " ", line)
    return line.split(" = ")[0][:48]  # the initialiser varies with the model


def check_target_output(target: str, root: pathlib.Path, cpp_level: int, scratch: pathlib.Path,
                        notes: Dict[str, Any], only: Optional[Sequence[str]] = None) -> List[Diag]:
    diags = []  # type: List[Diag]
    rels = list_files(root, TARGET_EXT[target])
    if only is not None:
        rels = [r for r in rels if r in only]
    else:
        notes[f"files:{target}"] = notes.get(f"files:{target}", 0) + len(rels)
    if target == "python":
        for rel in rels:
            diags.extend(c20_parse.check_python(root / rel, rel))
    elif target == "typescript":
        diags.extend(c20_parse.check_typescript(root, rels))
    elif target == "java":
        classes = c20_parse.ensure_parse_only(scratch)
        d, _, _ = c20_parse.run_parse_only(classes, root, rels)
        diags.extend(d)
    elif target == "jsonschema":
        for rel in rels:
            diags.extend(c20_parse.check_json(root / rel, rel))
    elif target == "xsd":
        for rel in rels:
            diags.extend(c20_parse.check_xml(root / rel, rel))
    elif target == "csharp":
        for rel in rels:
            src, d = c20_parse.read_text_strict(root / rel, rel)
            diags.extend(d)
            if src is not None:
                diags.extend(c20_parse.lex_csharp(src, rel))
                d2, nblocks = c20_parse.csharp_doc_comments(src, rel)
                diags.extend(d2)
                if only is None:
                    notes["csharp-doc-comment-blocks"] = notes.get("csharp-doc-comment-blocks", 0) + nblocks
    elif target == "golang":
        for rel in rels:
            src, d = c20_parse.read_text_strict(root / rel, rel)
            diags.extend(d)
            if src is not None:
                diags.extend(c20_parse.lex_go(src, rel))
    elif target == "cpp":
        for rel in rels:
            diags.extend(c20_parse.cpp_line_comment_splices(root / rel, rel))
        if cpp_level > 0:
            all_rels = list_files(root, TARGET_EXT[target])
            headers = [r for r in all_rels if r.startswith("include/") and r.endswith(".hpp")]
            all_headers = root / "src" / "verif_all_headers.cpp"
            all_headers.write_text("".join(f'#include "{h[len("include/"):]}"\n' for h in headers), encoding="utf-8")
            tus = ["src/verif_all_headers.cpp"] + [t for t in CPP_QUICK_TUS if (root / t).is_file()]
            if cpp_level > 1:
                # (the translation units under test/ need Catch2, which is not installed)
                tus += [r for r in all_rels if r.endswith(".cpp") and r.startswith("src/") and r not in tus and r != "src/common.cpp"]
            workers = 6 if cpp_level == 1 else 3
            with concurrent.futures.ThreadPoolExecutor(max_workers=workers) as pool:
                results = list(pool.map(lambda tu: c20_parse.check_cpp_tu(root, tu), tus))
            seen = set()
            for syntax, other in results:
                for dg in syntax:
                    key = (dg.file, dg.line, dg.code)
                    if key not in seen and (only is None or dg.file in only):
                        seen.add(key)
                        diags.append(dg)
                if only is None:
                    notes["cpp-inconclusive-diagnostics"] = notes.get("cpp-inconclusive-diagnostics", 0) + len(other)
                    if other:
                        notes.setdefault("cpp-inconclusive-sample", other[0])
            if only is None:
                notes["cpp-translation-units-compiled"] = notes.get("cpp-translation-units-compiled", 0) + len(tus)
    return diags


def first_per_file(diags: List[Diag]) -> List[Diag]:
    """The first diagnostic of every file in the order of the tool's output (later ones are cascades)."""
    best = {}  # type: Dict[str, Diag]
    for dg in diags:
        best.setdefault(dg.file, dg)
    return [best[k] for k in sorted(best)]


def nearest_plant(root: pathlib.Path, diag: Diag, plants: Dict[str, List[str]], window: int = 40) -> Optional[List[str]]:
    """The plant whose marker is nearest at or before the reported line (same file)."""
    path = root / diag.file
    if not path.is_file():
        return None
    try:
        lines = path.read_text(encoding="utf-8", errors="replace").split("\n")
    except OSError:
        return None
    if diag.line <= 0:
        return None
    hi = min(len(lines), diag.line + 1)
    for idx in range(hi - 1, max(-1, hi - window), -1):
        for num in reversed(_MARKER_RE.findall(lines[idx])):
            pl = plants.get(f"mk{num}q")
            if pl is not None:
                return pl
    return None


def _read_lines(root: pathlib.Path, rel: str) -> List[str]:
    try:
        return (root / rel).read_text(encoding="utf-8", errors="replace").split("\n")
    except OSError:
        return []


def refine_cause(target: str, root: pathlib.Path, diag: Diag) -> Optional[str]:
    """Recognise the signature of a root cause that is already understood (else None)."""
    lines = _read_lines(root, diag.file)
    at = lines[diag.line - 1] if 0 < diag.line <= len(lines) else ""
    if target == "cpp" and diag.code == "line-comment-ends-with-backslash":
        return "line-comment-ends-with-backslash"
    if target == "python" and diag.code.startswith("SyntaxError:unterminated") and at.rstrip().endswith('""""'):
        return "docstring-ends-with-double-quote"
    if target == "java" and diag.code == "javac:illegal.unicode.esc":
        st_ = at.lstrip()
        return "backslash-u-in-doc-comment" if (st_.startswith("*") or st_.startswith("/*") or st_.startswith("//")) \
            else "backslash-u-outside-comment"
    if target in ("java", "typescript") and diag.line > 0:
        # any documentation comment opened before the reported line that is closed by a "*/" which is followed by
        # more comment-looking text (the parser may stumble only much later)
        # (the TypeScript parser reports some of these at the start of the enclosing declaration: whole file)
        hi = len(lines) if target == "typescript" else min(len(lines), diag.line + 2)
        idx = 0
        while idx < hi:
            if lines[idx].lstrip().startswith("/**"):
                j = idx
                while j < len(lines):
                    pos = lines[j].find("*/", 3 if j == idx else 0)
                    if pos >= 0:
                        rest = lines[j][pos + 2:].strip()
                        nxt = next((ln.strip() for ln in lines[j + 1:j + 3] if ln.strip()), "")
                        if rest != "" or nxt.startswith("*"):
                            return "comment-close-in-doc-comment"
                        break
                    j += 1
                idx = j + 1
            else:
                idx += 1
    return None


def text_bucket(target: str, root: pathlib.Path, diag: Diag, plants: Dict[str, List[str]], mode: Dict[str, Any]) -> str:
    kind = file_kind(target, diag.file)
    cause = refine_cause(target, root, diag)
    if cause is not None:
        return f"{target}:{kind}:{cause}"
    pl = nearest_plant(root, diag, plants)
    if mode.get("mode") == "single":
        group = None
        if pl is not None:
            group = where_group(pl[2])
        else:
            blob = "\n".join(_read_lines(root, diag.file))
            groups = {where_group(plants[f"mk{n}q"][2]) for n in _MARKER_RE.findall(blob) if f"mk{n}q" in plants}
            if len(groups) == 1:
                group = groups.pop()
            elif groups and all(g != "description" for g in groups):
                group = "value"
        if group == "description":
            fc = str(mode.get("doc_class"))
            form = mode.get("doc_form")
            if form in ("text-at-end", "literal", "constraint-id", "emphasis"):
                fc += "@" + str(form)
            return f"{target}:{kind}:description:{fc}"
        if group is not None:
            return f"{target}:{kind}:{group}:{mode.get('value_class')}"
        return f"{target}:{kind}:text:{mode.get('doc_class')}@{mode.get('doc_form')}|{mode.get('value_class')}"
    if pl is None:
        return f"{target}:{kind}:text:unattributed:{diag.code}"
    grp, fc = trigger_key(pl[1], pl[2], pl[3])
    return f"{target}:{kind}:{grp}:{fc}"


def evaluate(case: Dict[str, Any], base: pathlib.Path, notes: Dict[str, Any]) -> Dict[str, Any]:
    text = case["text"]
    neutral_text = case.get("neutral_text")
    mode = case.get("mode") if isinstance(case.get("mode"), dict) else {}
    plants = {p[0]: list(p) for p in case.get("plants", []) if isinstance(p, (list, tuple)) and len(p) == 4}
    cpp_level = int(case.get("cpp", 0) or 0)
    targets = [t for t in (case.get("targets") or sut.TARGETS) if t in sut.TARGETS]
    res = {"accepted": False, "fails": [], "classes": [], "reached": set(), "excluded": []}  # type: Dict[str, Any]
    try:
        _, _, err = sut.load_text(text, base)
    except BaseException:  # noqa: front-end crashes belong to C01
        res["classes"].append("front-end-crash")
        return res
    if err is not None:
        res["classes"].append("rejected-by-front-end")
        res["reject_reason"] = err
        return res
    res["accepted"] = True
    for target in targets:
        d = None  # type: Optional[pathlib.Path]
        dn = None  # type: Optional[pathlib.Path]
        try:
            try:
                rc, _, errtxt, d = sut.generate(text, target, base, keep=True)
            except BaseException as e:  # noqa
                if type(e).__name__ in ("KeyboardInterrupt", "SystemExit", "MemoryError"):
                    raise
                res["classes"].append(f"{target}:crashed")
                res["excluded"].append(f"{target}-crashed(C02)")
                continue
            if rc != 0:
                res["classes"].append(f"{target}:reported-error")
                res["excluded"].append(f"{target}-reported-error")
                res.setdefault("reported", {})[target] = errtxt[:600]
                continue
            assert d is not None
            root = d / "out"
            res["classes"].append(f"{target}:generated")
            level = cpp_level if target == "cpp" else 0
            try:
                diags = first_per_file(check_target_output(target, root, level, base, notes))
            except c20_parse.ToolError as e:
                raise runner.HarnessError(f"tool of the harness is missing or broken: {e}")
            # which markers reached this target's files?
            blob = []
            for rel in list_files(root, TARGET_EXT[target]):
                try:
                    blob.append((root / rel).read_text(encoding="utf-8", errors="replace"))
                except OSError:
                    pass
            found = set(_MARKER_RE.findall("\n".join(blob)))
            hit = {m for m in plants if m[2:-1] in found}
            if hit:
                res["classes"].append(f"{target}:marker-reached")
            res["reached"] |= hit
            if not diags:
                res["classes"].append(f"{target}:all-files-parse")
                continue
            res["classes"].append(f"{target}:some-file-does-not-parse")
            # structural or text-caused? regenerate with neutral fragments and re-check the failing files
            neutral_fail = {}  # type: Dict[str, Diag]
            neutral_ok = False
            if isinstance(neutral_text, str) and neutral_text != text:
                try:
                    rcn, _, _, dn = sut.generate(neutral_text, target, base, keep=True)
                    if rcn == 0 and dn is not None:
                        nd = first_per_file(check_target_output(target, dn / "out", level, base, notes,
                                                                only=[dg.file for dg in diags]))
                        neutral_fail = {dg.file: dg for dg in nd}
                        neutral_ok = True
                except BaseException as e:  # noqa
                    if type(e).__name__ in ("KeyboardInterrupt", "SystemExit", "MemoryError"):
                        raise
            seen_buckets = set()
            for dg in diags:
                kind = file_kind(target, dg.file)
                if dg.file in neutral_fail or (not neutral_ok and not plants):
                    nd_ = neutral_fail.get(dg.file, dg)
                    nroot = (dn / "out") if dn is not None and dg.file in neutral_fail else root
                    line = ""
                    try:
                        lines = (nroot / nd_.file).read_text(encoding="utf-8", errors="replace").split("\n")
                        if 0 < nd_.line <= len(lines):
                            line = lines[nd_.line - 1]
                    except OSError:
                        pass
                    b = f"{target}:{kind}:structure:{nd_.code}:{normalize_code_line(line)}"
                    res["classes"].append(f"{target}:structural-failure")
                else:
                    b = text_bucket(target, root, dg, plants, mode)
                    res["classes"].append(f"{target}:text-caused-failure")
                if b in seen_buckets:
                    continue
                seen_buckets.add(b)
                res["fails"].append((b, f"[{target}] {dg.file}:{dg.line}: {dg.code}: {dg.message}"))
        finally:
            if d is not None:
                shutil.rmtree(d, ignore_errors=True)
            if dn is not None:
                shutil.rmtree(dn, ignore_errors=True)
    return res


def make_case(ts: c20_gen.TextSpec, cpp_level: int) -> Dict[str, Any]:
    return {
        "text": c20_gen.render(ts),
        "neutral_text": c20_gen.render(ts, neutral=True),
        "plants": [[p.marker, p.fragment, p.where, p.form] for p in ts.plants],
        "mode": {"mode": ts.mode, "doc_class": ts.doc_class, "doc_form": ts.doc_form, "value_class": ts.value_class},
        "cpp": cpp_level,
    }


def shard(ctx: runner.Ctx) -> None:
    n = ctx.n(160, 6000)
    counter = {"i": 0}
    notes = {}  # type: Dict[str, Any]

    def one(c: Dict[str, Any]) -> None:
        ts = c["ts"]  # type: c20_gen.TextSpec
        i = counter["i"]
        counter["i"] += 1
        if ctx.quick:
            cpp_level = 1 if (i == 1 and ctx.shard < 6) else 0  # (example 0 of a Hypothesis run is the minimal one)
        else:
            cpp_level = (2 if i % 60 == 0 else 1) if i % 6 == 0 else 0
        case = make_case(ts, cpp_level)
        res = evaluate(case, ctx.scratch, notes)
        for ex in res["excluded"]:
            ctx.exclude(ex)
        classes = list(res["classes"])
        if res["accepted"]:
            classes.append("accepted")
        classes += sorted({f"text:{p.where}" for p in ts.plants})
        classes += sorted({f"fragment:{fragment_class(p.fragment, p.form)}" for p in ts.plants})
        classes += sorted({f"form:{p.form}" for p in ts.plants})
        classes.append(f"mode:{ts.mode}" + ("-without-known-triggers" if ts.avoided_known else ""))
        if cpp_level:
            classes.append(f"cpp-compiled-level-{cpp_level}")
        nt = res["accepted"] and len(res["reached"]) > 0
        ctx.case(nt, key=case["text"],
                 sample={"mode": case["mode"], "markers_reached": len(res["reached"]), "plants": case["plants"][:10],
                         "outcomes": res["classes"], "text_head": case["text"][:1200]},
                 classes=classes)
        for b, m in res["fails"]:
            fc = dict(case)
            fc["targets"] = [b.split(":")[0]]
            ctx.fail(b, fc, m)

    runner.hyp_run(cases(), one, n, ctx.seed)
    for k, v in notes.items():
        ctx.notes[k] = v
    unit_stage(ctx)


def unit_stage(ctx: runner.Ctx) -> None:
    """Function level: the text -> comment/docstring functions of the targets on thousands of texts."""
    collected = []  # type: List[str]
    runner.hyp_run(c20_unit.texts(), collected.append, ctx.n(6_400, 600_000), ctx.seed + 11)
    todo = list(dict.fromkeys(collected))
    for k in range(0, len(todo), 200):
        chunk = todo[k:k + 200]
        root = sut.fresh_dir(ctx.scratch, "c20-unit")
        try:
            fails = c20_unit.check_batch(root, ctx.scratch, list(enumerate(chunk)))
        finally:
            shutil.rmtree(root, ignore_errors=True)
        for text in chunk:
            ctx.case(c20_unit.dangerous(text), key=["unit", text], sample={"unit_text": text},
                     classes=["unit:text", "unit:one-line" if "\n" not in text else "unit:multi-line",
                              "unit:shorter-than-64" if len(text) < 64 else "unit:64-or-longer"])
        for idx, name, kind, msg in fails:
            ctx.fail(f"{name}:{kind}", {"unit_text": chunk[idx]}, msg)


def _sanitize(case: Any) -> Optional[Dict[str, Any]]:
    if not isinstance(case, dict) or not isinstance(case.get("text"), str):
        return None
    plants = case.get("plants")
    if not isinstance(plants, list):
        plants = []
    plants = [p for p in plants if isinstance(p, list) and len(p) == 4 and all(isinstance(x, str) for x in p)]
    targets = case.get("targets")
    if not isinstance(targets, list) or not all(isinstance(t, str) for t in targets):
        targets = None
    try:
        cpp = int(case.get("cpp", 0) or 0)
    except (TypeError, ValueError):
        cpp = 0
    neutral = case.get("neutral_text") if isinstance(case.get("neutral_text"), str) else None
    mode = case.get("mode") if isinstance(case.get("mode"), dict) else {}
    return {"text": case["text"], "neutral_text": neutral, "plants": plants, "cpp": cpp, "targets": targets, "mode": mode}


def replay(case: Any) -> List[Tuple[str, str]]:
    if isinstance(case, dict) and isinstance(case.get("unit_text"), str):
        text = case["unit_text"].strip()
        if not text:
            return []
        base = runner.make_scratch("c20-replay")
        try:
            return [(f"{name}:{kind}", msg) for _, name, kind, msg in c20_unit.check_batch(base / "unit", base, [(0, text)])]
        finally:
            shutil.rmtree(base, ignore_errors=True)
    c = _sanitize(case)
    if c is None:
        return []
    base = runner.make_scratch("c20-replay")
    try:
        res = evaluate(c, base, {})
    finally:
        shutil.rmtree(base, ignore_errors=True)
    return list(res["fails"])


def shrink(case: Any, bucket: str, budget: float) -> Any:
    """Delete top-level entities (same line ranges in the text and its neutral twin), then single lines."""
    if isinstance(case, dict) and isinstance(case.get("unit_text"), str):
        from vlib import shrink as vshrink

        return vshrink.jshrink(case, lambda c: isinstance(c, dict) and isinstance(c.get("unit_text"), str)
                               and any(b == bucket for b, _ in replay(c)), budget)
    c = _sanitize(case)
    if c is None:
        return case
    t_end = time.time() + budget
    base = runner.make_scratch("c20-shrink")
    runner.isolate_tmp(base)

    def fails(cand: Dict[str, Any]) -> bool:
        try:
            return any(b == bucket for b, _ in evaluate(cand, base, {})["fails"])
        except Exception:  # noqa
            return False

    try:
        lines = c["text"].split("\n")
        nlines = c["neutral_text"].split("\n") if c["neutral_text"] is not None else None
        if nlines is not None and len(nlines) != len(lines):
            nlines = None

        def build(keep: List[bool]) -> Dict[str, Any]:
            cand = dict(c)
            cand["text"] = "\n".join(ln for ln, k in zip(lines, keep) if k)
            cand["neutral_text"] = "\n".join(ln for ln, k in zip(nlines, keep) if k) if nlines is not None else None
            return cand

        keep = [True] * len(lines)
        # blocks = runs of lines separated by two empty lines (top-level entities of mmgen.render)
        blocks = []  # type: List[Tuple[int, int]]
        start = 0
        i = 0
        while i < len(lines):
            if lines[i] == "" and i + 1 < len(lines) and lines[i + 1] == "":
                blocks.append((start, i + 2))
                start = i + 2
                i += 2
            else:
                i += 1
        blocks.append((start, len(lines)))
        for lo, hi in reversed(blocks):
            if time.time() > t_end:
                break
            trial = list(keep)
            for j in range(lo, hi):
                trial[j] = False
            if fails(build(trial)):
                keep = trial
        # runs of lines (docstring lines, invariants, properties)
        chunk = 8
        while chunk >= 1 and time.time() < t_end:
            idxs = [j for j, k in enumerate(keep) if k]
            pos = 0
            while pos < len(idxs) and time.time() < t_end:
                trial = list(keep)
                for j in idxs[pos:pos + chunk]:
                    trial[j] = False
                if fails(build(trial)):
                    keep = trial
                pos += chunk
            chunk //= 2
        out = build(keep)
        used = set(_MARKER_RE.findall(out["text"]))
        out["plants"] = [p for p in out["plants"] if p[0][2:-1] in used]
        return out if fails(out) else c
    finally:
        shutil.rmtree(base, ignore_errors=True)


def health(m: Any, tier: str) -> Any:
    acc = m["classes"].get("accepted", 0)
    models = m["evaluations"] - m["classes"].get("unit:text", 0)  # the function-level stage has its own cases
    if acc < 0.9 * models:
        return f"only {acc}/{models} generated models accepted by the front end"
    if m["classes"].get("unit:text", 0) < 10 * models and tier == "quick":
        return f"function-level stage ran only {m['classes'].get('unit:text', 0)} texts"
    for target in sut.TARGETS:
        ok = m["classes"].get(f"{target}:generated", 0)
        if ok < 0.3 * acc:
            return f"target {target} generated code for only {ok}/{acc} accepted models"
        if target not in ("jsonschema", "xsd") and m["classes"].get(f"{target}:marker-reached", 0) < 0.25 * acc:
            return f"markers reached {target} output in only {m['classes'].get(f'{target}:marker-reached', 0)}/{acc} models"
    if m["nontrivial_n"] < 0.5 * m["evaluations"]:
        return f"only {m['nontrivial_n']} non-trivial of {m['evaluations']}"
    return None


if __name__ == "__main__":
    runner.main(sys.modules[__name__])
