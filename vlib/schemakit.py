"""
Shared machinery of the schema checks (C11-C14): constraint-aware instances, the reference
validity test, a JSON-Schema validator implementing the schema's UTF-16 pattern convention,
XSD root-element snippets, naming of JSON/XML members (re-implemented, not imported).
"""
from __future__ import annotations

import re
from typing import Any, Dict, List, Optional, Tuple

from hypothesis import strategies as st

from vlib import instgen, mmgen, refmodel
from vlib.mmgen import Spec, TRef


# ---- naming conventions of the serialisations (documented in naming.py docstrings) ----

def lower_camel(identifier: str) -> str:
    parts = identifier.split("_")
    return parts[0].lower() + "".join(p.capitalize() for p in parts[1:])


def cap_camel(identifier: str) -> str:
    return "".join(p.capitalize() for p in identifier.split("_"))


json_prop = lower_camel
xml_name = lower_camel
model_type = cap_camel


# ---- reference constraints per value (from generator tags) ----

class Ref:
    def __init__(self) -> None:
        self.len = []  # type: List[Tuple[Optional[int], Optional[int], str]]
        self.patterns = []  # type: List[str]
        self.sets = []  # type: List[Any]
        self.declaring = set()  # type: set

    def len_range(self) -> Tuple[int, Optional[int]]:
        lo, hi = 0, None  # type: Tuple[int, Optional[int]]
        for mn, mx, _ in self.len:
            if mn is not None:
                lo = max(lo, mn)
            if mx is not None:
                hi = mx if hi is None else min(hi, mx)
        return lo, hi

    def admits(self, v: Any) -> bool:
        if self.len:
            lo, hi = self.len_range()
            if len(v) < lo or (hi is not None and len(v) > hi):
                return False
        for p in self.patterns:
            if re.match(p, v) is None:
                return False
        for s in self.sets:
            if v not in s:
                return False
        return True

    def empty(self) -> bool:
        return not (self.len or self.patterns or self.sets)


def _expand(spec: Spec, k: Any) -> List[Any]:
    out = list(k.value)
    for s in k.superset_of:
        out += _expand(spec, next(x for x in spec.consts if x.name == s))
    return out


def build_refs(spec: Spec, own_only_for: Optional[str] = None) -> Tuple[Dict[str, Ref], Dict[Tuple[str, str], Ref]]:
    """Recognised constraints per constrained primitive (chain) and per (class, property) incl. ancestors."""
    fn_pat = {f.name: f.pattern for f in spec.fns if f.kind == "pattern"}
    const_sets = {k.name: set(_expand(spec, k)) for k in spec.consts if k.kind.startswith("set_")}
    cp_refs = {}  # type: Dict[str, Ref]
    for cp in spec.cps:
        r = Ref()
        for k in [cp.name] + spec.cp_ancestors(cp.name):
            for inv in spec.cp(k).invs:
                t = inv.tags
                if not t.get("recognised"):
                    continue
                r.declaring.add(k)
                if t["form"] == "len":
                    r.len.append((t["min"], t["max"], k))
                elif t["form"] == "pattern":
                    r.patterns += [fn_pat[f] for f in t["fns"]]
        cp_refs[cp.name] = r
    prop_refs = {}  # type: Dict[Tuple[str, str], Ref]
    for c in spec.classes:
        for p in spec.all_props(c.name):
            r = Ref()
            core = p.type.core
            if core.kind == "cp":
                base = cp_refs[core.name]
                r.len += base.len
                r.patterns += base.patterns
                r.declaring |= base.declaring
            for k in [c.name] + spec.ancestors(c.name):
                for inv in spec.cls(k).invs:
                    t = inv.tags
                    if t.get("prop") != p.name or not t.get("recognised"):
                        continue
                    r.declaring.add(k)
                    if t["form"] == "len":
                        r.len.append((t["min"], t["max"], k))
                    elif t["form"] == "pattern":
                        r.patterns += [fn_pat[f] for f in t["fns"]]
                    elif t["form"] == "set":
                        r.sets.append(const_sets[t["set"]])
            prop_refs[(c.name, p.name)] = r
    return cp_refs, prop_refs


# ---- constraint-aware instance generation ----

GENERIC = (["a" * n for n in range(0, 9)] + ["ab" * n for n in range(1, 4)] + ["0" * n for n in range(1, 5)]
           + ["A" + "a" * n for n in range(0, 5)] + [".a", ".ab", ".abc", "x-y", "xay", "00", "af-09", "+1", "-12", "_", "ab_1",
              "c", "ac", "abc", "bbcc", "cd", "abcd", "   ", "é", "\U0001F600b", "Foo bar", "x-1", "A-1", " "])


class SchemaInstGen(instgen.InstGen):
    """Instances whose values are drawn to satisfy the recognised constraints of their position."""

    def __init__(self, spec: Spec, **kw: Any) -> None:
        super().__init__(spec, **kw)
        self.cp_refs, self.prop_refs = build_refs(spec)
        pool = list(GENERIC)
        for f in spec.fns:
            pool += list(f.examples)
        for k in spec.consts:
            if k.kind == "set_str":
                pool += list(k.value)
        self.str_pool = list(dict.fromkeys(pool))

    def constrained(self, t: TRef, ref: Ref, depth: int) -> Any:
        spec = self.spec
        if t.kind in ("prim", "cp"):
            prim = t.name if t.kind == "prim" else spec.cp_prim(t.name)
            if prim == "str":
                ok = [s for s in self.str_pool if ref.admits(s)]
                if not ok:
                    return self.s_str()
                # strings with non-ASCII characters are the interesting half for pattern translations
                special = [s for s in ok if not s.isascii()]
                return st.one_of(st.sampled_from(special), st.sampled_from(ok)) if special else st.sampled_from(ok)
            if prim == "bytearray":
                lo, hi = ref.len_range()
                hi2 = hi if hi is not None else lo + 3
                if hi2 < lo:
                    return self.s_bytes()
                return st.integers(lo, min(hi2, lo + 6)).flatmap(
                    lambda k: st.lists(st.integers(0, 255), min_size=k, max_size=k)).map(lambda xs: {"bytes": xs})
            if prim == "int" and ref.sets:
                ok = sorted(set.intersection(*[set(s) for s in ref.sets]))
                return st.sampled_from(ok) if ok else self.s_int()
            return self.value(t, depth)
        if t.kind == "enum" and ref.sets:
            ok = sorted(set.intersection(*[set(s) for s in ref.sets]))
            return st.sampled_from([{"enum": t.name, "lit": n} for n in ok]) if ok else self.value(t, depth)
        if t.kind == "list":
            assert t.item is not None
            lo, hi = ref.len_range()
            if depth >= self.max_depth and lo == 0:
                return st.just([])
            hi2 = hi if hi is not None else lo + 2
            if hi2 < lo:
                return st.just([])
            item_ref = self.cp_refs[t.item.name] if t.item.kind == "cp" else Ref()
            item = self.constrained(t.item, item_ref, depth + 1) if not item_ref.empty() else self.value(t.item, depth + 1)
            return st.integers(lo, min(hi2, lo + 3)).flatmap(lambda k: st.lists(item, min_size=k, max_size=k))
        return self.value(t, depth)

    def value(self, t: TRef, depth: int) -> Any:  # constrained primitives anywhere (e.g. list items)
        if t.kind == "cp" and not self.cp_refs[t.name].empty():
            return self.constrained(t, self.cp_refs[t.name], depth)
        return super().value(t, depth)

    def instance(self, cname: str, depth: int = 0) -> Any:
        props = self.spec.all_props(cname)
        if not props:
            return st.just({"cls": cname, "props": {}})
        fields = {}
        for p in props:
            ref = self.prop_refs[(cname, p.name)]
            if ref.empty():
                fields[p.name] = self.value(p.type, depth)
            else:
                core = self.constrained(p.type.core, ref, depth)
                if p.type.optional:
                    fields[p.name] = st.one_of(st.none(), core, core) if depth < self.max_depth else st.one_of(st.none(), core)
                else:
                    fields[p.name] = core
        return st.fixed_dictionaries(fields).map(lambda d: {"cls": cname, "props": d})


def satisfies_all(spec: Spec, rm: refmodel.RefModel, neutral: Any) -> Optional[bool]:
    """True iff every invariant holds under the reference evaluator; None if evaluation raises."""
    try:
        ref = refmodel.to_ref(spec, rm, neutral)
        return len(refmodel.expected_errors(spec, rm, neutral, ref)) == 0
    except BaseException:  # noqa
        return None


# ---- JSON Schema validation under the schema's UTF-16 pattern convention ----

def utf16_units(s: str) -> str:
    b = s.encode("utf-16-le", "surrogatepass")
    return "".join(chr(int.from_bytes(b[i:i + 2], "little")) for i in range(0, len(b), 2))


def make_json_validator(schema: Dict[str, Any], definition: str) -> Any:
    import jsonschema
    from jsonschema import validators

    def pattern_kw(validator: Any, patrn: str, instance: Any, schema_: Any) -> Any:
        if not isinstance(instance, str):
            return
        if re.search(patrn, utf16_units(instance)) is None:
            yield jsonschema.ValidationError(f"{instance!r} does not match {patrn!r} (UTF-16 code units)")

    cls = validators.extend(jsonschema.Draft201909Validator, {"pattern": pattern_kw})
    full = dict(schema)
    full.pop("allOf", None)
    full["allOf"] = [{"$ref": f"#/definitions/{definition}"}]
    return cls(full)


def check_refs(schema: Any) -> List[str]:
    """All local $ref targets that do not resolve."""
    missing = []
    defs = schema.get("definitions", {})

    def walk(n: Any) -> None:
        if isinstance(n, dict):
            r = n.get("$ref")
            if isinstance(r, str):
                if r.startswith("#/definitions/"):
                    if r[len("#/definitions/"):] not in defs:
                        missing.append(r)
                else:
                    missing.append(r)
            for v in n.values():
                walk(v)
        elif isinstance(n, list):
            for v in n:
                walk(v)

    walk(schema)
    return missing


# ---- XSD ----

def xsd_root_snippet(spec: Spec) -> str:
    ns = spec.xml_namespace
    elems = "\n".join(
        f'    <xs:element name="{xml_name(c.name)}" type="{xml_name(c.name)}_t"/>' for c in spec.classes if not c.abstract
    )
    return (f'<xs:schema\n        xmlns:xs="http://www.w3.org/2001/XMLSchema"\n        xmlns="{ns}"\n'
            f'        elementFormDefault="qualified"\n        targetNamespace="{ns}"\n>\n{elems}\n</xs:schema>')
