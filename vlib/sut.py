"""Thin wrappers around the system under test (always imported from VERIF_REPO, default /repo)."""
from __future__ import annotations

import io
import itertools
import os
import pathlib
import shutil
import tempfile
from typing import Any, Dict, List, Optional, Tuple

import vlib  # noqa: F401  (sets sys.path for VERIF_REPO)

TARGETS = ["cpp", "csharp", "golang", "java", "jsonschema", "python", "typescript", "xsd"]

_counter = itertools.count()


def fresh_dir(base: pathlib.Path, tag: str) -> pathlib.Path:
    p = base / f"{tag}-{os.getpid()}-{next(_counter)}"
    p.mkdir(parents=True, exist_ok=True)
    return p


FILE_VARIANTS = ["utf-8-sig", "crlf", "cr", "utf-16", "latin-1", "nul-appended", "bom-in-the-middle", "form-feed-first"]


def file_bytes(text: str, variant: Optional[str]) -> bytes:
    """The bytes of a model file holding ``text`` under a file-level variant (None: plain UTF-8)."""
    if variant is None:
        return text.encode("utf-8")
    if variant == "utf-8-sig":
        return b"\xef\xbb\xbf" + text.encode("utf-8")
    if variant == "crlf":
        return text.replace("\n", "\r\n").encode("utf-8")
    if variant == "cr":
        return text.replace("\n", "\r").encode("utf-8")
    if variant == "utf-16":
        return text.encode("utf-16")
    if variant == "latin-1":
        return text.encode("latin-1", "replace") + b"\n# caf\xe9\n"
    if variant == "nul-appended":
        return text.encode("utf-8") + b"\x00\n"
    if variant == "bom-in-the-middle":
        lines = text.split("\n")
        k = len(lines) // 2
        return "\n".join(lines[:k] + ["\ufeff" + lines[k]] + lines[k + 1:]).encode("utf-8")
    if variant == "form-feed-first":
        return b"\x0c" + text.encode("utf-8")
    raise ValueError(variant)


def write_model(mp: pathlib.Path, text: Any) -> None:
    if isinstance(text, bytes):
        mp.write_bytes(text)
    else:
        mp.write_text(text, encoding="utf-8")


def load_text(text: Any, base: pathlib.Path) -> Tuple[Optional[Any], Optional[Any], Optional[str]]:
    """Run the front end on ``text``: (symbol_table, atok, error). Exceptions propagate."""
    from aas_core_codegen import run

    mp = base / f"meta_model_{os.getpid()}.py"
    write_model(mp, text)
    res, err = run.load_model(mp)
    if err is not None:
        return None, None, err
    assert res is not None
    return res[0], res[1], None


# Minimal snippets every target needs (values chosen like the repository's own test data).
BASE_SNIPPETS = {
    "cpp": {"namespace.txt": "verif::gen"},
    "csharp": {"namespace.txt": "Verif.Gen"},
    "golang": {"repo_url.txt": "example.com/verif/gen"},
    "java": {"package.txt": "verif.gen"},
    "jsonschema": {
        "schema_base.json": '{\n  "$schema": "https://json-schema.org/draft/2019-09/schema",\n'
                            '  "title": "Verif",\n  "type": "object"\n}'
    },
    "python": {"qualified_module_name.txt": "verifgen"},
    "typescript": {"package_documentation.txt": "Verif package.", "package_identifier.txt": "verifgen"},
    "xsd": {
        "root_element.xml": '<xs:schema\n        xmlns:xs="http://www.w3.org/2001/XMLSchema"\n'
                            '        xmlns="https://example.com/ns/1"\n        elementFormDefault="qualified"\n'
                            '        targetNamespace="https://example.com/ns/1"\n>\n</xs:schema>'
    },
}


def write_snippets(d: pathlib.Path, snippets: Dict[str, str]) -> None:
    d.mkdir(parents=True, exist_ok=True)
    for key, val in snippets.items():
        p = d / key
        p.parent.mkdir(parents=True, exist_ok=True)
        p.write_text(val, encoding="utf-8")


def execute(
    model_path: pathlib.Path,
    target: str,
    snippets_dir: pathlib.Path,
    output_dir: pathlib.Path,
    cache_model: bool = False,
) -> Tuple[int, str, str]:
    """``main.execute`` in-process: (rc, stdout, stderr). Exceptions propagate."""
    from aas_core_codegen import main as cg_main

    params = cg_main.Parameters(
        model_path=model_path,
        target=cg_main.Target(target),
        snippets_dir=snippets_dir,
        output_dir=output_dir,
        cache_model=cache_model,
    )
    out, err = io.StringIO(), io.StringIO()
    rc = cg_main.execute(params, stdout=out, stderr=err)
    return rc, out.getvalue(), err.getvalue()


def generate(
    text: Any,
    target: str,
    base: pathlib.Path,
    extra_snippets: Optional[Dict[str, str]] = None,
    keep: bool = False,
) -> Tuple[int, str, str, Optional[pathlib.Path]]:
    """Write model + snippets into a fresh dir and run one target."""
    d = fresh_dir(base, f"gen-{target}")
    mp = d / "meta_model.py"
    write_model(mp, text)
    sn = dict(BASE_SNIPPETS[target])
    if extra_snippets:
        sn.update(extra_snippets)
    write_snippets(d / "snippets", sn)
    outd = d / "out"
    try:
        rc, out, err = execute(mp, target, d / "snippets", outd)
    except BaseException:
        shutil.rmtree(d, ignore_errors=True)
        raise
    if keep:
        return rc, out, err, d
    shutil.rmtree(d, ignore_errors=True)
    return rc, out, err, None
