"""C25 — Snippet directory is loaded exactly."""
from __future__ import annotations

import io
import os
import pathlib
import shutil
import sys
import tempfile
from typing import Any, Dict, List, Optional, Sequence, Tuple

from hypothesis import strategies as st

from vlib import runner

PID = "C25"
RULE = (
    "Hypothesis draws a directory-tree description (depth <= 4, <= ~14 entries): regular files, "
    "directories, symlinks to regular files (absolute target outside the tree / relative hidden "
    "sibling); names from valid key parts (identifiers, dotted names, '_', trailing dot), invalid "
    "ones (space, '-', leading digit, non-ASCII incl. full-width letters, '*', backslash, interior "
    "and TRAILING newline, undecodable byte) and hidden ones ('.x' files and '.x' directories that "
    "contain regular files); contents = bytes: UTF-8 text wrapped in leading/trailing whitespace "
    "from all 29 code points str.strip() removes plus look-alikes that are not whitespace "
    "(U+200B, U+FEFF, U+2060), empty, whitespace-only, BOM-prefixed, interior CR/CRLF, and invalid "
    "UTF-8 (0xFF, truncated, surrogate, overlong, UTF-16, latin-1). 40% of the trees are 'clean' "
    "(only valid names/encodings outside hidden entries), half of the trees may put files into "
    "hidden directories; the snippets root is placed plainly, below a hidden parent or is itself "
    "hidden-named. The tree is materialised under ctx.scratch. Oracle = reference model written "
    "from the property text (walk; skip entries whose own name or any directory component below "
    "the root starts with '.'; key = '/'-joined components; hand-written key grammar; strict "
    "UTF-8 decode; strip by the explicit whitespace table): no offender -> "
    "read_from_directory == (exact mapping, None) and main.execute(python target, fixed "
    "meta-model with an implementation-specific method) returns 0 and the generated types.py "
    "embeds the stripped nested snippet under the stripped module name; offenders -> "
    "(None, errors) with every offender named by an error and every error naming an offender, "
    "main.execute returns 1 with a '<message>:\\n* ...' report naming every offender, empty "
    "stdout; never an exception. Non-trivial = tree has >= 1 hidden entry and >= 1 nested "
    "non-hidden regular file; distinct by the tree description."
)
ASSUMPTIONS = [
    "'whitespace' = what Python's str.strip() removes (29 code points: \\t\\n\\v\\f\\r, U+001C-1F, space, U+0085, "
    "U+00A0, U+1680, U+2000-200A, U+2028, U+2029, U+202F, U+205F, U+3000); U+FEFF (BOM), U+200B are content",
    "'content' = the file decoded as strict UTF-8 and read the way Python text mode reads it: interior CRLF / lone CR "
    "count as LF (the property is silent on newline conventions; asserting byte-exact CR would go beyond it)",
    "a BOM is an ordinary U+FEFF character of the content (the property says UTF-8, not UTF-8-with-signature)",
    "a symlink whose target is a regular file is a regular file; it is classified by its own name and path",
    "hidden = the entry's own name or the name of any directory between the snippets root and the entry starts "
    "with '.'; the name of the root itself and of its parents is irrelevant",
    "valid snippet key = '/'-separated parts, each [a-zA-Z_][a-zA-Z_0-9.]* (ASCII), the grammar documented by "
    "IMPLEMENTATION_KEY_RE and required by ImplementationKey",
    "'error naming the file' = the relative POSIX path occurs verbatim in an error / in stderr (in the bulleted "
    "report a path with line breaks may appear with its continuation lines indented by two spaces)",
    "'well-formed report' (write_error_report's documented layout) = first line ends with ':', next line starts "
    "with '* ', text ends with a newline; the wording of messages is not asserted",
    "end-to-end runs use the Python target on a copy of dev/test_data/common_meta_models/constrained_primitives.py "
    "extended by one @implementation_specific method, so that a nested key and its stripped text are observable "
    "in the output; trusted base: os/pathlib for building the tree, bytes.decode('utf-8') as UTF-8 validator",
    "FIFOs, sockets, dangling symlinks, symlinks to directories are not regular files and are not generated",
]

# ---------------------------------------------------------------------------
# Fixed meta-model for the end-to-end runs
# ---------------------------------------------------------------------------

META_MODEL = '''\
from typing import List, Optional

from icontract import DBC, invariant

from aas_core_meta.marker import implementation_specific


@invariant(lambda self: self, "Always true")
class ConstrainedBool(bool, DBC):
    pass


@invariant(lambda self: self > 0, "Larger than zero")
class PositiveInt(int, DBC):
    pass


@invariant(lambda self: self > 0.0, "Larger than zero")
class PositiveFloat(float, DBC):
    pass


@invariant(lambda self: len(self) > 0, "At least one character")
class NonEmptyString(str, DBC):
    pass


@invariant(lambda self: len(self) > 0, "At least one byte")
class NonEmptyBytes(bytearray, DBC):
    pass


class Something(DBC):
    some_bool: ConstrainedBool
    some_int: PositiveInt
    some_float: PositiveFloat
    some_string: NonEmptyString
    some_bytes: NonEmptyBytes

    def __init__(
        self,
        some_bool: ConstrainedBool,
        some_int: PositiveInt,
        some_float: PositiveFloat,
        some_string: NonEmptyString,
        some_bytes: NonEmptyBytes,
    ) -> None:
        self.some_bool = some_bool
        self.some_int = some_int
        self.some_float = some_float
        self.some_string = some_string
        self.some_bytes = some_bytes

    @implementation_specific
    def do_something(self) -> None:
        """Do something."""
        raise NotImplementedError()


__version__ = "dummy"
__xml_namespace__ = "https://dummy.com"
'''

MODULE_KEY = "qualified_module_name.txt"
METHOD_KEY = "Types/Something/do_something.py"

# ---------------------------------------------------------------------------
# Reference model (written from the property text; shares nothing with the repo)
# ---------------------------------------------------------------------------

WHITESPACE = frozenset(
    "\t\n\x0b\x0c\r\x1c\x1d\x1e\x1f \x85\xa0\u1680"
    "\u2000\u2001\u2002\u2003\u2004\u2005\u2006\u2007\u2008\u2009\u200a"
    "\u2028\u2029\u202f\u205f\u3000"
)
_FIRST = frozenset("abcdefghijklmnopqrstuvwxyzABCDEFGHIJKLMNOPQRSTUVWXYZ_")
_REST = _FIRST | frozenset("0123456789.")


def ref_strip(text: str) -> str:
    i, j = 0, len(text)
    while i < j and text[i] in WHITESPACE:
        i += 1
    while j > i and text[j - 1] in WHITESPACE:
        j -= 1
    return text[i:j]


def ref_valid_key(key: str) -> bool:
    for part in key.split("/"):
        if part == "" or part[0] not in _FIRST:
            return False
        if any(c not in _REST for c in part):
            return False
    return True


def ref_text(data: bytes) -> Optional[str]:
    try:
        text = data.decode("utf-8", errors="strict")
    except UnicodeDecodeError:
        return None
    return text.replace("\r\n", "\n").replace("\r", "\n")


class Model:
    def __init__(self) -> None:
        self.mapping = {}  # type: Dict[str, str]
        self.offenders = []  # type: List[Tuple[str, str]]  # (relative path, "key"|"utf8")
        self.hidden_entries = 0
        self.nested_files = 0
        self.files_in_hidden_dirs = 0
        self.rels_in_hidden_dirs = []  # type: List[str]
        self.classes = set()  # type: set


def _content_bytes(node: Any) -> bytes:
    return str(node[2]).encode("latin-1")


def ref_model(tree: Any, ignore_hidden_dirs: bool) -> Model:
    """
    Walk the description.

    ``ignore_hidden_dirs=True`` is the property; ``False`` is the as-if model of the known
    defect (only the entry's own name decides), used to classify a failure by root cause and
    to keep checking everything else behind it.
    """
    m = Model()

    def walk(entries: Any, comps: List[str], under_hidden: bool) -> None:
        for node in entries:
            kind, name = node[0], node[1]
            own_hidden = name.startswith(".")
            path = comps + [name]
            if kind == "d":
                if own_hidden:
                    m.hidden_entries += 1
                    m.classes.add("hidden-dir")
                walk(node[2], path, under_hidden or own_hidden)
                continue
            # regular file or symlink to one
            if kind == "l":
                m.classes.add("symlink")
            if own_hidden:
                m.hidden_entries += 1
                m.classes.add("hidden-file")
                continue
            if under_hidden:
                m.files_in_hidden_dirs += 1
                m.rels_in_hidden_dirs.append("/".join(path))
                m.classes.add("file-in-hidden-dir")
                if ignore_hidden_dirs:
                    continue
            if len(path) > 1:
                m.nested_files += 1
            rel = "/".join(path)
            if name.endswith("\n"):
                m.classes.add("name-ends-with-newline")
            if not ref_valid_key(rel):
                m.offenders.append((rel, "key"))
                m.classes.add("invalid-key")
                continue
            data = _content_bytes(node)
            text = ref_text(data)
            if text is None:
                m.offenders.append((rel, "utf8"))
                m.classes.add("invalid-utf8")
                continue
            stripped = ref_strip(text)
            if data.startswith(b"\xef\xbb\xbf"):
                m.classes.add("bom")
            if data == b"":
                m.classes.add("empty-file")
            elif stripped == "":
                m.classes.add("whitespace-only")
            if text != stripped and any(ord(c) > 0x20 for c in text if c in WHITESPACE):
                m.classes.add("unicode-whitespace-around")
            if b"\r" in data and "\n" in stripped:
                m.classes.add("interior-cr")
            m.mapping[rel] = stripped

    walk(tree, [], False)
    return m


# ---------------------------------------------------------------------------
# Materialising a description
# ---------------------------------------------------------------------------


class BadShape(Exception):
    """The case description cannot be materialised (only after shrinking / hand edits)."""


def _check_name(name: Any) -> str:
    if not isinstance(name, str) or name in ("", ".", "..") or "/" in name or "\0" in name:
        raise BadShape(repr(name))
    try:
        raw = os.fsencode(name)
    except (UnicodeError, ValueError) as e:
        raise BadShape(str(e))
    if len(raw) > 200:
        raise BadShape("name too long")
    return name


def validate(tree: Any, depth: int = 0) -> None:
    if not isinstance(tree, list) or depth > 8:
        raise BadShape("tree")
    seen = set()
    for node in tree:
        if not isinstance(node, list) or len(node) < 3 or node[0] not in ("f", "d", "l"):
            raise BadShape("node")
        name = _check_name(node[1])
        if name in seen:
            raise BadShape("duplicate name")
        seen.add(name)
        if node[0] == "d":
            validate(node[2], depth + 1)
        else:
            if not isinstance(node[2], str):
                raise BadShape("content")
            try:
                node[2].encode("latin-1")
            except UnicodeError:
                raise BadShape("content not bytes")
            if node[0] == "l":
                if len(node) < 4 or node[3] not in (0, 1):
                    raise BadShape("link mode")
                if node[3] == 1:
                    tgt = ".tgt_" + name
                    if tgt in seen or len(os.fsencode(tgt)) > 200:
                        raise BadShape("link target name")
                    seen.add(tgt)
    # the hidden sibling targets must not collide with later names either
    names = [n[1] for n in tree]
    for node in tree:
        if node[0] == "l" and node[3] == 1 and (".tgt_" + node[1]) in names:
            raise BadShape("link target collides")


def materialise(tree: Any, root: pathlib.Path, outside: pathlib.Path) -> None:
    counter = [0]

    def build(entries: Any, where: pathlib.Path) -> None:
        for node in entries:
            kind, name = node[0], node[1]
            pth = where / name
            if kind == "d":
                pth.mkdir()
                build(node[2], pth)
            elif kind == "f":
                pth.write_bytes(_content_bytes(node))
            else:
                if node[3] == 0:
                    counter[0] += 1
                    target = outside / f"target{counter[0]}"
                    target.write_bytes(_content_bytes(node))
                    os.symlink(str(target), str(pth))
                else:
                    target = where / (".tgt_" + name)
                    target.write_bytes(_content_bytes(node))
                    os.symlink(".tgt_" + name, str(pth))

    root.mkdir(parents=True)
    outside.mkdir(parents=True, exist_ok=True)
    build(tree, root)


_LOCATIONS = ["plain/snippets", ".hidden_parent/snippets", "plain/.snippets"]

# ---------------------------------------------------------------------------
# Evaluation
# ---------------------------------------------------------------------------

B_HIDDEN = "hidden-directory-content-not-ignored"
B_NEWLINE = "e2e-raises-ViolationError@write_error_report:key-ends-with-newline"


def _cmp_api(res: Any, m: Model) -> Optional[Tuple[str, str]]:
    """Compare the result of read_from_directory against a model; None = agrees."""
    if not (isinstance(res, tuple) and len(res) == 2):
        return ("api-bad-return-shape", repr(res)[:300])
    mapping, errors = res
    if not m.offenders:
        if errors is not None or mapping is None:
            return ("api-errors-for-valid-tree", f"errors={errors!r}"[:1500])
        got = dict(mapping)
        if set(got) != set(m.mapping):
            missing = sorted(set(m.mapping) - set(got))
            extra = sorted(set(got) - set(m.mapping))
            return ("api-keys-differ", f"missing={missing!r} extra={extra!r}")
        for k in sorted(m.mapping):
            if got[k] != m.mapping[k] or not isinstance(got[k], str):
                return ("api-content-differs", f"key={k!r} expected={m.mapping[k]!r} got={got[k]!r}")
        return None
    if mapping is not None or errors is None:
        return ("api-no-errors-for-invalid-tree", f"offenders={m.offenders!r} mapping={mapping!r}"[:1500])
    if not isinstance(errors, list) or len(errors) == 0 or not all(isinstance(e, str) and e for e in errors):
        return ("api-bad-errors", repr(errors)[:500])
    for rel, kind in m.offenders:
        if not any(rel in e for e in errors):
            return ("api-offender-not-named", f"offender={rel!r} ({kind}) errors={errors!r}"[:1500])
    rels = [rel for rel, _ in m.offenders]
    for e in errors:
        if not any(rel in e for rel in rels):
            return ("api-error-about-non-offender", f"error={e!r} offenders={rels!r}"[:1500])
    return None


def _as_in_report(rel: str) -> str:
    """A multi-line path as a bulleted report shows it: continuation lines indented by two spaces."""
    segs = rel.splitlines(True)
    if not segs:
        return rel
    return segs[0] + "".join(("  " + seg if seg.strip() != "" else seg) for seg in segs[1:])


def _cmp_e2e(rc: Any, out: str, err: str, output_dir: pathlib.Path, m: Model) -> Optional[Tuple[str, str]]:
    if not m.offenders:
        module = m.mapping.get(MODULE_KEY)
        method = m.mapping.get(METHOD_KEY)
        canonical = (
            module is not None
            and method is not None
            and all(
                p != "" and p[0] in _FIRST and all(c in _REST and c != "." for c in p)
                for p in module.split(".")
            )
            and method.startswith("def do_something(self) -> None:\n    # MARK-")
            and method.endswith("\n    pass")
            and method.count("\n") == 2
        )
        if not canonical:
            # not the shape the generator produces (only after shrinking): only totality is asserted
            return None if rc in (0, 1) else ("e2e-bad-return-code", repr(rc))
        assert module is not None and method is not None
        if rc != 0:
            return ("e2e-fails-for-valid-tree", f"rc={rc!r} stderr={err[:1200]!r}")
        types_py = output_dir.joinpath(*module.split(".")) / "types.py"
        if not types_py.is_file():
            return ("e2e-module-path-differs", f"expected {types_py} to exist (module {module!r})")
        lines = types_py.read_text(encoding="utf-8").split("\n")
        want = ["    " + ln for ln in method.split("\n")]
        hit = any(lines[i:i + 3] == want for i in range(len(lines)))
        if not hit:
            near = [ln for ln in lines if "MARK-" in ln or "do_something" in ln]
            return ("e2e-snippet-not-embedded-stripped", f"want={want!r} near={near!r}")
        return None
    if rc != 1:
        return ("e2e-no-failure-for-invalid-tree", f"rc={rc!r} offenders={m.offenders!r} stderr={err[:800]!r}")
    if out != "":
        return ("e2e-stdout-on-failure", repr(out[:300]))
    segs = err.split("\n")
    if not (len(segs) >= 3 and segs[0].endswith(":") and segs[1].startswith("* ") and err.endswith("\n")):
        return ("e2e-report-malformed", repr(err[:800]))
    for rel, kind in m.offenders:
        if rel not in err and _as_in_report(rel) not in err:
            return ("e2e-offender-not-named", f"offender={rel!r} ({kind}) stderr={err[:1200]!r}")
    return None


def _names_any(texts: Any, rels: Sequence[str]) -> bool:
    """Root-cause evidence: does a produced error name a file that lies below a hidden directory?"""
    if not isinstance(texts, list):
        return False
    return any(
        isinstance(t, str) and (rel in t or _as_in_report(rel) in t) for t in texts for rel in rels
    )


def _in_write_error_report(exc: BaseException) -> bool:
    import traceback

    return any(
        fr.name == "write_error_report" or "write_error_report" in (fr.line or "")
        for fr in traceback.extract_tb(exc.__traceback__)
    )


def evaluate(case: Any, scratch: pathlib.Path) -> Tuple[List[Tuple[str, str]], Model]:
    """Materialise, run both observation points, compare; -> (failures, property model)."""
    from aas_core_codegen import specific_implementations
    import aas_core_codegen.main as acm

    tree = case["tree"]
    loc = _LOCATIONS[int(case.get("loc", 0)) % len(_LOCATIONS)]
    validate(tree)

    model_a = ref_model(tree, ignore_hidden_dirs=True)
    model_b = ref_model(tree, ignore_hidden_dirs=False) if model_a.files_in_hidden_dirs else model_a

    work = pathlib.Path(tempfile.mkdtemp(prefix="case-", dir=str(scratch)))
    fails = []  # type: List[Tuple[str, str]]
    try:
        root = work / loc
        try:
            materialise(tree, root, work / "outside")
        except OSError as e:
            raise BadShape(str(e))

        meta = scratch / "meta_model.py"
        if not meta.exists():
            meta.write_text(META_MODEL, encoding="utf-8")

        # --- observation point 1: read_from_directory
        res = None  # type: Any
        exc = None  # type: Optional[BaseException]
        try:
            res = specific_implementations.read_from_directory(snippets_dir=root)
        except BaseException as e:  # noqa
            exc = e
        m = model_a
        if exc is not None:
            fails.append((f"api-raises-{runner.exc_bucket(exc)}", runner.exc_text(exc)))
        else:
            d = _cmp_api(res, model_a)
            if d is not None and model_b is not model_a and _names_any(res[1], model_a.rels_in_hidden_dirs):
                fails.append(
                    (B_HIDDEN,
                     f"read_from_directory: {model_a.files_in_hidden_dirs} regular file(s) below a hidden "
                     f"directory are not ignored; {d[0]}: {d[1]}")
                )
                m = model_b
                d = _cmp_api(res, model_b)
            if d is not None:
                fails.append(d)

        # --- observation point 2: main.execute
        out, err = io.StringIO(), io.StringIO()
        output_dir = work / "output"
        rc = None  # type: Any
        exc = None
        try:
            rc = acm.execute(
                acm.Parameters(
                    model_path=meta, target=acm.Target.PYTHON, snippets_dir=root, output_dir=output_dir
                ),
                stdout=out, stderr=err,
            )
        except BaseException as e:  # noqa
            exc = e
        if exc is not None:
            a_newline = any(rel.endswith("\n") and kind == "key" for rel, kind in model_a.offenders)
            b_newline = any(rel.endswith("\n") and kind == "key" for rel, kind in model_b.offenders)
            if type(exc).__name__ == "ViolationError" and _in_write_error_report(exc) and b_newline:
                if a_newline:
                    fails.append((B_NEWLINE, runner.exc_text(exc)))
                else:
                    # the newline-named file sits in a hidden directory: it is only seen because of B_HIDDEN
                    fails.append((B_HIDDEN, "main.execute: file below a hidden directory reported; "
                                  + runner.exc_text(exc)[-600:]))
            else:
                fails.append((f"e2e-raises-{runner.exc_bucket(exc)}", runner.exc_text(exc)))
        else:
            d = _cmp_e2e(rc, out.getvalue(), err.getvalue(), output_dir, model_a)
            if d is not None and model_b is not model_a and _names_any([err.getvalue()], model_a.rels_in_hidden_dirs):
                if not any(b == B_HIDDEN for b, _ in fails):
                    fails.append((B_HIDDEN, f"main.execute: files below a hidden directory are not ignored; "
                                  f"{d[0]}: {d[1]}"))
                d = _cmp_e2e(rc, out.getvalue(), err.getvalue(), output_dir, model_b)
            if d is not None:
                fails.append(d)
        # de-duplicate buckets, keep first message
        seen = set()
        uniq = []
        for b, msg in fails:
            if b not in seen:
                seen.add(b)
                uniq.append((b, msg))
        return uniq, model_a
    finally:
        shutil.rmtree(work, ignore_errors=True)


# ---------------------------------------------------------------------------
# Generator
# ---------------------------------------------------------------------------

_valid_name = st.one_of(
    st.sampled_from(["a", "b.py", "Types", "Something", "x.y.z", "_", "A9", "a.", "a..b", "snippet.txt",
                     "__init__.py", "do_something.py", "Z_z.0"]),
    st.builds(lambda f, r: f + r, st.sampled_from(sorted("abXZ_")), st.text(alphabet="abXZ_019.", max_size=6)),
)
_invalid_name = st.one_of(
    st.sampled_from(["1a", "a b", "a-b", "\xfc.py", "\u540d\u524d.txt", "a\n", "a.py\n", "a\nb", " a", "a ",
                     "-", "9", "\xe9", "a*b", "*a", "a\\b", "\udcff", "a\tb", "\n", "x\r", "a\u2028",
                     "\uff21", "\uff41.py", "a\n\n", "~", "a,b", "\u2024a", "a:b", "$a", "a\x1f", "0"]),
    st.text(alphabet="ab1_. -\n\xe9\u4e2d\U0001F600*'\"", min_size=1, max_size=8).filter(
        lambda s: s not in (".", "..") and not s.startswith(".")
    ),
)
_hidden_name = st.one_of(
    st.sampled_from([".gitignore", ".git", ".hidden", "..a", "...", ".a.py", ". ", ".\n", ".1", ".\xe9"]),
    st.builds(lambda n: "." + n, _valid_name),
)

_WS_LIST = sorted(WHITESPACE)
_ws = st.text(alphabet=st.sampled_from(_WS_LIST), max_size=4)
_core_alphabet = "abc XYZ09_.:;#()\n\t\r\xe9\u4e2d\U0001F600\u200b\ufeff\u2060\xa0\u2028\x85"
_core = st.text(alphabet=_core_alphabet, max_size=16)


def _latin(b: bytes) -> str:
    return b.decode("latin-1")


_valid_content = st.one_of(
    st.builds(lambda a, c, b: _latin((a + c + b).encode("utf-8")), _ws, _core, _ws),
    st.builds(lambda a, c, b: _latin((a + c + b).encode("utf-8")), _ws, _core, _ws),
    st.builds(lambda a, c, b: _latin(b"\xef\xbb\xbf" + (a + c + b).encode("utf-8")), _ws, _core, _ws),
    st.builds(lambda a: _latin(a.encode("utf-8")), _ws),  # empty / whitespace only
    st.just(""),
    st.builds(lambda a, b: _latin((a + "x\r\ny\rz" + b).encode("utf-8")), _ws, _ws),
)
_bad_bytes = st.sampled_from([b"\xff", b"\xc3", b"\xed\xa0\x80", b"\xc0\xaf", b"\xf8\x88\x80\x80\x80",
                              b"caf\xe9", b"\xff\xfeh\x00i\x00", b"\x80", b"\xf4\x90\x80\x80", b"\xe2\x82"])
_invalid_content = st.builds(
    lambda a, bad, c: _latin(a.encode("utf-8") + bad + c.encode("utf-8")),
    _core, _bad_bytes, _core,
)


@st.composite
def _entries(draw: Any, depth: int, clean: bool, hdfiles: bool, under_hidden: bool) -> List[Any]:
    n = draw(st.integers(0, 4 if depth > 0 else 5))
    out = []  # type: List[Any]
    names = set()  # type: set
    for _ in range(n):
        kind = draw(st.sampled_from(["f", "f", "f", "d", "d", "l", "hf", "hd"]))
        anything_goes = under_hidden or not clean
        if kind in ("hf", "hd"):
            name = draw(_hidden_name)
        elif anything_goes and draw(st.integers(0, 19)) < 7:
            name = draw(_invalid_name)
        else:
            name = draw(_valid_name)
        if name in names or (".tgt_" + name) in names or name.startswith(".tgt_"):
            continue
        if kind in ("d", "hd"):
            if depth >= 3:
                continue
            hid = under_hidden or name.startswith(".")
            sub = draw(_entries(depth + 1, clean, hdfiles, hid))
            names.add(name)
            out.append(["d", name, sub])
            continue
        if under_hidden and not hdfiles and not name.startswith("."):
            # this tree keeps hidden directories free of non-hidden files (search behind the defect)
            continue
        if anything_goes and draw(st.integers(0, 19)) < 9:
            content = draw(_invalid_content)
        else:
            content = draw(_valid_content)
        names.add(name)
        if kind == "l":
            mode = draw(st.integers(0, 1))
            if mode == 1:
                names.add(".tgt_" + name)
            out.append(["l", name, content, mode])
        else:
            out.append(["f", name, content])
    return out


def _overlay(tree: List[Any], module_text: str, method_text: str) -> List[Any]:
    """Put the two snippets that the end-to-end run consumes into the tree."""
    def put_dir(entries: List[Any], name: str) -> List[Any]:
        for node in entries:
            if node[1] == name and node[0] == "d":
                return node[2]
        entries[:] = [n for n in entries if n[1] != name]
        sub = []  # type: List[Any]
        entries.append(["d", name, sub])
        return sub

    tree[:] = [n for n in tree if n[1] != MODULE_KEY]
    tree.append(["f", MODULE_KEY, _latin(module_text.encode("utf-8"))])
    d = put_dir(put_dir(tree, "Types"), "Something")
    d[:] = [n for n in d if n[1] != "do_something.py"]
    d.append(["f", "do_something.py", _latin(method_text.encode("utf-8"))])
    return tree


@st.composite
def _case(draw: Any) -> Dict[str, Any]:
    clean = draw(st.integers(0, 9)) < 4
    hdfiles = draw(st.booleans())
    tree = draw(_entries(0, clean, hdfiles, False))
    module = draw(st.sampled_from(["dummy", "dummy.sub", "a_b.c9", "_x"]))
    mark = draw(st.text(alphabet="abcdef0123456789", min_size=1, max_size=6))
    method = f"def do_something(self) -> None:\n    # MARK-{mark}\n    pass"
    tree = _overlay(
        tree,
        draw(_ws) + module + draw(_ws),
        draw(_ws) + method + draw(_ws),
    )
    return {"loc": draw(st.sampled_from([0, 0, 1, 2])), "tree": tree}


STRATEGY = _case()

# ---------------------------------------------------------------------------
# Entry points
# ---------------------------------------------------------------------------

CORNERS = [
    {"loc": 0, "tree": []},
    {"loc": 0, "tree": [["f", "a.py", "  x \n"]]},
    {"loc": 0, "tree": [["f", ".gitignore", "\xff"], ["d", "sub", [["f", "b.txt", "\n\ny\n"]]]]},
    {"loc": 0, "tree": [["d", ".git", [["f", "config", "x"]]], ["f", "a", "1"]]},
    {"loc": 0, "tree": [["d", ".git", [["d", "deeper", [["f", "bad name", "\xff"]]]]], ["d", "d", [["f", "a", "1"]]]]},
    {"loc": 0, "tree": [["f", "a\n", "x"]]},
    {"loc": 0, "tree": [["f", "ok", "\xff"]]},
    {"loc": 0, "tree": [["f", "1bad", "x"], ["f", "ok", "\xc3"]]},
    {"loc": 1, "tree": [["d", "d", [["f", "a.b", "\xef\xbb\xbf x"]]], ["f", ".h", "x"]]},
    {"loc": 2, "tree": [["d", "d", [["l", "lnk", "\x1f x \xc2\x85", 1]]], ["l", ".hl", "x", 0]]},
]


def _classes(case: Any, m: Model) -> List[str]:
    cls = sorted(m.classes)
    cls.append("tree:valid" if not m.offenders else "tree:invalid")
    cls.append("root:" + _LOCATIONS[int(case.get("loc", 0)) % len(_LOCATIONS)].replace("/", ">"))
    return cls


def shard(ctx: runner.Ctx) -> None:
    n = ctx.n(12_000, 400_000)
    scratch = pathlib.Path(str(ctx.scratch))  # type: ignore

    def one(case: Any) -> None:
        try:
            fails, m = evaluate(case, scratch)
        except BadShape as e:
            raise runner.HarnessError(f"generator produced an unbuildable tree: {e}: {case!r}")
        nt = m.hidden_entries >= 1 and m.nested_files >= 1
        ctx.case(nt, key=case, sample=case if len(repr(case)) < 600 else None, classes=_classes(case, m))
        for b, msg in fails:
            ctx.fail(b, case, msg)

    runner.hyp_run(STRATEGY, one, n, ctx.seed)
    if ctx.shard == 0:
        for case in CORNERS:
            fails, m = evaluate(case, scratch)
            ctx.case(m.hidden_entries >= 1 and m.nested_files >= 1, key=case, classes=["corner"])
            for b, msg in fails:
                ctx.fail(b, case, msg)


def replay(case: Any) -> List[Tuple[str, str]]:
    scratch = pathlib.Path(tempfile.mkdtemp(prefix="c25-replay-"))
    try:
        if not isinstance(case, dict) or "tree" not in case:
            return []
        try:
            int(case.get("loc", 0))
            fails, _ = evaluate(case, scratch)
        except (BadShape, TypeError, ValueError, KeyError, IndexError, AttributeError):
            return []
        return fails
    finally:
        shutil.rmtree(scratch, ignore_errors=True)


def shrink(case: Any, bucket: str, budget: float) -> Any:
    """Structural shrinking with a tighter cap than the runner's default (a replay here is expensive)."""
    from vlib.shrink import jshrink

    scratch = runner.make_scratch(f"{PID}-shrink")
    runner.isolate_tmp(scratch)
    try:
        return jshrink(case, lambda c: any(b == bucket for b, _ in replay(c)), min(budget, 20.0))
    finally:
        shutil.rmtree(scratch, ignore_errors=True)


def health(m: Any, tier: str) -> Any:
    ev = max(1, m["evaluations"])
    c = m["classes"]
    problems = []
    for name, least in [("invalid-key", 0.15), ("invalid-utf8", 0.15), ("tree:valid", 0.2),
                        ("hidden-file", 0.2), ("file-in-hidden-dir", 0.06), ("symlink", 0.15),
                        ("name-ends-with-newline", 0.01), ("unicode-whitespace-around", 0.3), ("bom", 0.04)]:
        if c.get(name, 0) < least * ev:
            problems.append(f"class {name}: {c.get(name, 0)}/{ev} < {least:.0%}")
    if m["nontrivial_n"] < 0.2 * ev:
        problems.append(f"only {m['nontrivial_n']} non-trivial of {ev}")
    return "; ".join(problems) or None


if __name__ == "__main__":
    runner.main(sys.modules[__name__])
