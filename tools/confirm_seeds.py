#!/usr/bin/env python3
"""For every seeded/<id> whose meta.json says tests 'pending': apply the patch in a scratch worktree,
run the pinned test-suite there and record the result in meta.json."""
import json, os, pathlib, re, subprocess, sys

VERIF = pathlib.Path(__file__).resolve().parent.parent
only = sys.argv[1:]
for d in sorted((VERIF / "seeded").iterdir()):
    mp = d / "meta.json"
    if not mp.exists() or (only and d.name not in only):
        continue
    meta = json.loads(mp.read_text())
    if meta.get("tests_with_patch") not in ("pending", None) and not only:
        continue
    wt = f"/tmp/wt/confirm-{d.name}"
    try:  # several instances of this script may run side by side
        os.close(os.open(f"/tmp/wt/confirm-{d.name}.lock", os.O_CREAT | os.O_EXCL))
    except FileExistsError:
        continue
    subprocess.run(["git", "-C", "/repo", "worktree", "remove", "--force", wt], capture_output=True)
    subprocess.run(["git", "-C", "/repo", "worktree", "add", "--detach", wt, "HEAD"], check=True, capture_output=True)
    try:
        r = subprocess.run(["git", "-C", wt, "apply", str(d / "patch.diff")], capture_output=True, text=True)
        if r.returncode != 0:
            meta["tests_with_patch"] = "patch does not apply on the current HEAD: " + r.stderr[:200]
        else:
            touched = set(re.findall(r"^\+\+\+ b/aas_core_codegen/([a-z_]+)", (d / "patch.diff").read_text(), re.M))
            targets = sorted(touched & {"cpp", "csharp", "golang", "java", "jsonschema", "python", "typescript", "xsd"})
            if "infer_for_schema" in touched:
                targets = sorted(set(targets) | {"jsonschema", "xsd"})
            if not targets:
                targets = ["jsonschema", "python"]  # front-end / shared code: two representative v3 goldens
            targets = [t for t in targets if t != "cpp"]  # Test_cpp v3 fails on the unchanged tree (emptied golden)
            env = {"PYTHONPATH": wt, "PATH": "/venv/bin:/usr/bin:/bin", "HOME": "/root"}
            base = ["nice", "-n", "5", "/venv/bin/python", "-m", "pytest", "-q", "-p", "no:cacheprovider", "--timeout=6000",
                    "--continue-on-collection-errors", "-n", "6", "dev/tests"]
            r1 = subprocess.run(base + ["-k", "not aas_core_meta_v3"], cwd=wt, env=env, capture_output=True, text=True)
            kexpr = " or ".join(f"(Test_{t} and aas_core_meta_v3)" for t in targets)
            r2 = subprocess.run(base + ["-k", kexpr], cwd=wt, env=env, capture_output=True, text=True) if targets else None
            failed = sorted(set(re.findall(r"^FAILED (\S+)", r1.stdout + (r2.stdout if r2 else ""), re.M)))
            meta["tests_with_patch"] = {
                "all_tests_except_the_aas_core_meta_v3_goldens": r1.stdout.strip().split("\n")[-1],
                "aas_core_meta_v3_goldens_run": targets,
                "aas_core_meta_v3_goldens_result": r2.stdout.strip().split("\n")[-1] if r2 else "none",
                "failed": failed,
                "note": "the v3 goldens of the other targets were not run by the lead (each takes 10-40 min on the loaded "
                        "machine); the author of the change reports which ones it ran in notes.md",
            }
        fresh = json.loads(mp.read_text())  # other fields may have been edited while the tests ran
        fresh["tests_with_patch"] = meta["tests_with_patch"]
        mp.write_text(json.dumps(fresh, indent=1) + "\n")
        print(d.name, meta["tests_with_patch"], flush=True)
    finally:
        subprocess.run(["git", "-C", "/repo", "worktree", "remove", "--force", wt], capture_output=True)
        os.unlink(f"/tmp/wt/confirm-{d.name}.lock")
