"""C23 — Model caching is opt-in and transparent."""
from __future__ import annotations

import contextlib
import hashlib
import io
import os
import pathlib
import pickle
import re
import shutil
import subprocess
import sys
import tempfile
from typing import Any, Dict, List, Optional, Tuple

from hypothesis import strategies as st

from vlib import fsaudit, mmgen, runner, sut, tbparse

PID = "C23"
RULE = (
    "Hypothesis RuleBasedStateMachine over one private TMPDIR and 3 drawn meta-models (vlib.mmgen; one third with "
    "implementation-specific functions whose snippets are missing, so that the generator reports located errors after the "
    "model was loaded): rules run(model, target, cache on/off, via main.execute | main.main with patched argv | the "
    "aas-core-codegen script in a subprocess), edit(model: append comment / rename class / change a bound / whitespace "
    "only incl. a blank first line), revert, clear_cache, foreign_entry (the entry of the current text is replaced by the "
    "entry of another model), swap_output_dir, and a compound cycle cached-run/edit/cached-run/revert/cached-run/uncached-run. Oracle "
    "per run: (status, stdout, stderr with paths replaced, output tree) equals the reference = the same text/target in a "
    "brand-new TMPDIR without cache; cache=off: directory listing (names, sizes, mtimes) of TMPDIR unchanged and the audit "
    "hook saw no open/mkdir/rename/remove inside TMPDIR and no mutation outside the output dir; cache=on: exactly "
    "model-<sha256(text)>.pickle is added for accepted models (nothing for rejected ones), only that entry is opened for "
    "reading. Second generator: pickle transparency on drawn models: every *_id_set query of every entity answers alike "
    "(ids translated to entity labels) for the original and the unpickled table; all 8 targets generated from the unpickled symbol "
    "table (second load_model(cache_model=True)) are byte-identical to those from the fresh table and intermediate.dump "
    "is equal. Non-trivial history = contains cached-run -> edit -> cached-run -> revert -> cached-run on one model; "
    "non-trivial transparency case = accepted model with >=2 classes; distinct by step list / model text."
)
ASSUMPTIONS = [
    "reference = the same implementation in a pristine TMPDIR with cache_model=False (the property defines transparency relative to the uncached run)",
    "'reads the cache' = an open() of a path inside TMPDIR (audit hook); writes into __pycache__ directories by the interpreter are ignored",
    "for subprocess runs only the directory listing is observable (no audit hook in the child)",
    "a run without the flag that touched the cache is reported under cache-flag-ignored:* only (a wrong result is a consequence of the same root cause)",
    "foreign_entry models a cache directory whose entry does not belong to the text (copy, collision, older tool run): the property says it must not be used",
]

PY = "/venv/bin/python"
SCRIPT = "/venv/bin/aas-core-codegen"
VIAS = ("execute", "main", "subprocess")

# ---------------------------------------------------------------------------
# helpers
# ---------------------------------------------------------------------------


def sha(text: str) -> str:
    return hashlib.sha256(text.encode()).hexdigest()


def tree(d: pathlib.Path) -> Dict[str, str]:
    if not d.is_dir():
        return {}
    return {p.relative_to(d).as_posix(): hashlib.sha256(p.read_bytes()).hexdigest()
            for p in sorted(d.rglob("*")) if p.is_file()}


def listing(d: pathlib.Path) -> Dict[str, Tuple[int, int]]:
    out = {}  # type: Dict[str, Tuple[int, int]]
    if d.is_dir():
        for p in sorted(d.rglob("*")):
            s = p.lstat()
            out[p.relative_to(d).as_posix() + ("/" if p.is_dir() else "")] = (s.st_size if p.is_file() else 0, s.st_mtime_ns)
    return out


def edit_text(text: str, how: str, arg: int) -> str:
    """Deterministic edits of a model text."""
    if how == "comment":
        return text + f"\n# edited {arg}\n"
    if how == "ws-end":
        return text + "\n" * (1 + arg % 2) + (" " if arg % 3 == 0 else "")
    if how == "ws-top":
        return "\n" + text
    if how == "rename":
        names = re.findall(r"^class (\w+)", text, re.M)
        if not names:
            return text + "\n"
        nm = names[arg % len(names)]
        return re.sub(rf"\b{re.escape(nm)}\b", nm + "_ren", text)
    if how == "bound":
        ms = list(re.finditer(r"(<=|>=|<|>|==) (\d+)", text))
        if not ms:
            return text + f"\n# no bound {arg}\n"
        m = ms[arg % len(ms)]
        return text[: m.start(2)] + str(int(m.group(2)) + 1 + arg % 3) + text[m.end(2):]
    return text


EDITS = ("comment", "ws-end", "ws-top", "rename", "bound")


def _exc_result(e: BaseException) -> Tuple[Any, str, str]:
    return ("exception:" + runner.exc_bucket(e), "", "")


class Exec:
    """Executes steps against one TMPDIR; pure function of (models, steps)."""

    def __init__(self, base: pathlib.Path, models: List[str], refs: Optional[Dict[Any, Any]] = None) -> None:
        import aas_core_codegen

        self.version = aas_core_codegen.__version__
        self.base = base
        base.mkdir(parents=True, exist_ok=True)
        self.tmp = base / "T"
        self.tmp.mkdir()
        self.cache_dir = self.tmp / f"aas-core-codegen-{self.version}"
        self.orig = list(models)
        self.text = list(models)
        self.paths = []  # type: List[pathlib.Path]
        for i, t in enumerate(models):
            p = base / f"model_{i}.py"
            p.write_text(t, encoding="utf-8")
            self.paths.append(p)
        self.snip = {}  # type: Dict[str, pathlib.Path]
        for t in sut.TARGETS:
            d = base / f"snippets-{t}"
            sut.write_snippets(d, sut.BASE_SNIPPETS[t])
            self.snip[t] = d
        self.out_no = 0
        self.out = base / "out0"
        self.refs = refs if refs is not None else {}
        self.tampered = {}  # type: Dict[str, str]  entry hash -> text hash of the content placed there
        self.fails = []  # type: List[Tuple[str, str]]
        self.log = []  # type: List[str]

    # -- running ---------------------------------------------------------
    def _norm(self, s: str, out: pathlib.Path, model: pathlib.Path, snip: pathlib.Path) -> str:
        for path, ph in sorted([(str(out), "<OUT>"), (str(model), "<MODEL>"), (str(snip), "<SNIPPETS>")], key=lambda t: -len(t[0])):
            s = s.replace(path, ph)
        return s

    def _invoke(self, model: pathlib.Path, target: str, out: pathlib.Path, cache: bool, via: str, tmp: pathlib.Path
                ) -> Tuple[Tuple[Any, str, str], List[Tuple[str, ...]]]:
        """One generator run; ((rc, stdout, stderr), audit events)."""
        from aas_core_codegen import main as cg_main

        snip = self.snip[target]
        argv = ["--model_path", str(model), "--snippets_dir", str(snip), "--output_dir", str(out), "--target", target]
        if cache:
            argv.append("--cache_model")
        if via == "subprocess":
            head = [SCRIPT] if os.path.exists(SCRIPT) else [PY, "-m", "aas_core_codegen.main"]
            p = subprocess.run(head + argv, env=dict(os.environ, TMPDIR=str(tmp), PYTHONHASHSEED="0"),
                               stdout=subprocess.PIPE, stderr=subprocess.PIPE, text=True, cwd=str(self.base))
            if tbparse.is_traceback(p.stderr):
                return ("exception:" + tbparse.bucket_of_traceback(p.stderr), "", ""), []
            return (p.returncode, self._norm(p.stdout, out, model, snip), self._norm(p.stderr, out, model, snip)), []
        old_tmp, old_env = tempfile.tempdir, os.environ.get("TMPDIR")
        tempfile.tempdir = str(tmp)
        os.environ["TMPDIR"] = str(tmp)
        so, se = io.StringIO(), io.StringIO()
        try:
            with fsaudit.record() as events:
                try:
                    if via == "main":
                        old_argv = sys.argv
                        sys.argv = ["aas-core-codegen"] + argv
                        try:
                            with contextlib.redirect_stdout(so), contextlib.redirect_stderr(se):
                                try:
                                    rc = cg_main.main(prog="aas-core-codegen")
                                except SystemExit as e:
                                    rc = e.code if isinstance(e.code, int) else 1
                        finally:
                            sys.argv = old_argv
                    else:
                        params = cg_main.Parameters(model_path=model, target=cg_main.Target(target), snippets_dir=snip,
                                                    output_dir=out, cache_model=cache)
                        rc = cg_main.execute(params, stdout=so, stderr=se)
                    res = (rc, self._norm(so.getvalue(), out, model, snip), self._norm(se.getvalue(), out, model, snip))
                except BaseException as e:  # noqa
                    if isinstance(e, (KeyboardInterrupt, MemoryError)):
                        raise
                    res = _exc_result(e)
        finally:
            tempfile.tempdir = old_tmp
            if old_env is None:
                os.environ.pop("TMPDIR", None)
            else:
                os.environ["TMPDIR"] = old_env
        return res, list(events)

    def reference(self, text: str, target: str) -> Tuple[Any, str, str, Dict[str, str]]:
        key = (text, target)
        if key not in self.refs:
            d = pathlib.Path(tempfile.mkdtemp(prefix="ref-", dir=str(self.base.parent)))
            try:
                (d / "T").mkdir()
                m = d / "model.py"
                m.write_text(text, encoding="utf-8")
                res, _ = self._invoke(m, target, d / "out", False, "execute", d / "T")
                self.refs[key] = res + (tree(d / "out") if res[0] == 0 else {},)
            finally:
                shutil.rmtree(d, ignore_errors=True)
        return self.refs[key]

    def _fail(self, bucket: str, msg: str) -> None:
        self.fails.append((bucket, msg + "\nhistory: " + " | ".join(self.log[-14:])))

    def run(self, i: int, target: str, cache: bool, via: str) -> None:
        text = self.text[i]
        h = sha(text)
        entry = f"model-{h}.pickle"
        self.log.append(f"run(m{i},{target},cache={'on' if cache else 'off'},{via})")
        before = listing(self.tmp)
        before_names = set(os.listdir(self.cache_dir)) if self.cache_dir.is_dir() else set()
        # a fresh output dir for every run unless swap_output_dir said otherwise: the tree is what this run wrote
        out = self.out
        if out.exists():
            shutil.rmtree(out)
        res, events = self._invoke(self.paths[i], target, out, cache, via, self.tmp)
        after = listing(self.tmp)
        after_names = set(os.listdir(self.cache_dir)) if self.cache_dir.is_dir() else set()
        got = res + (tree(out) if res[0] == 0 else {},)
        ref = self.reference(text, target)
        in_tmp = [e for e in events if any(fsaudit.inside(p, str(self.tmp)) for p in e[1:])]
        outside_mut = [e for e in events if e[0] in fsaudit.MUTATING and "__pycache__" not in e[1]
                       and not any(fsaudit.inside(p, str(out)) for p in e[1:])
                       and not any(fsaudit.inside(p, str(self.tmp)) for p in e[1:])
                       # creating the missing ancestors of the output directory belongs to creating it
                       and not (e[0] == "mkdir" and fsaudit.inside(str(out), e[1]))]
        if outside_mut:
            self._fail(f"writes-outside-output-dir:{via}", f"events: {outside_mut[:5]}")
        touched_cache = False
        flag_ignored = []  # type: List[str]
        if not cache:
            if before != after:
                touched_cache = True
                changed = sorted(set(after.items()) ^ set(before.items()))[:4]
                flag_ignored.append(f"write: cache=off run changed TMPDIR: {changed}")
            reads = [e for e in in_tmp if e[0] == "open-r"]
            other = [e for e in in_tmp if e[0] != "open-r" and e[0] != "listdir"]
            if reads:
                touched_cache = True
                flag_ignored.append(f"read: cache=off run opened {[os.path.basename(e[1]) for e in reads][:3]}")
            if other and before == after:
                touched_cache = True
                flag_ignored.append(f"write: cache=off run issued {other[:4]} inside TMPDIR")
        else:
            accepted = ref[0] == 0 or (isinstance(ref[0], int) and not ref[2].startswith(FRONT_END_ERRORS))
            if isinstance(ref[0], str):
                accepted = None  # the generator crashed (C02); whether the model loaded is unknown
            new = after_names - before_names
            gone = before_names - after_names
            if gone:
                self._fail("cache-on:entry-removed", f"removed: {sorted(gone)}")
            if accepted is True:
                if entry not in after_names:
                    self._fail("cache-on:entry-missing", f"expected {entry}; directory: {sorted(after_names)}")
                if new - {entry}:
                    self._fail("cache-on:unexpected-files", f"new files {sorted(new - {entry})}; expected only {entry}")
            elif accepted is False and new:
                self._fail("cache-on:entry-for-rejected-model", f"new files {sorted(new)}")
            for e in in_tmp:
                if e[0] == "open-r" and os.path.basename(e[1]) != entry:
                    self._fail("cache-on:reads-other-entry", f"opened {os.path.basename(e[1])}, current text has {entry}")
        if got != ref:
            aspects = [a for a, x, y in zip(("status", "stdout", "stderr", "output-tree"), got, ref) if x != y]
            detail = f"got status={got[0]!r} stderr={got[2][:300]!r}\nref status={ref[0]!r} stderr={ref[2][:300]!r}"
            state = "warm" if entry in before_names else "cold"
            if not cache and (touched_cache or entry in before_names):
                flag_ignored.append(f"result taken from the cache: differs in {aspects}\n{detail}")
            elif self.tampered.get(h) not in (None, h) and entry in before_names:
                self._fail("foreign-entry-used", f"entry {entry} held the dump of another text; differs in {aspects}\n{detail}")
            else:
                self._fail(f"result-differs:cache-{'on' if cache else 'off'}:{state}:{'+'.join(aspects)}", detail)
        if flag_ignored:
            # one root cause (the flag does not reach the loader), one bucket per entry point
            self._fail(f"cache-flag-ignored:{via}", "\n".join(flag_ignored))
        # what the entry holds after this run
        if entry in after_names and (entry not in before_names or after.get(self._rel(entry)) != before.get(self._rel(entry))):
            self.tampered[h] = h

    def _rel(self, entry: str) -> str:
        return f"aas-core-codegen-{self.version}/{entry}"

    # -- other steps -------------------------------------------------------
    def edit(self, i: int, how: str, arg: int) -> None:
        self.text[i] = edit_text(self.text[i], how, arg)
        self.paths[i].write_text(self.text[i], encoding="utf-8")
        self.log.append(f"edit(m{i},{how})")

    def revert(self, i: int) -> None:
        self.text[i] = self.orig[i]
        self.paths[i].write_text(self.text[i], encoding="utf-8")
        self.log.append(f"revert(m{i})")

    def clear_cache(self) -> None:
        shutil.rmtree(self.cache_dir, ignore_errors=True)
        self.tampered = {}
        self.log.append("clear_cache")

    def foreign_entry(self, i: int, j: int) -> bool:
        """Put the dump of model j's current text where model i's current text is looked up."""
        hi, hj = sha(self.text[i]), sha(self.text[j])
        if hi == hj:
            return False
        d = pathlib.Path(tempfile.mkdtemp(prefix="foreign-", dir=str(self.base.parent)))
        try:
            (d / "T").mkdir()
            from aas_core_codegen import run as cg_run

            old = tempfile.tempdir
            tempfile.tempdir = str(d / "T")
            try:
                res, err = cg_run.load_model(self.paths[j], cache_model=True)
            except BaseException:  # noqa
                return False
            finally:
                tempfile.tempdir = old
            src = d / "T" / f"aas-core-codegen-{self.version}" / f"model-{hj}.pickle"
            if err is not None or not src.exists():
                return False
            self.cache_dir.mkdir(parents=True, exist_ok=True)
            shutil.copyfile(src, self.cache_dir / f"model-{hi}.pickle")
            self.tampered[hi] = hj
        finally:
            shutil.rmtree(d, ignore_errors=True)
        self.log.append(f"foreign_entry(m{i}<-m{j})")
        return True

    def swap_output_dir(self) -> None:
        self.out_no += 1
        self.out = self.base / f"out{self.out_no}" / "nested" / "deeper"
        self.log.append("swap_output_dir")

    def apply(self, step: Dict[str, Any]) -> None:
        op = step.get("op")
        n = len(self.text)
        i = step.get("model", 0) % n if isinstance(step.get("model", 0), int) else 0
        if op == "run":
            t = step.get("target")
            via = step.get("via")
            if t in sut.TARGETS and via in VIAS:
                self.run(i, t, bool(step.get("cache")), via)
        elif op == "edit":
            if step.get("how") in EDITS and isinstance(step.get("arg"), int):
                self.edit(i, step["how"], abs(step["arg"]) % 1000)
        elif op == "revert":
            self.revert(i)
        elif op == "clear_cache":
            self.clear_cache()
        elif op == "foreign_entry":
            j = step.get("other", 1)
            if isinstance(j, int):
                self.foreign_entry(i, j % n)
        elif op == "swap_output_dir":
            self.swap_output_dir()


FRONT_END_ERRORS = ("Failed to resolve the implementation-specific snippets", "Failed to parse", "One or more unexpected imports", "Failed to construct the symbol", "Failed to translate the parsed")


def cycle_steps(i: int, target: str, how: str, arg: int, via: str) -> List[Dict[str, Any]]:
    r = {"op": "run", "model": i, "target": target, "cache": True, "via": via}
    # ... and one run without the flag while the cache is warm for this very text
    return [dict(r), {"op": "edit", "model": i, "how": how, "arg": arg}, dict(r), {"op": "revert", "model": i}, dict(r),
            dict(r, cache=False)]


def has_cycle(steps: List[Dict[str, Any]]) -> bool:
    """cached-run -> edit -> cached-run -> revert -> cached-run on one model (as a subsequence)."""
    for i in range(3):
        want = ["run", "edit", "run", "revert", "run"]
        k = 0
        for s in steps:
            if s.get("model") != i or k >= len(want):
                continue
            if s["op"] == want[k] and (s["op"] != "run" or s.get("cache")):
                k += 1
        if k >= len(want):
            return True
    return False


# ---------------------------------------------------------------------------
# model strategy
# ---------------------------------------------------------------------------


@st.composite
def model_texts(draw: Any) -> str:
    opts = mmgen.Opts(max_classes=draw(st.integers(2, 5)), max_props=draw(st.integers(1, 3)),
                      docs=draw(st.sampled_from(["none", "plain"])),
                      invariants=draw(st.sampled_from(["general", "schema", "general"])))
    spec = draw(mmgen.specs(opts))
    if draw(st.integers(0, 2)) == 0:
        for nm in ("is_impl_specific_a", "is_impl_specific_b"):
            spec.fns.append(mmgen.Fn(nm, "impl", [("text", mmgen.TRef("prim", "str"))], doc="Check something."))
            spec.order.insert(draw(st.integers(0, len(spec.order))), ("fn", nm))
    return mmgen.render(spec)


# ---------------------------------------------------------------------------
# the state machine
# ---------------------------------------------------------------------------


def make_machine(ctx: runner.Ctx, refs: Dict[Any, Any], max_steps: int) -> Any:
    from hypothesis.stateful import RuleBasedStateMachine, initialize, rule

    counter = {"n": 0}
    targets = st.sampled_from(sut.TARGETS)
    vias = st.sampled_from(["execute"] * 10 + ["main"] * 9 + ["subprocess"])
    idx = st.integers(0, 2)

    class Machine(RuleBasedStateMachine):
        def __init__(self) -> None:
            super().__init__()
            self.ex = None  # type: Optional[Exec]
            self.steps = []  # type: List[Dict[str, Any]]
            self.models = []  # type: List[str]

        @initialize(models=st.lists(model_texts(), min_size=3, max_size=3, unique=True))
        def setup(self, models: List[str]) -> None:
            counter["n"] += 1
            self.models = models
            self.ex = Exec(ctx.scratch / f"hist{counter['n']}", models, refs)

        def _do(self, step: Dict[str, Any]) -> None:
            assert self.ex is not None
            if len(self.steps) >= max_steps:
                return
            self.steps.append(step)
            n_before = len(self.ex.fails)
            self.ex.apply(step)
            for b, m in self.ex.fails[n_before:]:
                ctx.fail(b, {"models": self.models, "steps": list(self.steps)}, m)

        @rule(i=idx, tgt=targets, cache=st.sampled_from([False, False, False, True]), via=vias)
        def run(self, i: int, tgt: str, cache: bool, via: str) -> None:
            self._do({"op": "run", "model": i, "target": tgt, "cache": cache, "via": via})

        @rule(i=idx, how=st.sampled_from(EDITS), arg=st.integers(0, 50))
        def edit(self, i: int, how: str, arg: int) -> None:
            self._do({"op": "edit", "model": i, "how": how, "arg": arg})

        @rule(i=idx)
        def revert(self, i: int) -> None:
            self._do({"op": "revert", "model": i})

        @rule()
        def clear_cache(self) -> None:
            self._do({"op": "clear_cache"})

        @rule(i=idx, j=idx, tgt=targets, via=vias)
        def foreign_entry(self, i: int, j: int, tgt: str, via: str) -> None:
            self._do({"op": "foreign_entry", "model": i, "other": j})
            self._do({"op": "run", "model": i, "target": tgt, "cache": True, "via": via})

        @rule()
        def swap_output_dir(self) -> None:
            self._do({"op": "swap_output_dir"})

        @rule(i=idx, tgt=targets, how=st.sampled_from(EDITS), arg=st.integers(0, 50), via=vias)
        def cycle(self, i: int, tgt: str, how: str, arg: int, via: str) -> None:
            for s in cycle_steps(i, tgt, how, arg, via):
                self._do(s)

        def teardown(self) -> None:
            if self.ex is None:
                return
            steps = self.steps
            runs = [s for s in steps if s["op"] == "run"]
            classes = [f"op:{s['op']}" for s in steps]
            classes += [f"run:cache={'on' if s['cache'] else 'off'}:{s['via']}" for s in runs]
            classes += [f"edit:{s['how']}" for s in steps if s["op"] == "edit"]
            nt = has_cycle(steps)
            if nt:
                classes.append("history:cycle")
            ctx.notes["machine_runs"] = ctx.notes.get("machine_runs", 0) + len(runs)
            ctx.case(nt, key=[self.models, steps],
                     sample={"steps": [" ".join(f"{k}={v}" for k, v in s.items()) for s in steps][:12]}, classes=classes)
            shutil.rmtree(self.ex.base, ignore_errors=True)

    return Machine


# ---------------------------------------------------------------------------
# pickle transparency
# ---------------------------------------------------------------------------


def id_set_answers(symtab: Any) -> Dict[str, List[str]]:
    """Every ``*_id_set`` query of every entity of the table, with the ids translated to entity labels
    (identity does not survive pickling, membership must)."""
    reg = {}  # type: Dict[int, str]
    objs = []  # type: List[Tuple[str, Any]]

    def add(label: str, o: Any) -> None:
        reg[id(o)] = label
        objs.append((label, o))

    for t in symtab.our_types:
        add(f"type:{t.name}", t)
        for attr in ("properties", "methods", "invariants", "literals", "inheritances"):
            seq = getattr(t, attr, None)
            if isinstance(seq, (list, tuple)):
                for i, x in enumerate(seq):
                    if id(x) not in reg:
                        add(f"{t.name}.{attr}[{i}]:{getattr(x, 'name', '')}", x)
        ctor = getattr(t, "constructor", None)
        if ctor is not None and id(ctor) not in reg:
            add(f"{t.name}.constructor", ctor)
    for attr in ("constants", "verification_functions"):
        for x in getattr(symtab, attr, []):
            if id(x) not in reg:
                add(f"{attr}:{getattr(x, 'name', '')}", x)
            for i, lit in enumerate(getattr(x, "literals", []) or []):
                if id(lit) not in reg:
                    add(f"{attr}:{getattr(x, 'name', '')}.literals[{i}]", lit)
    out = {}  # type: Dict[str, List[str]]
    for label, o in objs:
        for name in dir(o):
            if name.startswith("_") or not name.endswith("id_set"):
                continue
            try:
                val = getattr(o, name)
            except BaseException as e:  # noqa
                out[f"{label}.{name}"] = [f"raises {type(e).__name__}"]
                continue
            if isinstance(val, (set, frozenset)):
                out[f"{label}.{name}"] = sorted(reg.get(i, "<unknown object>") for i in val)
    return out


def transparency(text: str, base: pathlib.Path) -> Tuple[str, List[Tuple[str, str]]]:
    """('rejected'|'accepted', failures)."""
    from aas_core_codegen import intermediate, main as cg_main, run as cg_run, specific_implementations
    from aas_core_codegen.common import LinenoColumner
    import aas_core_codegen.cpp.main, aas_core_codegen.csharp.main, aas_core_codegen.golang.main  # noqa
    import aas_core_codegen.java.main, aas_core_codegen.jsonschema.main, aas_core_codegen.python.main  # noqa
    import aas_core_codegen.typescript.main, aas_core_codegen.xsd.main  # noqa

    d = sut.fresh_dir(base, "transp")
    old = tempfile.tempdir
    fails = []  # type: List[Tuple[str, str]]
    try:
        (d / "T").mkdir()
        tempfile.tempdir = str(d / "T")
        mp = d / "meta_model.py"
        mp.write_text(text, encoding="utf-8")
        try:
            fresh, err = cg_run.load_model(mp, cache_model=True)
        except BaseException:  # noqa: C01
            return "front-end-crash", []
        if err is not None or fresh is None:
            return "rejected", []
        entry = d / "T" / f"aas-core-codegen-{aas_core_codegen.__version__}" / f"model-{sha(text)}.pickle"
        if not entry.exists():
            return "accepted", [("cache-on:entry-missing", f"{entry.name} not written by load_model(cache_model=True)")]
        try:
            with fsaudit.record() as events:
                cached, err2 = cg_run.load_model(mp, cache_model=True)
        except BaseException as e:  # noqa
            return "accepted", [(f"unpickle-raises:{runner.exc_bucket(e)}", runner.exc_text(e))]
        if err2 is not None or cached is None:
            return "accepted", [("cached-load-reports-error", str(err2)[:500])]
        if not any(e[0] == "open-r" and e[1] == str(entry) for e in events):
            fails.append(("warm-load-did-not-read-entry", "second load_model(cache_model=True) did not open the entry"))
        if cached[0] is fresh[0]:
            fails.append(("warm-load-did-not-read-entry", "same object returned"))
        try:
            d1, d2 = intermediate.dump(fresh[0]), intermediate.dump(cached[0])
            if d1 != d2:
                i = next((k for k, (x, y) in enumerate(zip(d1, d2)) if x != y), min(len(d1), len(d2)))
                fails.append(("unpickled:dump-differs", f"at offset {i}: {d1[max(0, i - 80):i + 80]!r} vs {d2[max(0, i - 80):i + 80]!r}"))
        except BaseException as e:  # noqa
            fails.append((f"unpickled:dump-raises:{runner.exc_bucket(e)}", runner.exc_text(e)))
        if cached[1].text != fresh[1].text:
            fails.append(("unpickled:atok-text-differs", ""))
        try:
            q1, q2 = id_set_answers(fresh[0]), id_set_answers(cached[0])
            diff = sorted(k for k in set(q1) | set(q2) if q1.get(k) != q2.get(k))
            if diff:
                k = diff[0]
                fails.append((f"unpickled:id-set-query-differs:{k.rsplit('.', 1)[-1]}",
                              f"{len(diff)} queries differ, e.g. {k}: original {q1.get(k)} vs unpickled {q2.get(k)}"))
        except BaseException as e:  # noqa
            if isinstance(e, (KeyboardInterrupt, MemoryError)):
                raise
            fails.append((f"unpickled:id-set-query-raises:{runner.exc_bucket(e)}", runner.exc_text(e)))
        mods = {t: sys.modules[f"aas_core_codegen.{t}.main"] for t in sut.TARGETS}
        for t in sut.TARGETS:
            sd = d / f"sn-{t}"
            sut.write_snippets(sd, sut.BASE_SNIPPETS[t])
            spec_impls, _ = specific_implementations.read_from_directory(sd)
            results = []
            for tag, (symtab, atok) in (("fresh", fresh), ("cached", cached)):
                od = d / f"out-{t}-{tag}"
                od.mkdir()
                so, se = io.StringIO(), io.StringIO()
                try:
                    context = cg_run.Context(model_path=mp, symbol_table=symtab, spec_impls=spec_impls,
                                             lineno_columner=LinenoColumner(atok=atok), output_dir=od)
                    rc = mods[t].execute(context=context, stdout=so, stderr=se)
                    results.append((rc, so.getvalue().replace(str(od), "<OUT>"), se.getvalue().replace(str(od), "<OUT>"), tree(od)))
                except BaseException as e:  # noqa
                    if isinstance(e, (KeyboardInterrupt, MemoryError)):
                        raise
                    results.append(("exception:" + runner.exc_bucket(e), "", "", {}))
            if results[0] != results[1]:
                asp = [a for a, x, y in zip(("status", "stdout", "stderr", "output-tree"), results[0], results[1]) if x != y]
                fails.append((f"unpickled:{t}:{'+'.join(asp)}-differs",
                              f"fresh: {results[0][0]!r} {results[0][2][:300]!r}\ncached: {results[1][0]!r} {results[1][2][:300]!r}"))
        return "accepted", fails
    finally:
        tempfile.tempdir = old
        shutil.rmtree(d, ignore_errors=True)


@st.composite
def transparency_cases(draw: Any) -> Dict[str, Any]:
    opts = mmgen.Opts(
        max_classes=draw(st.integers(1, 6)), max_props=draw(st.integers(0, 4)), nested_lists=draw(st.booleans()),
        docs=draw(st.sampled_from(["none", "plain", "adversarial"])), adversarial_text=draw(st.booleans()),
        invariants=draw(st.sampled_from(["general", "general", "schema", "none"])),
    )
    spec = draw(mmgen.specs(opts))
    return {"text": mmgen.render(spec), "n_classes": len(spec.classes), "n_enums": len(spec.enums), "n_cps": len(spec.cps)}


# ---------------------------------------------------------------------------
# shard / replay
# ---------------------------------------------------------------------------


def shard(ctx: runner.Ctx) -> None:
    import hypothesis
    from hypothesis import HealthCheck, Phase, settings
    from hypothesis.stateful import run_state_machine_as_test

    import time

    fsaudit.install()
    t_start = time.time()
    n_hist = ctx.n(96, 3_000)
    steps = 12 if ctx.quick else 30
    refs = {}  # type: Dict[Any, Any]
    Machine = make_machine(ctx, refs, max_steps=3 * steps)
    try:
        run_state_machine_as_test(
            hypothesis.seed(ctx.seed)(Machine),
            settings=settings(max_examples=n_hist, stateful_step_count=steps, database=None, deadline=None,
                              derandomize=False, phases=[Phase.generate], suppress_health_check=list(HealthCheck),
                              report_multiple_bugs=False),
        )
    except BaseException as e:  # noqa: the machine never raises for violations; this is a harness or repository crash
        if isinstance(e, (KeyboardInterrupt, MemoryError)):
            raise
        ctx.fail(f"machine-raised:{runner.exc_bucket(e)}", {"models": [], "steps": []}, runner.exc_text(e))

    ctx.notes["wall_machine_s"] = round(time.time() - t_start, 1)
    t_start = time.time()
    n_tr = ctx.n(192, 16_000)

    def one(case: Dict[str, Any]) -> None:
        status, fails = transparency(case["text"], ctx.scratch)
        nt = status == "accepted" and case["n_classes"] >= 2
        ctx.case(nt, key=["transparency", case["text"]],
                 sample={"transparency": True, "classes": case["n_classes"], "text_tail": case["text"][-300:]},
                 classes=[f"transparency:{status}"] + (["transparency:enum"] if case["n_enums"] else [])
                 + (["transparency:constrained-primitive"] if case["n_cps"] else []))
        for b, m in fails:
            ctx.fail(b, {"transparency": case["text"]}, m)

    runner.hyp_run(transparency_cases(), one, n_tr, ctx.seed)
    ctx.notes["wall_transparency_s"] = round(time.time() - t_start, 1)


def replay(case: Any) -> List[Tuple[str, str]]:
    if not isinstance(case, dict):
        return []
    fsaudit.install()
    base = runner.make_scratch("c23-replay")
    old = tempfile.tempdir
    try:
        if isinstance(case.get("transparency"), str):
            return transparency(case["transparency"], base)[1]
        models, steps = case.get("models"), case.get("steps")
        if not (isinstance(models, list) and len(models) >= 1 and all(isinstance(m, str) for m in models)
                and isinstance(steps, list) and all(isinstance(s, dict) for s in steps)):
            return []
        ex = Exec(base / "hist", models)
        for s in steps[:200]:
            ex.apply(s)
        return ex.fails
    finally:
        tempfile.tempdir = old
        shutil.rmtree(base, ignore_errors=True)


def health(m: Any, tier: str) -> Any:
    cl = m["classes"]
    for need in ("history:cycle", "op:foreign_entry", "op:clear_cache", "op:swap_output_dir", "run:cache=on:execute",
                 "run:cache=off:execute", "run:cache=on:main", "run:cache=off:main", "run:cache=on:subprocess",
                 "edit:ws-top", "edit:rename", "edit:bound", "edit:comment", "transparency:accepted"):
        if cl.get(need, 0) == 0:
            return f"class {need} never generated"
    acc = cl.get("transparency:accepted", 0)
    tot = acc + cl.get("transparency:rejected", 0) + cl.get("transparency:front-end-crash", 0)
    if acc < 0.8 * tot:
        return f"only {acc}/{tot} transparency models accepted"
    return None


if __name__ == "__main__":
    runner.main(sys.modules[__name__])
