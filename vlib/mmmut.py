"""
Near-miss mutations of meta-model text (stay mostly syntactically valid Python, but leave
the supported subset) + generic token/line mutations. Used by C01/C03/C28.
"""
from __future__ import annotations

import io
import re
import tokenize
from typing import Any, Callable, List, Optional, Tuple

from hypothesis import strategies as st

Draw = Any


def _pick(draw: Draw, xs: List[Any]) -> Any:
    return xs[draw(st.integers(0, len(xs) - 1))]


def _sub_nth(draw: Draw, text: str, pattern: str, repl: Any, flags: int = 0) -> Optional[str]:
    """Replace one (drawn) occurrence of ``pattern``."""
    ms = list(re.finditer(pattern, text, flags))
    if not ms:
        return None
    m = _pick(draw, ms)
    r = repl(m) if callable(repl) else m.expand(repl)
    return text[: m.start()] + r + text[m.end():]


BAD_PATTERNS = [
    "^*$", "{", "^a{3,1}$", "^[^\\\\U0001F600]$", "[]", "^[]$", "(", "^(a$", "^a)$", "^(?P<x>a)$", "^\\\\d+$",
    "^a**$", "^a{,}$", "^a{1,2,3}$", "^[z-a]$", "^\\\\$", "^a|b$", "", "^", "$", "^$", "a", "^a", "a$",
    "^(?:a)$", "^a{2$", "^[a$", "^\\\\x4$", "^\\\\u12$", "^\\\\U0011FFFF$", "^a+?$", "^a*?b$", "^a{1,2}?$",
    "^(^a)$", "^a$b$", "^[\\\\]]$", "^[^]$", "^\\\\Qa\\\\E$", "^a{ 1 }$", "^.$", "^\\\\.$", "^\\\\/$",
    "^[a-]$", "^[-a]$", "^[a\\\\-z]$", "^a??$", "^(a|)$", "^()$", "^(|a)$", "^\\\\p{L}$", "^[[:alpha:]]$",
    "^\\\\b$", "^a\\\\Z", "^\\\\1$", "^(a)\\\\1$", "^a{2}{3}$", "^+$", "^?$", "^\\n$", "^\\ud800$",
]

# patterns ending in / containing raw line breaks, huge repetition counts, inline flags, look-ahead
BAD_PATTERNS += ["^a$\\n", "^a\\n$", "(\\n", "^a{4294967295}$", "^a{4294967296}$", "^a{99999999999999999999}$",
                 "^a{1,4294967295}$", "^a{65536}$", "^\\\\x00$", "^[\\\\x00-\\\\x1f]$", "^(?i)a$", "^a(?=b)$", "^(?#c)a$"]

TYPE_ANNOS = ["Optional[Optional[int]]", "List[Optional[int]]", "Set[int]", "Dict[str, int]", "Tuple[int, ...]",
              "Optional[int, str]", "Optional", "List", "List[List[List[int]]]", "'Unknown_thing'", "'1x'", "''",
              "'Foo bar'", "int | None", "typing.List[int]", "List[int][0]", "Final[int]", "Final", "None", "...",
              "Optional[None]", "List[...]", "bytes", "object", "\u00e9", "'\u00e9'", "List['\u00e9']", "3", "a.b",
              "Optional['Unknown']", "Set[List[int]]", "Optional[List[int, str]]", "List[List[int, str]]",
              "List[Optional[int, str]]", "Optional[List[int][0]]", "List[int, ...]",
              "Optional[List[Optional[List[int]]]]", "List[Set[int]]", "Optional[Set[str]]", "List['Unknown_a', 'Unknown_b']"]

DECORATORS = ["@abstract()", "@abstract.x", "@serialization", "@serialization()", "@serialization(True)",
              "@serialization(with_model_type=1)", "@serialization(with_model_type=True, x=1)",
              "@serialization(with_model_type=False)", "@invariant()", "@invariant(lambda self: True)",
              "@invariant('d', lambda self: True)", "@invariant(lambda: True, 'd')",
              "@invariant(lambda self, other: True, 'd')", "@invariant(lambda self: True, 'd', 'e')",
              "@invariant(lambda self: True, description='d')", "@invariant(condition=lambda self: True, description='d2')",
              "@invariant(1, 'd')", "@invariant(lambda self: True, 1)", "@invariant(lambda self: True, f'x{1}')",
              "@invariant(lambda self: self.unknown_prop > 0, 'unknown prop')",
              "@invariant(lambda self: unknown_function(self), 'unknown fn')",
              "@invariant(lambda self: len(self) > 0, 'len of self')",
              "@invariant(lambda self: self is not None, 'self none')",
              "@invariant(lambda self: 1 < 2 < 3, 'chain')", "@invariant(lambda self: [1][0] == 1, 'listlit')",
              "@invariant(lambda self: (lambda: True)(), 'lam')", "@invariant(lambda self: True if True else False, 'ifexp')",
              "@invariant(lambda self: all(x for x in []), 'alllit')", "@invariant(lambda self: any(x for x in self), 'anyself')",
              "@invariant(lambda self: all(x > 0 for x in range(3)), 'range1')",
              "@invariant(lambda self: all(x > 0 for x in range(0, 3, 1)), 'range3')",
              "@invariant(lambda self: all(x > 0 for x in range(0, 3) if x), 'filter')",
              "@invariant(lambda self: all(x > y for x in range(0, 3) for y in range(0, 2)), 'two gens')",
              "@invariant(lambda self: all((x > 0 for x in range(0, 3)), 1), 'all 2 args')",
              "@invariant(lambda self: all(), 'all no args')", "@invariant(lambda self: all([True]), 'all list')",
              "@invariant(lambda self: len() > 0, 'len0')", "@invariant(lambda self: len(self, self) > 0, 'len2')",
              "@invariant(lambda self: self.x.y.z.w, 'deep')", "@invariant(lambda self: self[0], 'index self')",
              "@invariant(lambda self: self.a[0](1), 'call of index')", "@invariant(lambda self: f()(1), 'call of call')",
              "@invariant(lambda self: 'a' 'b' == 'ab', 'concat')", "@invariant(lambda self: -self.x > 0, 'neg')",
              "@invariant(lambda self: not not True, 'notnot')", "@invariant(lambda self: None is None, 'none')",
              "@invariant(lambda self: 1.0 + 1 > 0, 'mix')", "@invariant(lambda self: 1 * 2 > 0, 'mul')",
              "@invariant(lambda self: b'x' == b'x', 'bytes')", "@invariant(lambda self: 1 in [1], 'inlist')",
              "@invariant(lambda self: 1 not in Unknown_set, 'notin')", "@invariant(lambda self: self.x is self.y, 'is')",
              "@invariant(lambda self: (yield), 'yield')", "@invariant(lambda self: await_x, 'name')",
              "@invariant(lambda self: f'{self}' == '', 'fstring')", "@invariant(lambda self: f'{self!r:>10}' == '', 'fstring conv')",
              "@invariant(lambda self: match('^a$', 'a') is not None, 'match in inv')",
              "@invariant(lambda self: True or False or True, 'or3')", "@invariant(lambda self: True and False and True, 'and3')",
              "@invariant(lambda self: 10**100 > 0, 'pow')", "@invariant(lambda self: 1e400 > 0, 'inf')",
              "@invariant(lambda self: 99999999999999999999999 > 0, 'bigint')",
              "@implementation_specific", "@verification", "@non_mutating", "@unknown_decorator", "@a.b.c", "@f(1)(2)",
              "@require(lambda self: True)", "@ensure(lambda result: result)", "@staticmethod", "@property"]

MODULE_STMTS = ["if True:\n    pass", "for x in []:\n    pass", "try:\n    pass\nexcept Exception:\n    pass", "print(1)",
                "assert True", "x = 3", "X: int = 3", "X: Set[int] = {1, 2}", "X: str = 'a'", "X: int = constant_int()",
                "X: int = constant_int(value='a')", "X: int = constant_int(1, 'desc', 3)", "X: int = constant_int(1, 'd', 3, 4)",
                "X: int = constant_str('a')", "X: str = constant_str(value=None)", "X: str = constant_str(f'a')",
                "X: str = constant_str(value='a', unknown=1)", "X: float = constant_float(1)", "X: bool = constant_bool(1)",
                "X: int = constant_int(True)", "X: int = constant_int(-1)", "X: bytearray = constant_bytearray(b'a')",
                "X: int = constant_int(*[1])", "X: int = constant_int(**{})", "X: int = unknown(1)", "X: int = constant_int.x(1)",
                "X: Set[int] = constant_set()", "X: Set[int] = constant_set(values=1)", "X: Set[int] = constant_set(values=[1, 'a'])",
                "X: Set[int] = constant_set([1], 'desc', [])", "X: Set[int] = constant_set([1], 'desc', [], [])",
                "X: Set[int] = constant_set([1], 'd', [], [], [])", "X: Set[int] = constant_set([1], 'desc')",
                "X: Set[int] = constant_set(values=[1], superset_of=[Unknown])", "X: Set[int] = constant_set(values=[1], superset_of=[X])",
                "X: Set[int] = constant_set(values=[1], superset_of=1)", "X: Set[int] = constant_set(values=[1], superset_of=[1])",
                "X: Set[int] = constant_set(values=[a.b.c])", "X: Set[int] = constant_set(values=[[1]])", "X: Set[int] = constant_set(values=(1,))",
                "X: Set[int] = constant_set(values=[1, 1])", "X: Set[str] = constant_set(values=['a', 'a'])", "X: Set[int] = constant_set(values=[])",
                "X: Set[int] = constant_set(values=[1], description=1)", "X: Set[int] = constant_set(values=[1], description='*x')",
                "X: Set = constant_set(values=[1])", "X: Set[List[int]] = constant_set(values=[1])", "X: Set[Unknown] = constant_set(values=[1])",
                "X: Set[int, int] = constant_set(values=[1])", "X: Set[float] = constant_set(values=[1.5])", "X: Set[bool] = constant_set(values=[True])",
                "X: Set[bytearray] = constant_set(values=[b'a'])", "X: Set[int] = constant_set(values=[1.5])", "X: Set[str] = constant_set(values=[None])",
                "X: List[int] = constant_set(values=[1])", "X: Optional[int] = constant_int(1)", "X.y: int = constant_int(1)",
                "X: int", "(X): int = constant_int(1)", "X, Y = 1, 2", "X = Y = 1", "X += 1", "del X", "global X", "pass", "...", "'string'",
                "import os", "from os import path", "from typing import Dict", "from typing import List as L", "from re import match as m",
                "from icontract import *", "lambda: 1", "class A: pass\nclass A: pass", "def f(): pass", "def f(x: int) -> bool:\n    return True",
                "@verification\ndef f(x: int) -> bool:\n    return x", "@verification\ndef f(x) -> bool:\n    return True",
                "@verification\ndef f(x: int):\n    return True", "@verification\ndef f(x: int) -> bool:\n    pass",
                "@verification\ndef f(*x: int) -> bool:\n    return True", "@verification\ndef f(x: int = 1) -> bool:\n    return True",
                "@verification\ndef f(x: int) -> bool:\n    y = x\n    y = x\n    return y > 0",
                "@verification\ndef f(x: int) -> bool:\n    return f(x)", "@verification\ndef f(x: int) -> bool:\n    while True:\n        pass",
                "@verification\ndef f(text: str) -> bool:\n    return match(text, text) is not None",
                "@verification\ndef f(text: str) -> bool:\n    return match('^a$', text) is None",
                "@verification\ndef f(text: str) -> bool:\n    return match('^a$', text)",
                "@verification\ndef f(text: str) -> bool:\n    return match('^a$') is not None",
                "@verification\ndef f(text: str) -> bool:\n    return match('^a$', text, 1) is not None",
                "@verification\ndef f(text: str) -> bool:\n    pattern = 1\n    return match(pattern, text) is not None",
                "@verification\ndef f(text: str) -> bool:\n    pattern = f'^{text}$'\n    return match(pattern, text) is not None",
                "@verification\ndef f(text: str) -> bool:\n    pattern = f'^{unknown}$'\n    return match(pattern, text) is not None",
                "@verification\ndef f(text: str) -> bool:\n    a = '^a'\n    pattern = a + '$'\n    return match(pattern, text) is not None",
                "@verification\ndef f(text: str) -> bool:\n    a = f'{a}'\n    pattern = f'^{a}$'\n    return match(pattern, text) is not None",
                "@verification\ndef f(text: str) -> bool:\n    pattern = f'^{1}$'\n    return match(pattern, text) is not None",
                "@verification\ndef f(text: str) -> bool:\n    pattern = f'^{\"a\"!r}$'\n    return match(pattern, text) is not None",
                "@verification\ndef f(text: str) -> bool:\n    pattern = f'^{\"a\":>3}$'\n    return match(pattern, text) is not None",
                "@verification\ndef f(text: str, text2: str) -> bool:\n    pattern = '^a$'\n    return match(pattern, text2) is not None",
                "@verification\ndef f(text: int) -> bool:\n    pattern = '^a$'\n    return match(pattern, text) is not None",
                "@verification\n@implementation_specific\ndef f(x: 'Unknown') -> bool:\n    pass",
                "@implementation_specific\ndef f(x: int) -> bool:\n    pass", "async def f(): pass",
                "class E(Enum):\n    A = 1", "class E(Enum):\n    A = 'a'\n    A = 'b'", "class E(Enum):\n    A = 'a'\n    B = 'a'",
                "class E(Enum):\n    def f(self): pass", "class E(Enum, DBC):\n    A = 'a'", "class E(Enum):\n    A: str = 'a'",
                "class E(Enum):\n    a, b = 'a', 'b'", "class E(Enum):\n    A = f'a'", "class E(Enum):\n    A = 'a' 'b'",
                "class C(Unknown): pass", "class C(C): pass", "class C(int, str): pass", "class C(int): pass", "class C(a.b): pass",
                "class C(metaclass=M): pass", "class C(DBC, DBC): pass", "class C(f()): pass", "class C(*[]): pass",
                "class C:\n    x = 3", "class C:\n    x: int = 3", "class C:\n    x: int\n    x: int", "class C:\n    class D: pass",
                "class C:\n    def f(self): pass", "class C:\n    def __init__(self) -> None:\n        self.x = 1",
                "class C:\n    x: int\n    def __init__(self, x: int) -> None:\n        self.x = x + 1",
                "class C:\n    x: int\n    def __init__(self, x: int) -> None:\n        self.x, self.x = x, x",
                "class C:\n    x: int\n    def __init__(self, y: int) -> None:\n        self.x = y",
                "class C:\n    x: int\n    def __init__(self, *x: int) -> None:\n        self.x = x",
                "class C:\n    x: int\n    def __init__(self, x: int, **k: int) -> None:\n        self.x = x",
                "class C:\n    x: int\n    def __init__(self, *, x: int) -> None:\n        self.x = x",
                "class C:\n    x: int\n    def __init__(self, x: int, /) -> None:\n        self.x = x",
                "class C:\n    x: int\n    def __init__(self, x: int) -> None:\n        super().__init__(x)\n        self.x = x",
                "class C:\n    x: int\n    def __init__(self, x: int) -> None:\n        Unknown.__init__(self, x)\n        self.x = x",
                "class C:\n    x: int\n    def __init__(self, x: int) -> None:\n        C.__init__(self, x)",
                "class C:\n    x: int\n    def __init__(self, x: int) -> None:\n        self.x = x\n        self.x = x",
                "class C:\n    x: int\n    def __init__(self, x: int) -> None:\n        self.y = x",
                "class C:\n    x: int\n    def __init__(self, x: int) -> None:\n        return None",
                "class C:\n    x: int\n    def __init__(self, x: int) -> int:\n        self.x = x",
                "class C:\n    x: int\n    def __init__(x: int) -> None:\n        pass",
                "class C:\n    x: int\n    def __init__(self, x: int = 3) -> None:\n        self.x = x",
                "class C:\n    x: Optional[int]\n    def __init__(self, x: Optional[int]) -> None:\n        self.x = x",
                "class C:\n    x: Optional[int]\n    def __init__(self, x: Optional[int] = 1) -> None:\n        self.x = x",
                "class C:\n    x: int\n    @implementation_specific\n    def x(self) -> int:\n        pass",
                "class C:\n    @implementation_specific\n    def f(self, x: int = []) -> int:\n        pass",
                "class C:\n    @implementation_specific\n    def f(self, x: int = -1) -> int:\n        pass",
                "class C:\n    @implementation_specific\n    def f(self, x: 'E' = E.A) -> int:\n        pass",
                "class C:\n    @implementation_specific\n    def f(self, x: 'E' = Unknown.A) -> int:\n        pass",
                "class C:\n    def f(self, x: int) -> int:\n        return x",
                "class C:\n    def f(self, x: int) -> int:\n        \"\"\"Do.\"\"\"",
                "class C:\n    @require(lambda x: x > 0)\n    def f(self, x: int) -> int:\n        \"\"\"Do.\"\"\"",
                "class C:\n    @require(lambda y: y > 0)\n    def f(self, x: int) -> int:\n        \"\"\"Do.\"\"\"",
                "class C:\n    @ensure(lambda result: result > 0)\n    def f(self, x: int) -> int:\n        \"\"\"Do.\"\"\"",
                "class C:\n    @ensure(lambda OLD, result: OLD.x > 0)\n    def f(self, x: int) -> int:\n        \"\"\"Do.\"\"\"",
                "class C:\n    @snapshot(lambda x: x)\n    @ensure(lambda OLD, result: OLD.x > 0)\n    def f(self, x: int) -> int:\n        \"\"\"Do.\"\"\"",
                "class C:\n    \"\"\":class:`Unknown`\"\"\"", "class C:\n    \"\"\":attr:`Unknown.x`\"\"\"", "class C:\n    \"\"\":attr:`x`\"\"\"",
                "class C:\n    \"\"\":constref:`Unknown`\"\"\"", "class C:\n    \"\"\":paramref:`x`\"\"\"", "class C:\n    \"\"\":constraintref:`X-1`\"\"\"",
                "class C:\n    \"\"\"\n    Do.\n\n    :constraint X-1:\n        a\n    :constraint X-1:\n        b\n    \"\"\"",
                "class C:\n    \"\"\"``x\"\"\"", "class C:\n    \"\"\"*x\"\"\"", "class C:\n    \"\"\".. note::\"\"\"", "class C:\n    \"\"\".. unknown:: x\"\"\"",
                "class C:\n    \"\"\"\n    Do.\n\n    :param x: y\n    \"\"\"", "class C:\n    \"\"\"\n    * a\n    \"\"\"", "class C:\n    \"\"\"\"\"\"",
                "class C:\n    \"\"\"x\n===\"\"\"", "class C:\n    \"\"\"`x`_\"\"\"", "class C:\n    \"\"\"|x|\"\"\"", "class C:\n    \"\"\"x::\n\n    code\"\"\"",
                "class C:\n    \"\"\":class:`.C`\"\"\"", "class C:\n    \"\"\":class:`~C`\"\"\"", "class C:\n    \"\"\":class:``\"\"\"", "class C:\n    \"\"\":attr:`C.`\"\"\"",
                "class C:\n    \"\"\":attr:`.x`\"\"\"", "class C:\n    \"\"\":attr:`C.x.y`\"\"\"", "class C:\n    \"\"\":class:`C D`\"\"\"",
                "class I_c: pass", "class Must_c: pass", "class Str: pass", "class Class: pass", "class c: pass", "class _c: pass", "class C_: pass",
                "class C__d: pass", "class Error: pass", "class \u00c9: pass", "class Path:\n    pass",
                "__version__ = 1", "__version__ = f'x'", "__xml_namespace__ = 1", "__unknown__ = 'x'", "__version__: str = 'x'",
                "__version__ = 'a'\n__version__ = 'b'", "__book_url__ = 'x'", "__book_version__ = 'x'", "__description__ = 'x'",
                "\"\"\"Another docstring.\"\"\"", "# -*- coding: latin-1 -*-", "\f", "x = '\\ud800'", "x = 1 if True else 2", "X: int = constant_int(0x10)",
                "X: int = constant_int(10**100)", "X: float = constant_float(1e999)", "X: str = constant_str('\\x00')",
                "X: str = constant_str('''multi\nline''')", "X: str = constant_str(value='a', description='''\n    Do.\n\n    More.\n    ''')"]

PY_TOKENS = ["(", ")", "[", "]", ":", ",", ".", "=", "==", "->", "@", "self", "None", "lambda", "not", "and", "or", "is", "in",
             "class", "def", "pass", "return", "0", "1", "''", "len", "all", "any", "range", "Optional", "List", "DBC", "Enum", "int",
             "str", "\n", "    ", "*", "**", "-", "+", "\u00e9", "for", "if", "else", "__init__", "match", "f''", "b''", "...", ";", "\\"]


def mutate(draw: Draw, text: str, other: Optional[str] = None) -> Tuple[str, str]:
    """Apply one drawn mutation; returns (name, new_text)."""
    ops = [m_bad_pattern, m_type_anno, m_decorator, m_module_stmt, m_module_stmt, m_class_member, m_expr_edit,
           m_delete_line, m_dup_line, m_swap_lines, m_token_replace, m_token_delete, m_docstring, m_rename,
           m_version, m_ctor, m_base]
    if other is not None:
        ops.append(lambda d, t: m_splice(d, t, other))
    for _ in range(6):
        op = _pick(draw, ops)
        res = op(draw, text)
        if res is not None and res != text:
            name = getattr(op, "__name__", "m_splice")
            return name, res
    return "m_module_stmt", m_module_stmt(draw, text) or text


def m_bad_pattern(draw: Draw, text: str) -> Optional[str]:
    pat = _pick(draw, BAD_PATTERNS)
    res = _sub_nth(draw, text, r'(pattern|inner) = f?"(?:[^"\\]|\\.)*"', lambda m: f'{m.group(1)} = "{pat}"')
    if res is None:
        stmt = f'@verification\ndef matches_mutant(text: str) -> bool:\n    pattern = "{pat}"\n    return match(pattern, text) is not None\n\n\n'
        return _insert_before_version(text, stmt)
    return res


def m_type_anno(draw: Draw, text: str) -> Optional[str]:
    anno = _pick(draw, TYPE_ANNOS)
    return _sub_nth(draw, text, r"^(    \w+): (.+)$", lambda m: f"{m.group(1)}: {anno}", re.M)


def m_decorator(draw: Draw, text: str) -> Optional[str]:
    deco = _pick(draw, DECORATORS)
    return _sub_nth(draw, text, r"^(class|def) ", lambda m: f"{deco}\n{m.group(1)} ", re.M)


def _insert_before_version(text: str, stmt: str) -> str:
    i = text.find("__version__")
    if i < 0:
        return text + "\n" + stmt
    return text[:i] + stmt + "\n\n" + text[i:]


def m_module_stmt(draw: Draw, text: str) -> Optional[str]:
    stmt = _pick(draw, MODULE_STMTS)
    where = draw(st.integers(0, 2))
    if where == 0:
        return _insert_before_version(text, stmt)
    if where == 1:
        return text + "\n" + stmt + "\n"
    # before a drawn class/def/decorator block start
    ms = list(re.finditer(r"^(?=@|class |def |\w+: )", text, re.M))
    ms = [m for m in ms if not text[:m.start()].endswith("(\n")]
    if not ms:
        return _insert_before_version(text, stmt)
    # only insert at block starts that follow a blank line (top-level separators)
    ms2 = [m for m in ms if text[:m.start()].endswith("\n\n")]
    m = _pick(draw, ms2 or ms)
    return text[: m.start()] + stmt + "\n\n\n" + text[m.start():]


CLASS_MEMBERS = ["    x_mut = 3", "    x_mut: int = 3", "    x_mut: int\n    x_mut: int", "    class Inner: pass", "    def f_mut(self): pass",
                 "    @implementation_specific\n    def f_mut(self) -> int:\n        pass", "    del x", "    pass", "    ...", "    'stray string'",
                 "    x_mut: Final[int]", "    x_mut: 'Unknown_cls'", "    mutable_x: int", "    over_x_or_empty: int", "    descend: int", "    self: int",
                 "    model_type: str", "    type: int", "    class_: int", "    x_mut: Optional[List[Optional[int]]]", "    lambda: 1", "    if True: pass",
                 "    @non_mutating\n    @implementation_specific\n    def f_mut(self) -> int:\n        pass",
                 "    @implementation_specific\n    def mutable_f(self) -> int:\n        pass",
                 "    @implementation_specific\n    def over_x_or_empty(self) -> int:\n        pass",
                 "    @implementation_specific\n    def __eq__(self, o: int) -> bool:\n        pass",
                 "    @implementation_specific\n    @implementation_specific\n    def f_mut(self) -> int:\n        pass"]


def m_class_member(draw: Draw, text: str) -> Optional[str]:
    mem = _pick(draw, CLASS_MEMBERS)
    return _sub_nth(draw, text, r"^class [^\n]*:\n", lambda m: m.group(0) + mem + "\n", re.M)


EXPR_EDITS = [
    (r"len\(([^()]*)\)", r"len(\1, \1)"), (r"len\(([^()]*)\)", r"len()"), (r"range\(([^,()]*), ", r"range("),
    (r"range\(([^()]*(?:\([^()]*\))?[^()]*)\)", r"range(\1, 1)"), (r" for (\w+) in ([^()]+(?:\([^()]*\))*[^()]*)\)", r" for \1 in \2 if \1)"),
    (r" (<|<=|>|>=|==) (\d+)", r" \1 \2 \1 \2"), (r" is not None", r" != None"), (r" is None", r" == None"),
    (r"not \(", r"~("), (r" and ", r" & "), (r" or ", r" | "), (r"self\.(\w+)", r"self.\1.unknown_member"),
    (r"self\.(\w+)", r"self.\1()"), (r"self\.(\w+)", r"self.\1[0]"), (r"self\.(\w+)", r"self['\1']"),
    (r"(matches_\w+)\(", r"\1()("), (r"(matches_\w+)\(([^()]*)\)", r"\1(\2, \2)"), (r"(matches_\w+)\(([^()]*)\)", r"\1()"),
    (r"(matches_\w+)\(([^()]*)\)", r"\1(x=\2)"), (r"(matches_\w+)\(([^()]*)\)", r"\1(*[\2])"),
    (r" in (\w+_(?:set|constants|limit))", r" not in \1"), (r" in (\w+_(?:set|constants|limit))", r" in [\1]"),
    (r"(all|any)\(", r"\1(1, "), (r"(all|any)\(([^\n]*) for ", r"\1([\2 for "), (r"lambda self:", r"lambda:"),
    (r"lambda self:", r"lambda self, x:"), (r"lambda self:", r"lambda this:"), (r"(\d+)", r"\1.0"), (r"(\d+)", r"-\1"),
    (r"(\d+)", r"(\1)"), (r"(\d+)", r"\1 + 1"), (r"(\d+)", r"+\1"), (r"== \"", r'== f"'), (r'"([^"\n]*)"\n\)', r'"\1" "more"\n)'),
    (r'"([^"\n]*)"\n\)', r'\n)'), (r'"([^"\n]*)"\n\)', r'"\1", "extra"\n)'), (r'"([^"\n]*)"\n\)', r'""\n)'),
    (r"\.(\w+) (==|!=) (\w+)\.(\w+)", r".\1 \2 \3.Unknown_literal"), (r"(\w+)\.(\w+) == ", r"\1.\2.\2 == "),
]


def m_expr_edit(draw: Draw, text: str) -> Optional[str]:
    pat, rep = _pick(draw, EXPR_EDITS)
    return _sub_nth(draw, text, pat, rep)


def m_delete_line(draw: Draw, text: str) -> Optional[str]:
    lines = text.split("\n")
    i = draw(st.integers(0, len(lines) - 1))
    del lines[i]
    return "\n".join(lines)


def m_dup_line(draw: Draw, text: str) -> Optional[str]:
    lines = text.split("\n")
    i = draw(st.integers(0, len(lines) - 1))
    lines.insert(i, lines[i])
    return "\n".join(lines)


def m_swap_lines(draw: Draw, text: str) -> Optional[str]:
    lines = text.split("\n")
    if len(lines) < 3:
        return None
    i = draw(st.integers(0, len(lines) - 2))
    lines[i], lines[i + 1] = lines[i + 1], lines[i]
    return "\n".join(lines)


def _tokens(text: str) -> Optional[List[tokenize.TokenInfo]]:
    try:
        return [t for t in tokenize.generate_tokens(io.StringIO(text).readline)]
    except (tokenize.TokenError, IndentationError, SyntaxError):
        return None


def _offsets(text: str) -> List[int]:
    offs = [0]
    for ln in text.split("\n"):
        offs.append(offs[-1] + len(ln) + 1)
    return offs


def m_token_replace(draw: Draw, text: str) -> Optional[str]:
    toks = _tokens(text)
    if not toks:
        return None
    toks = [t for t in toks if t.type in (tokenize.NAME, tokenize.OP, tokenize.NUMBER, tokenize.STRING) and t.start[0] == t.end[0]]
    if not toks:
        return None
    t = _pick(draw, toks)
    offs = _offsets(text)
    a = offs[t.start[0] - 1] + t.start[1]
    b = offs[t.end[0] - 1] + t.end[1]
    return text[:a] + _pick(draw, PY_TOKENS) + text[b:]


def m_token_delete(draw: Draw, text: str) -> Optional[str]:
    toks = _tokens(text)
    if not toks:
        return None
    toks = [t for t in toks if t.type in (tokenize.NAME, tokenize.OP, tokenize.NUMBER, tokenize.STRING) and t.start[0] == t.end[0]]
    if not toks:
        return None
    t = _pick(draw, toks)
    offs = _offsets(text)
    a = offs[t.start[0] - 1] + t.start[1]
    b = offs[t.end[0] - 1] + t.end[1]
    return text[:a] + text[b:]


DOCS = ['":class:`Unknown_cls`"', '":attr:`unknown_attr`"', '":constref:`Unknown_const`"', '"``unbalanced"', '"*unbalanced"',
        '".. note::"', '".. unknown_directive:: x"', '"Title\\n====="', '"`link`_"', '"|subst|"', '""', '"   "',
        '"Do.\\n\\n:param unknown_param: x"', '"Do.\\n\\n:constraint X-1:\\n    a\\n:constraint X-1:\\n    b"',
        '"Do.\\n\\n:constraintref:`Nope-1`"', '"* item"', '"1. item"', '"Do\\n  indented"', '"x::\\n\\n    code"',
        '":class:`C` :class:`D`"', '"\\x00"', '"\\u2028"', '"Do.\\n\\n:returns: x"', '"Do.\\n\\n:unknown_field: x"',
        '"Do.\\n\\n.. code-block:: python\\n\\n    x = 1"', '"Do.\\n\\n    Block quote."', '"**strong**"', '"`interpreted`"',
        '":math:`x`"', '":ref:`x`"', '"http://example.com"', '"x_"', '"[1]_"', '"Do.\\n\\n.. [1] footnote"', '".. image:: x.png"',
        '"+---+\\n| a |\\n+---+"', '"Do.\\n\\n.. note::\\n\\n    Note text."', '"Do.\\n\\n.. note::\\n\\n    * bullet"']


def m_docstring(draw: Draw, text: str) -> Optional[str]:
    doc = _pick(draw, DOCS)
    r = _sub_nth(draw, text, r'^( *)"""[^"\n]*"""$', lambda m: f"{m.group(1)}{doc}", re.M)
    if r is not None:
        return r
    return _sub_nth(draw, text, r"^class [^\n]*:\n", lambda m: m.group(0) + f"    {doc}\n", re.M)


RENAMES = ["I_x", "Must_x", "str", "Str", "class", "Class", "Error", "x", "_x", "X_", "X__y", "\u00e9", "mutable_x", "over_x_or_empty",
           "gr\u00f6\u00dfe", "Caf\u00e9", "te\u03c7t", "Gr\u00fcn_thing", "xe\u0308", "a\u00b7b", "x\uff11",
           "Path", "match", "Match", "self", "None_x", "type", "Type", "aas", "Iterator", "Verification", "Visitor", "Transformer",
           "Jsonization", "Context", "Enhanced", "Record", "Partial", "model_type", "Model_type", "descend", "accept", "transform"]


def m_rename(draw: Draw, text: str) -> Optional[str]:
    new = _pick(draw, RENAMES)
    kind = draw(st.integers(0, 2))
    if kind == 0:
        return _sub_nth(draw, text, r"^class (\w+)", lambda m: f"class {new}", re.M)
    if kind == 1:
        return _sub_nth(draw, text, r"^    (\w+): ", lambda m: f"    {new}: ", re.M)
    return _sub_nth(draw, text, r"^(def |)(\w+)(\(|: )", lambda m: f"{m.group(1)}{new}{m.group(3)}", re.M)


def m_version(draw: Draw, text: str) -> Optional[str]:
    k = draw(st.integers(0, 4))
    if k == 0:
        return re.sub(r"^__version__ = .*\n", "", text, flags=re.M)
    if k == 1:
        return re.sub(r"^__xml_namespace__ = .*\n", "", text, flags=re.M)
    if k == 2:
        return re.sub(r"^__version__ = .*$", "__version__ = 1", text, flags=re.M)
    if k == 3:
        return re.sub(r"^__xml_namespace__ = .*$", '__xml_namespace__ = ""', text, flags=re.M)
    return re.sub(r"^__version__ = .*$", '__version__ = "a"\n__version__ = "b"', text, flags=re.M)


CTOR_EDITS = [
    (r"        self\.(\w+) = (\w+)\n", r""), (r"        self\.(\w+) = (\w+)\n", r"        self.\1 = \2\n        self.\1 = \2\n"),
    (r"        self\.(\w+) = (\w+)\n", r"        self.\1 = \2 if \2 else \2\n"), (r"        self\.(\w+) = (\w+)\n", r"        self.\1: int = \2\n"),
    (r"        self\.(\w+) = (\w+)\n", r"        self.\1 = self.\1\n"), (r"        self\.(\w+) = (\w+)\n", r"        \1 = \2\n"),
    (r"        (\w+)\.__init__\(self, ", r"        \1.__init__("), (r"        (\w+)\.__init__\(self", r"        \1.__init__(self, *[]"),
    (r"        (\w+)\.__init__\(self", r"        \1.__init__(self, **{}"), (r"        (\w+)\.__init__\(self(, \w+)", r"        \1.__init__(self"),
    (r"        (\w+)\.__init__\(", r"        super().__init__("), (r"        (\w+)\.__init__\(self(, \w+)", r"        \1.__init__(self\2\2"),
    (r"        (\w+)\.__init__\(self, (\w+)", r"        \1.__init__(self, \2 + 1"), (r"        (\w+)\.__init__\(self, (\w+)", r"        \1.__init__(self, unknown_name"),
    (r"        (\w+)\.__init__\(([^\n]*)\)\n", r""), (r"        (\w+)\.__init__\(([^\n]*)\)\n", r"        \1.__init__(\2)\n        \1.__init__(\2)\n"),
    (r"        (\w+)\.__init__\(", r"        Unknown_parent.__init__("), (r"        (\w+)\.__init__\(", r"        \1.other("),
    (r" = None(,|\))", r"\1"), (r" = None(,|\))", r" = 0\1"), (r"(\w+): (Optional\[[^\n]*\]) = None", r"\1: int = None"),
    (r"def __init__\(self, (\w+): ([^,\n)]+)", r"def __init__(self, \1_renamed: \2"), (r"def __init__\(self, (\w+): ([^,\n)]+)", r"def __init__(self, \1: bool"),
    (r"def __init__\(self, ", r"def __init__(self, extra_arg: int, "), (r"def __init__\(self, ", r"def __init__("),
    (r"\) -> None:", r"):"), (r"\) -> None:", r") -> int:"), (r"def __init__", r"def __new__"), (r"def __init__", r"async def __init__"),
]


def m_ctor(draw: Draw, text: str) -> Optional[str]:
    pat, rep = _pick(draw, CTOR_EDITS)
    return _sub_nth(draw, text, pat, rep)


def m_base(draw: Draw, text: str) -> Optional[str]:
    k = draw(st.integers(0, 5))
    classes = re.findall(r"^class (\w+)", text, re.M)
    if not classes:
        return None
    tgt = _pick(draw, classes)
    new_base = _pick(draw, classes + ["Unknown_base", "int", "str", "Enum", "DBC", "object", tgt])
    if k <= 2:
        # add a base (cycles, enum bases, duplicates, self inheritance)
        def add(m: Any) -> str:
            inner = m.group(2)
            if inner is None or inner.strip() == "":
                return f"class {m.group(1)}({new_base}):"
            return f"class {m.group(1)}({new_base}, {inner}):"

        return _sub_nth(draw, text, rf"^class ({tgt})(?:\(([^)]*)\))?:", add, re.M)
    if k == 3:
        return _sub_nth(draw, text, r"^class (\w+)\(([^)]*)\):", lambda m: f"class {m.group(1)}:", re.M)
    if k == 4:
        return _sub_nth(draw, text, r"^@abstract\n", "", re.M)
    return _sub_nth(draw, text, r"^@serialization\(with_model_type=True\)\n", "", re.M)


def m_splice(draw: Draw, text: str, other: str) -> Optional[str]:
    """Replace a run of lines by a run of lines of another model."""
    a = text.split("\n")
    b = other.split("\n")
    i = draw(st.integers(0, len(a) - 1))
    j = draw(st.integers(i, min(len(a), i + 8)))
    k = draw(st.integers(0, len(b) - 1))
    l = draw(st.integers(k, min(len(b), k + 8)))
    return "\n".join(a[:i] + b[k:l] + a[j:])
