"""C19 — Emitted literals denote exactly the original values."""
from __future__ import annotations

import json
import os
import pathlib
import re
import shutil
import subprocess
import sys
import warnings
from typing import Any, Callable, Dict, List, Optional, Sequence, Tuple

from hypothesis import strategies as st

from vlib import litdecode, runner

PID = "C19"
RULE = (
    "Hypothesis draws cases str(text,k) / bytes / char. text = <=12 characters built from tokens "
    "over a weighted alphabet: C0 controls incl. NUL/ESC, DEL, C1 incl. U+0085, quotes, backslash, "
    "backtick, $ { }, hex digits, '?', U+00A0/00FF/0100, U+2028/2029, U+FEFF, U+FFFE/FFFF, astral, "
    "any scalar value; tokens also include <hex-escaped character>+<hex digit> pairs and "
    "sequences (${, {{, \\u0041 as text, ??/, quotes x3 ...). bytes: 0-20 long (lengths biased "
    "to 0,1,7,8,9,16,17,20). No lone surrogates. Every case goes through every literal helper of "
    "every target (python string_literal in all quoting modes, with/without enclosing, f-string "
    "mode with an interpolated value at offset k; bytes_literal; C++ wstring/string/wchar/bytes; "
    "C#; Java; TypeScript quoted, backtick, template with ${v0} at offset k, bytes; Go string, "
    "bytes) and, where needs_escaping(text) is False, through the raw embedding \"text\". Oracle = "
    "the language's own reader on one generated source file per language and batch (CPython "
    "compile() of the UTF-8 file bytes + exec; g++ -std=c++17 printing code units via sizeof; "
    "javac/java 17; node 22), attributed to single literals by diagnostic line numbers and "
    "bisection; C# and Go by spec-derived decoders (vlib/litdecode.py). A helper that raises is "
    "'error-reported' (acceptable). Non-trivial = the value contains a character outside [ -~] or "
    "a quote/backslash (bytes: non-empty). One evaluated case = one value read by one language (all helpers/modes of that language in one file); distinct by (language,value,k); per-target outcomes are in the class histogram. A failing literal is named by the smallest failing probe: the literal of each single character / adjacent pair of the value read again by the same reader (char:<class>, pair:<class>+<class>)."
)
ASSUMPTIONS = [
    "a literal is read in the context its callers create: Python f-string parts are wrapped as f<q>part{v0}part<q>, "
    "TypeScript template parts as `part${v0}part`, Python multi-line bytes inside parentheses, C++ bytes as "
    "copy-list-initialisation of std::vector<std::uint8_t>",
    "generated files are UTF-8 (javac -encoding UTF-8; g++ default input charset UTF-8; Python default source encoding)",
    "C++: wchar_t is 32 bit (Linux); a wide literal denotes the array including embedded NULs (measured with sizeof), "
    "not what std::wstring(const wchar_t*) would truncate; -std=c++17 has no trigraphs (g++ ignores ??/ in this mode)",
    "C#: ECMA-334 regular string literals: simple escapes \\' \\\" \\\\ \\0 \\a \\b \\f \\n \\r \\t \\v, \\x with 1-4 hex digits "
    "(greedy), \\uXXXX, \\UXXXXXXXX <= 10FFFF; raw U+000A/000D/0085/2028/2029 are not allowed; NUL and U+FEFF are ordinary "
    "input characters; value compared as UTF-16 code units",
    "Go: interpreted string literals: \\a \\b \\f \\n \\r \\t \\v \\\\ \\\" only (\\' illegal), \\ooo three octal digits <= 255 and "
    "\\xHH exactly two hex digits are single bytes, \\uXXXX / \\UXXXXXXXX exact length, no surrogate halves, <= 10FFFF; raw "
    "U+000A not allowed; NUL and a byte order mark (U+FEFF) are rejected anywhere in the source text (the spec allows a "
    "compiler to reject them, gc does); value compared as UTF-8 bytes; composite literals obey automatic semicolon "
    "insertion (a line inside {...} may not end with an element without a trailing comma)",
    "TypeScript string/template literal lexing equals ECMAScript 2019+ (node); no tsc in the sandbox",
    "needs_escaping(text) == False is read as: the callers may embed text between double quotes unchanged "
    "(that is what csharp/java jsonization do); only this implication is asserted",
    "any exception raised by a helper (icontract violation of the ASCII precondition of the C++ string_literal "
    "included) is 'the generator reports an error'",
]

NODE_CANDIDATES = ["/root/.nvm/versions/node/v22.22.2/bin/node"]
V0 = "#V#"  # value of the interpolated variable v0

HEXD = "0123456789abcdefABCDEF"
C0_SIMPLE = "\a\b\f\n\r\t\v"
C0_OTHER = [chr(i) for i in range(32) if chr(i) not in C0_SIMPLE]

# ---------------------------------------------------------------------------
# Generator
# ---------------------------------------------------------------------------

_special_ascii = list("\"'\\`${}")
_latin = ["\x7f", "\x80", "\x85", "\x9f", "\xa0", "\xad", "\xe9", "\xfe", "\xff", "\u0100", "\u0101"]
_bmp = ["\u2028", "\u2029", "\ufeff", "\ufffe", "\uffff", "\ufffd", "\ud7ff", "\ue000", "\u200b",
        "\u0301", "\u20ac", "\u0fff", "\u1000"]
_astral = ["\U00010000", "\U0001f600", "\U0010ffff", "\U000e0001", "\U0001d11e", "\U0002f800", "\U000fffff"]

_char = st.one_of(
    st.sampled_from(C0_OTHER),
    st.sampled_from(["\x00", "\x01", "\x0e", "\x0f", "\x10", "\x1b", "\x1f", "\x7f"]),
    st.sampled_from(list(C0_SIMPLE)),
    st.sampled_from(_special_ascii),
    st.sampled_from(_special_ascii),
    st.sampled_from(list(HEXD)),
    st.sampled_from(list("?/=<>-!()xuUN0 ")),
    st.sampled_from(_latin),
    st.sampled_from(_bmp),
    st.sampled_from(_astral),
    st.characters(min_codepoint=0x20, max_codepoint=0x7E),
    st.characters(blacklist_categories=["Cs"]),
)

# characters that at least one target writes as a hexadecimal / unicode escape
_hex_escaped = st.one_of(
    st.sampled_from(C0_OTHER),
    st.sampled_from(_latin),
    st.sampled_from(_bmp),
    st.sampled_from(_astral),
    st.integers(0x80, 0xFE).map(chr),
)
_pair = st.tuples(_hex_escaped, st.text(alphabet=HEXD, min_size=1, max_size=3)).map(lambda t: t[0] + t[1])

_sequences = [
    "${", "$${", "$", "{{", "}}", "{v0}", "${v0}", "{", "}", "\\n", "\\x41", "\\u0041", "\\U00000041",
    "\\\\", "\\\"", "\\'", "??/", "??=", "??'", "'''", '"""', "*/", "//", "\\N{DASH}", "%s", "{0}",
    "\\0", "\\1", "\\$", "\\`", "`${", "$`", "\r\n", "\\{", "\\u{41}", "\\ud83d", "\\x1",
]
_token = st.one_of(_char, _char, _char, _char, _pair, st.sampled_from(_sequences))
_text = st.lists(_token, min_size=0, max_size=12).map(lambda ts: "".join(ts)[:12])

_bytes = st.one_of(
    st.binary(min_size=0, max_size=20),
    st.sampled_from([0, 1, 7, 8, 9, 15, 16, 17, 20]).flatmap(lambda n: st.binary(min_size=n, max_size=n)),
)

STRATEGY = st.one_of(
    st.tuples(st.just("s"), _text, st.integers(0, 13)),
    st.tuples(st.just("s"), _text, st.integers(0, 13)),
    st.tuples(st.just("s"), _text, st.integers(0, 13)),
    st.tuples(st.just("s"), _text, st.integers(0, 13)),
    st.tuples(st.just("b"), _bytes),
    st.tuples(st.just("c"), _char),
)


def char_class(ch: str) -> str:
    cp = ord(ch)
    if cp == 0:
        return "nul"
    if ch in C0_SIMPLE:
        return "c0-simple-escape"
    if cp < 32:
        return "c0-other"
    if ch in "\"'":
        return "quote"
    if ch == "\\":
        return "backslash"
    if ch == "`":
        return "backtick"
    if ch in "${}":
        return "dollar-brace"
    if ch in HEXD:
        return "hexdigit"
    if ch == "?":
        return "question"
    if cp < 0x7F:
        return "ascii-other"
    if cp == 0x7F:
        return "del"
    if cp == 0x85:
        return "nel-U+0085"
    if cp < 0xA0:
        return "c1"
    if cp < 0xFF:
        return "latin1-A0..FE"
    if cp in (0xFF, 0x100):
        return "U+00FF/0100"
    if cp in (0x2028, 0x2029):
        return "linesep-U+2028/9"
    if cp == 0xFEFF:
        return "bom-U+FEFF"
    if cp in (0xFFFE, 0xFFFF):
        return "nonchar-U+FFFE/F"
    if 0xD800 <= cp <= 0xDFFF:
        return "surrogate"
    if cp < 0x10000:
        return "bmp-other"
    return "astral"


def text_classes(text: str) -> List[str]:
    out = sorted({"char:" + char_class(c) for c in text})
    if len(text) == 0:
        out.append("char:<empty>")
    for a, b in zip(text, text[1:]):
        if b in HEXD and (ord(a) < 32 and a not in C0_SIMPLE or ord(a) >= 0x7F):
            out.append("seq:escaped-char+hexdigit")
            break
    if "${" in text:
        out.append("seq:${")
    if "??" in text:
        out.append("seq:??")
    return out


def is_nontrivial_text(text: str) -> bool:
    return any(not (" " <= c <= "~") or c in "\"'\\" for c in text)


# ---------------------------------------------------------------------------
# Expected values
# ---------------------------------------------------------------------------


def code_points(text: str) -> List[int]:
    return [ord(c) for c in text]


def utf16_units(text: str) -> List[int]:
    b = text.encode("utf-16-le", "surrogatepass")
    return [b[i] | (b[i + 1] << 8) for i in range(0, len(b), 2)]


def utf8_bytes(text: str) -> List[int]:
    return list(text.encode("utf-8", "surrogatepass"))


# ---------------------------------------------------------------------------
# Targets: (language, helper, mode) -> literal text in its calling context
# ---------------------------------------------------------------------------


class Item:
    """One literal to be read by a language."""

    __slots__ = ("target", "kind", "value", "k", "literal", "expect", "arg")

    def __init__(self, target: str, kind: str, value: Any, k: Optional[int],
                 literal: str, expect: List[int], arg: bool) -> None:
        self.target = target
        self.kind = kind        # "s" | "b" | "c"
        self.value = value      # str | bytes
        self.k = k              # interpolation offset or None
        self.literal = literal  # expression text
        self.expect = expect
        self.arg = arg          # the expression refers to the variable v0

    def case(self) -> Dict[str, Any]:
        v = self.value
        return {
            "target": self.target,
            "value": list(v) if isinstance(v, (bytes, bytearray)) else v,
            "k": self.k,
        }


def _split(text: str, k: Optional[int]) -> Tuple[List[str], str]:
    """Parts around the interpolated value and the expected text."""
    if k is None or k > 12:
        return [text], text
    k = min(k, len(text))
    return [text[:k], text[k:]], text[:k] + V0 + text[k:]


def _py_targets() -> Dict[str, Callable[[Any, Optional[int]], Tuple[str, List[int], bool]]]:
    from aas_core_codegen.python import common as c

    Q = c.StringQuoting
    quote = {Q.SINGLE_QUOTES: "'", Q.DOUBLE_QUOTES: '"'}
    t = {}  # type: Dict[str, Callable[[Any, Optional[int]], Tuple[str, List[int], bool]]]

    def plain(quoting: Any) -> Callable[[Any, Optional[int]], Tuple[str, List[int], bool]]:
        return lambda text, k: (c.string_literal(text, quoting=quoting), code_points(text), False)

    t["python:string_literal:auto"] = plain(None)
    t["python:string_literal:single"] = plain(Q.SINGLE_QUOTES)
    t["python:string_literal:double"] = plain(Q.DOUBLE_QUOTES)

    def curly(quoting: Any) -> Callable[[Any, Optional[int]], Tuple[str, List[int], bool]]:
        return lambda text, k: (
            "f" + c.string_literal(text, quoting=quoting, duplicate_curly_brackets=True),
            code_points(text), False)

    t["python:string_literal:auto+curly"] = curly(None)
    t["python:string_literal:single+curly"] = curly(Q.SINGLE_QUOTES)
    t["python:string_literal:double+curly"] = curly(Q.DOUBLE_QUOTES)

    def noenc(quoting: Any) -> Callable[[Any, Optional[int]], Tuple[str, List[int], bool]]:
        q = quote[quoting]
        return lambda text, k: (
            q + c.string_literal(text, quoting=quoting, without_enclosing=True) + q,
            code_points(text), False)

    t["python:string_literal:single,without_enclosing"] = noenc(Q.SINGLE_QUOTES)
    t["python:string_literal:double,without_enclosing"] = noenc(Q.DOUBLE_QUOTES)

    def fstr(quoting: Any) -> Callable[[Any, Optional[int]], Tuple[str, List[int], bool]]:
        q = quote[quoting]

        def f(text: str, k: Optional[int]) -> Tuple[str, List[int], bool]:
            parts, expected = _split(text, k)
            lits = [
                c.string_literal(p, quoting=quoting, without_enclosing=True, duplicate_curly_brackets=True)
                for p in parts
            ]
            return "f" + q + "{v0}".join(lits) + q, code_points(expected), len(parts) > 1

        return f

    t["python:string_literal:fstring-parts,single"] = fstr(Q.SINGLE_QUOTES)
    t["python:string_literal:fstring-parts,double"] = fstr(Q.DOUBLE_QUOTES)

    def raw(text: str, k: Optional[int]) -> Tuple[str, List[int], bool]:
        if c.needs_escaping(text):
            raise _NotApplicable()
        return '"' + text + '"', code_points(text), False

    def raw_f(text: str, k: Optional[int]) -> Tuple[str, List[int], bool]:
        if c.needs_escaping(text, also_check_curly_brackets=True):
            raise _NotApplicable()
        return 'f"' + text + '"', code_points(text), False

    t["python:needs_escaping:raw"] = raw
    t["python:needs_escaping:raw-fstring"] = raw_f
    return t


def _py_bytes_targets() -> Dict[str, Callable[[Any, Optional[int]], Tuple[str, List[int], bool]]]:
    from aas_core_codegen.python import common as c

    def f(value: bytes, k: Optional[int]) -> Tuple[str, List[int], bool]:
        lit, multi = c.bytes_literal(value)
        _check_multiline_flag(lit, multi)
        return "(\n    " + lit.replace("\n", "\n    ") + "\n)", list(value), False

    return {"python:bytes_literal": f}


class _NotApplicable(Exception):
    """The target does not apply to the value (e.g. needs_escaping is True)."""


class _FlagMismatch(Exception):
    """bytes_literal's is-multi-line flag contradicts the text."""


def _check_multiline_flag(lit: str, multi: bool) -> None:
    if bool(multi) != ("\n" in lit):
        raise _FlagMismatch(f"multi_line={multi!r} but literal={lit!r}")


def _cpp_targets() -> Dict[str, Dict[str, Callable[[Any, Optional[int]], Tuple[str, List[int], bool]]]]:
    from aas_core_codegen.cpp import common as c

    def raw(text: str, k: Optional[int]) -> Tuple[str, List[int], bool]:
        if c.needs_escaping(text):
            raise _NotApplicable()
        return 'L"' + text + '"', code_points(text), False

    def narrow(text: str, k: Optional[int]) -> Tuple[str, List[int], bool]:
        return c.string_literal(text), list(text.encode("utf-8")), False

    def by(value: bytes, k: Optional[int]) -> Tuple[str, List[int], bool]:
        lit, multi = c.bytes_literal(value)
        _check_multiline_flag(lit, multi)
        return lit, list(value), False

    return {
        "s": {
            "cpp:wstring_literal": lambda text, k: (c.wstring_literal(text), code_points(text), False),
            "cpp:string_literal": narrow,
            "cpp:needs_escaping:raw": raw,
        },
        "c": {"cpp:wchar_literal": lambda ch, k: (c.wchar_literal(ch), [ord(ch)], False)},
        "b": {"cpp:bytes_literal": by},
    }


def _simple_lang(modname: str, lang: str, expect: Callable[[str], List[int]]) -> Dict[str, Any]:
    import importlib

    c = importlib.import_module(f"aas_core_codegen.{modname}.common")

    def raw(text: str, k: Optional[int]) -> Tuple[str, List[int], bool]:
        if c.needs_escaping(text):
            raise _NotApplicable()
        return '"' + text + '"', expect(text), False

    return {
        f"{lang}:string_literal": lambda text, k: (c.string_literal(text), expect(text), False),
        f"{lang}:needs_escaping:raw": raw,
    }


def _ts_targets() -> Dict[str, Dict[str, Callable[[Any, Optional[int]], Tuple[str, List[int], bool]]]]:
    from aas_core_codegen.typescript import common as c

    def template(text: str, k: Optional[int]) -> Tuple[str, List[int], bool]:
        parts, expected = _split(text, k)
        lits = [c.string_literal(p, without_enclosing=True, in_backticks=True) for p in parts]
        return "`" + "${v0}".join(lits) + "`", utf16_units(expected), len(parts) > 1

    def raw(text: str, k: Optional[int]) -> Tuple[str, List[int], bool]:
        if c.needs_escaping(text):
            raise _NotApplicable()
        return '"' + text + '"', utf16_units(text), False

    def raw_bt(text: str, k: Optional[int]) -> Tuple[str, List[int], bool]:
        if c.needs_escaping(text, in_backticks=True):
            raise _NotApplicable()
        return "`" + text + "`", utf16_units(text), False

    def by(value: bytes, k: Optional[int]) -> Tuple[str, List[int], bool]:
        lit, multi = c.bytes_literal(value)
        _check_multiline_flag(lit, multi)
        return lit, list(value), False

    return {
        "s": {
            "typescript:string_literal:quoted": lambda text, k: (c.string_literal(text), utf16_units(text), False),
            "typescript:string_literal:backticks": lambda text, k: (
                c.string_literal(text, in_backticks=True), utf16_units(text), False),
            "typescript:string_literal:quoted,without_enclosing": lambda text, k: (
                '"' + c.string_literal(text, without_enclosing=True) + '"', utf16_units(text), False),
            "typescript:string_literal:template-parts": template,
            "typescript:needs_escaping:raw": raw,
            "typescript:needs_escaping:raw-backticks": raw_bt,
        },
        "b": {"typescript:bytes_literal": by},
    }


def _go_targets() -> Dict[str, Dict[str, Callable[[Any, Optional[int]], Tuple[str, List[int], bool]]]]:
    from aas_core_codegen.golang import common as c

    s = _simple_lang("golang", "golang", utf8_bytes)

    def by(value: bytes, k: Optional[int]) -> Tuple[str, List[int], bool]:
        lit, multi = c.bytes_literal(value)
        _check_multiline_flag(lit, multi)
        return lit, list(value), False

    return {"s": s, "b": {"golang:bytes_literal": by}}


_TARGETS = None  # type: Optional[Dict[str, Dict[str, Dict[str, Any]]]]


def targets() -> Dict[str, Dict[str, Dict[str, Any]]]:
    """language -> kind -> target name -> emitter."""
    global _TARGETS
    if _TARGETS is None:
        _TARGETS = {
            "python": {"s": _py_targets(), "b": _py_bytes_targets()},
            "cpp": _cpp_targets(),
            "csharp": {"s": _simple_lang("csharp", "csharp", utf16_units)},
            "java": {"s": _simple_lang("java", "java", utf16_units)},
            "typescript": _ts_targets(),
            "golang": _go_targets(),
        }
    return _TARGETS


def lang_of(target: str) -> str:
    return target.split(":", 1)[0]


def helper_of(target: str) -> str:
    """``language:helper`` without the mode; buckets are per helper and cause."""
    return ":".join(target.split(":")[:2])


# ---------------------------------------------------------------------------
# Readers. evaluate(items, scratch) -> list of outcomes aligned with items:
#   ("ok", [ints]) | ("compile-error", message) | ("runtime-error", message)
# ---------------------------------------------------------------------------

Outcome = Tuple[str, Any]
STATS = {}  # type: Dict[str, int]


def _stat(key: str, n: int = 1) -> None:
    STATS[key] = STATS.get(key, 0) + n


_file_counter = [0]


def _fresh_dir(scratch: pathlib.Path, tag: str) -> pathlib.Path:
    _file_counter[0] += 1
    d = scratch / f"{tag}{_file_counter[0]}"
    d.mkdir(parents=True, exist_ok=True)
    return d


# ---- Python ---------------------------------------------------------------


def _py_exec_file(path: pathlib.Path) -> Dict[int, Any]:
    data = path.read_bytes()
    with warnings.catch_warnings():
        warnings.simplefilter("ignore")
        code = compile(data, str(path), "exec", dont_inherit=True)
    ns = {"V": {}, "v0": V0}  # type: Dict[str, Any]
    exec(code, ns)  # the file consists of assignments of literals only
    return ns["V"]


def _py_units(v: Any) -> Outcome:
    if isinstance(v, str):
        return ("ok", [ord(c) for c in v])
    if isinstance(v, bytes):
        return ("ok", list(v))
    return ("runtime-error", f"literal denotes a {type(v).__name__}")


def eval_python(items: Sequence[Item], scratch: pathlib.Path) -> List[Outcome]:
    d = _fresh_dir(scratch, "py")
    lines = [f"V[{i}] = {it.literal}" for i, it in enumerate(items)]
    path = d / "lits.py"
    path.write_bytes(("\n".join(lines) + "\n").encode("utf-8", "surrogatepass"))
    _stat("python:compiles")
    try:
        values = _py_exec_file(path)
        if len(values) == len(items):
            return [_py_units(values[i]) for i in range(len(items))]
    except BaseException:  # noqa: attributed below, literal by literal
        pass
    out = []  # type: List[Outcome]
    for i, it in enumerate(items):
        p = d / f"one{i}.py"
        p.write_bytes((f"V[0] = {it.literal}\n").encode("utf-8", "surrogatepass"))
        _stat("python:compiles")
        try:
            with warnings.catch_warnings():
                warnings.simplefilter("ignore")
                code = compile(p.read_bytes(), str(p), "exec", dont_inherit=True)
        except BaseException as e:  # noqa
            out.append(("compile-error", f"{type(e).__name__}: {getattr(e, 'msg', None) or e}"))
            continue
        ns = {"V": {}, "v0": V0}  # type: Dict[str, Any]
        try:
            exec(code, ns)
        except BaseException as e:  # noqa
            out.append(("runtime-error", f"{type(e).__name__}: {e}"))
            continue
        if len(ns["V"]) != 1 or 0 not in ns["V"]:
            out.append(("runtime-error", "the text is not a single expression"))
            continue
        out.append(_py_units(ns["V"][0]))
    return out


# ---- spec decoders ----------------------------------------------------------


def eval_csharp(items: Sequence[Item], scratch: pathlib.Path) -> List[Outcome]:
    out = []  # type: List[Outcome]
    for it in items:
        try:
            out.append(("ok", litdecode.decode_csharp_regular_string(it.literal)))
        except litdecode.LitError as e:
            out.append(("compile-error", str(e)))
    return out


def eval_golang(items: Sequence[Item], scratch: pathlib.Path) -> List[Outcome]:
    out = []  # type: List[Outcome]
    for it in items:
        try:
            if it.kind == "b":
                out.append(("ok", list(litdecode.decode_go_byte_array(it.literal))))
            else:
                out.append(("ok", list(litdecode.decode_go_interpreted_string(it.literal))))
        except litdecode.LitError as e:
            out.append(("compile-error", str(e)))
        except litdecode.Unsupported as e:
            raise runner.HarnessError(f"Go reader cannot read {it.literal!r}: {e}")
    return out


# ---- external compilers: common attribution loop ----------------------------


class External:
    """A language whose reader is an external tool working on a generated file."""

    name = "?"

    def available(self) -> Optional[str]:
        """Return a reason if the toolchain is missing."""
        raise NotImplementedError

    def run(self, items: Sequence[Item], d: pathlib.Path) -> Tuple[Optional[Dict[int, Outcome]], Dict[int, str], str]:
        """
        Build and run one file. Return (outcomes by position | None if the file was rejected,
        {position: diagnostic} attributed by line number, full diagnostics).
        """
        raise NotImplementedError

    def evaluate(self, items: Sequence[Item], scratch: pathlib.Path) -> List[Outcome]:
        res = {}  # type: Dict[int, Outcome]
        self._solve(list(enumerate(items)), scratch, res)
        return [res[i] for i in range(len(items))]

    def _solve(self, indexed: List[Tuple[int, Item]], scratch: pathlib.Path, res: Dict[int, Outcome]) -> None:
        while indexed:
            d = _fresh_dir(scratch, self.name)
            _stat(f"{self.name}:compiles")
            outcomes, culprits, diag = self.run([it for _, it in indexed], d)
            shutil.rmtree(d, ignore_errors=True)
            if outcomes is not None:
                missing = [pos for pos in range(len(indexed)) if pos not in outcomes]
                if missing and len(indexed) > 1:
                    # some literal broke out of its statement: isolate it
                    _stat(f"{self.name}:bisections")
                    mid = len(indexed) // 2
                    self._solve(indexed[:mid], scratch, res)
                    indexed = indexed[mid:]
                    continue
                for pos, (i, _) in enumerate(indexed):
                    res[i] = outcomes.get(pos, ("runtime-error", "no output for this literal"))
                return
            if len(indexed) == 1:
                res[indexed[0][0]] = ("compile-error", _first_error(diag))
                return
            if culprits:
                for pos, msg in culprits.items():
                    res[indexed[pos][0]] = ("compile-error", msg)
                indexed = [x for pos, x in enumerate(indexed) if pos not in culprits]
                continue
            # diagnostics cannot be attributed to a literal: bisect
            _stat(f"{self.name}:bisections")
            mid = len(indexed) // 2
            self._solve(indexed[:mid], scratch, res)
            indexed = indexed[mid:]


def _first_error(diag: str) -> str:
    for line in diag.splitlines():
        if "error" in line.lower():
            return line.strip()[:300]
    return diag.strip()[:300]


def _attribute(diag_lines: Dict[int, str], ranges: List[Tuple[int, int]]) -> Dict[int, str]:
    """Map 1-based source lines with an error to item positions."""
    culprits = {}  # type: Dict[int, str]
    if not diag_lines:
        return culprits
    for pos, (a, b) in enumerate(ranges):
        for ln in range(a, b + 1):
            if ln in diag_lines:
                culprits.setdefault(pos, diag_lines[ln])
    # an error outside every literal cannot be attributed: report nothing, so that we bisect
    covered = set()
    for a, b in ranges:
        covered.update(range(a, b + 1))
    if any(ln not in covered for ln in diag_lines):
        return {}
    return culprits


def _parse_out(stdout: str) -> Dict[int, Outcome]:
    out = {}  # type: Dict[int, Outcome]
    for line in stdout.splitlines():
        if not line:
            continue
        if "!" in line.split(":", 1)[0]:
            pos_s, msg = line.split("!", 1)
            out[int(pos_s)] = ("runtime-error", msg)
            continue
        pos_s, rest = line.split(":", 1)
        out[int(pos_s)] = ("ok", [int(x, 16) for x in rest.split()])
    return out


class Cpp(External):
    name = "cpp"

    def available(self) -> Optional[str]:
        return None if shutil.which("g++") else "g++ not found"

    def run(self, items: Sequence[Item], d: pathlib.Path) -> Tuple[Optional[Dict[int, Outcome]], Dict[int, str], str]:
        head = [
            "#include <cstdio>", "#include <cstdint>", "#include <cstddef>", "#include <vector>", "#include <string>",
            "static void pw(int i, const wchar_t* p, std::size_t n){ std::printf(\"%d:\", i); "
            "for(std::size_t k=0;k<n;k++) std::printf(\" %lx\", (unsigned long)(std::uint32_t)p[k]); std::printf(\"\\n\"); }",
            "static void pc(int i, const char* p, std::size_t n){ std::printf(\"%d:\", i); "
            "for(std::size_t k=0;k<n;k++) std::printf(\" %x\", (unsigned)(unsigned char)p[k]); std::printf(\"\\n\"); }",
            "static void pb(int i, const std::vector<std::uint8_t>& v){ std::printf(\"%d:\", i); "
            "for(std::size_t k=0;k<v.size();k++) std::printf(\" %x\", (unsigned)v[k]); std::printf(\"\\n\"); }",
        ]
        lines = list(head)
        ranges = []  # type: List[Tuple[int, int]]
        calls = []
        for pos, it in enumerate(items):
            a = len(lines) + 1
            if it.target == "cpp:string_literal":
                lines.extend(f"static const char X{pos}[] = {it.literal};".split("\n"))
                calls.append(f"  pc({pos}, X{pos}, sizeof(X{pos}) / sizeof(char) - 1);")
            elif it.kind == "s":
                lines.extend(f"static const wchar_t X{pos}[] = {it.literal};".split("\n"))
                calls.append(f"  pw({pos}, X{pos}, sizeof(X{pos}) / sizeof(wchar_t) - 1);")
            elif it.kind == "c":
                lines.extend(f"static const wchar_t X{pos} = {it.literal};".split("\n"))
                calls.append(f"  pw({pos}, &X{pos}, 1);")
            else:
                lines.extend(f"static const std::vector<std::uint8_t> X{pos} = {it.literal};".split("\n"))
                calls.append(f"  pb({pos}, X{pos});")
            ranges.append((a, len(lines)))
        lines.append("int main(){")
        lines.extend(calls)
        lines.append("  return 0;")
        lines.append("}")
        src = d / "lits.cpp"
        src.write_bytes(("\n".join(lines) + "\n").encode("utf-8", "surrogatepass"))
        exe = d / "lits"
        r = subprocess.run(
            ["g++", "-std=c++17", "-O0", "-w", "-fmax-errors=0", "-fno-diagnostics-show-caret",
             "-fdiagnostics-color=never", "-o", str(exe), str(src)],
            capture_output=True, cwd=str(d),
        )
        if r.returncode != 0:
            diag = r.stderr.decode("utf-8", "replace")
            by_line = {}  # type: Dict[int, str]
            for m in re.finditer(r"lits\.cpp:(\d+):(?:\d+:)? (?:fatal )?error: ([^\n]*)", diag):
                by_line.setdefault(int(m.group(1)), "g++: " + m.group(2).strip()[:200])
            return None, _attribute(by_line, ranges), diag
        r = subprocess.run([str(exe)], capture_output=True, cwd=str(d))
        if r.returncode != 0:
            raise runner.HarnessError(f"C++ driver crashed: rc={r.returncode} {r.stderr[-300:]!r}")
        return _parse_out(r.stdout.decode("ascii")), {}, ""


class Java(External):
    name = "java"
    PER_METHOD = 300
    PER_CLASS = 3000

    def available(self) -> Optional[str]:
        if not shutil.which("javac") or not shutil.which("java"):
            return "javac/java not found"
        return None

    def run(self, items: Sequence[Item], d: pathlib.Path) -> Tuple[Optional[Dict[int, Outcome]], Dict[int, str], str]:
        lines = [
            "public class Lits {",
            "  static final StringBuilder B = new StringBuilder();",
            "  static void p(int i, String s){ B.append(i).append(':'); for(int k=0;k<s.length();k++){ "
            "B.append(' ').append(Integer.toHexString(s.charAt(k))); } B.append('\\n'); }",
        ]
        ranges = []  # type: List[Tuple[int, int]]
        calls = []
        n = len(items)
        for c0 in range(0, max(n, 1), self.PER_CLASS):
            cname = f"K{c0}"
            lines.append(f"  static class {cname} {{")
            for m0 in range(c0, min(n, c0 + self.PER_CLASS), self.PER_METHOD):
                lines.append(f"    static void m{m0}() {{")
                for pos in range(m0, min(n, m0 + self.PER_METHOD)):
                    a = len(lines) + 1
                    lines.extend(f"      p({pos}, {items[pos].literal});".split("\n"))
                    ranges.append((a, len(lines)))
                lines.append("    }")
                calls.append(f"    {cname}.m{m0}();")
            lines.append("  }")
        lines.append("  public static void main(String[] args) throws Exception {")
        lines.extend(calls)
        lines.append("    System.out.write(B.toString().getBytes(\"US-ASCII\")); System.out.flush();")
        lines.append("  }")
        lines.append("}")
        src = d / "Lits.java"
        src.write_bytes(("\n".join(lines) + "\n").encode("utf-8", "surrogatepass"))
        r = subprocess.run(
            ["javac", "-encoding", "UTF-8", "-Xmaxerrs", "1000000", "-nowarn", "-proc:none",
             "-J-XX:TieredStopAtLevel=1", "-J-Xshare:auto", "-d", str(d / "out"), str(src)],
            capture_output=True, cwd=str(d),
        )
        if r.returncode != 0:
            diag = r.stderr.decode("utf-8", "replace")
            by_line = {}  # type: Dict[int, str]
            for m in re.finditer(r"Lits\.java:(\d+): error: ([^\n]*)", diag):
                by_line.setdefault(int(m.group(1)), "javac: " + m.group(2).strip()[:200])
            return None, _attribute(by_line, ranges), diag
        r = subprocess.run(
            ["java", "-XX:TieredStopAtLevel=1", "-Xshare:auto", "-cp", str(d / "out"), "Lits"],
            capture_output=True, cwd=str(d),
        )
        if r.returncode != 0:
            raise runner.HarnessError(f"Java driver crashed: rc={r.returncode} {r.stderr[-300:]!r}")
        return _parse_out(r.stdout.decode("ascii")), {}, ""


_JS_TAIL = r"""
const out = [];
for (let i = 0; i < L.length; i++) {
  if (L[i] === undefined) continue;
  let v;
  try { v = L[i]("#V#"); } catch (e) { out.push(i + "!" + (e && e.name) + ": " + String(e && e.message).replace(/\n/g, " ")); continue; }
  if (typeof v === "string") {
    const u = []; for (let k = 0; k < v.length; k++) u.push(v.charCodeAt(k).toString(16));
    out.push(i + ": " + u.join(" "));
  } else if (v instanceof Uint8Array) {
    out.push(i + ": " + Array.from(v).map((b) => b.toString(16)).join(" "));
  } else { out.push(i + "!denotes a " + typeof v); }
}
process.stdout.write(out.join("\n") + "\n");
"""

_JS_PERITEM = r"""
const fs = require("fs");
const vm = require("vm");
const items = JSON.parse(fs.readFileSync(process.argv[2], "utf8"));
const bad = {};
for (let i = 0; i < items.length; i++) {
  try { new vm.Script("(" + items[i] + ");", {filename: "item" + i + ".js"}); }
  catch (e) { bad[i] = String(e && e.name) + ": " + String(e && e.message).replace(/\n/g, " "); }
}
process.stdout.write(JSON.stringify(bad));
"""


class Node(External):
    name = "typescript"

    def __init__(self) -> None:
        self.node = None  # type: Optional[str]
        for cand in NODE_CANDIDATES:
            if os.path.exists(cand):
                self.node = cand
                break
        if self.node is None:
            self.node = shutil.which("node")

    def available(self) -> Optional[str]:
        return None if self.node else "node not found"

    def run(self, items: Sequence[Item], d: pathlib.Path) -> Tuple[Optional[Dict[int, Outcome]], Dict[int, str], str]:
        assert self.node is not None
        lines = ["'use strict';", "const L = [];"]
        fns = []
        for pos, it in enumerate(items):
            fn = f"(v0) => {it.literal}"
            fns.append(fn)
            lines.append(f"L[{pos}] = {fn};")
        src = d / "lits.js"
        src.write_bytes(("\n".join(lines) + "\n" + _JS_TAIL).encode("utf-8", "surrogatepass"))
        r = subprocess.run([self.node, str(src)], capture_output=True, cwd=str(d))
        if r.returncode == 0:
            return _parse_out(r.stdout.decode("ascii")), {}, ""
        diag = r.stderr.decode("utf-8", "replace")
        # the file was rejected: ask the same reader about every literal on its own
        (d / "items.json").write_text(json.dumps(fns, ensure_ascii=True))
        (d / "peritem.js").write_text(_JS_PERITEM)
        _stat("typescript:compiles")
        r2 = subprocess.run([self.node, str(d / "peritem.js"), str(d / "items.json")], capture_output=True, cwd=str(d))
        if r2.returncode != 0:
            return None, {}, diag
        bad = json.loads(r2.stdout.decode("utf-8"))
        return None, {int(k): "node: " + v[:200] for k, v in bad.items()}, diag


_EXTERNALS = {}  # type: Dict[str, External]


def reader(lang: str) -> Tuple[Optional[Callable[[Sequence[Item], pathlib.Path], List[Outcome]]], Optional[str]]:
    """Return (evaluate, None) or (None, reason for skipping)."""
    if lang == "python":
        return eval_python, None
    if lang == "csharp":
        return eval_csharp, None
    if lang == "golang":
        return eval_golang, None
    if lang not in _EXTERNALS:
        _EXTERNALS[lang] = {"cpp": Cpp, "java": Java, "typescript": Node}[lang]()
    ext = _EXTERNALS[lang]
    why = ext.available()
    if why is not None:
        return None, why
    return ext.evaluate, None


# ---------------------------------------------------------------------------
# Judging
# ---------------------------------------------------------------------------


def _norm(msg: str) -> str:
    """Normalise a diagnostic into a message class."""
    m = re.sub(r"U\+[0-9A-Fa-f]{4,6}", "U+XXXX", msg)
    m = re.sub(r"'[^']*'", "'..'", m)
    m = re.sub(r"\"[^\"]*\"", "\"..\"", m)
    m = re.sub(r"\\[0-9A-Za-z]", "\\\\?", m)
    m = re.sub(r"\d+", "N", m)
    m = re.sub(r"[^A-Za-z0-9+\\?.' -]+", " ", m)
    return "-".join(m.split())[:70]


def label_class(ch: str) -> str:
    """Coarse character classes used to *name* root causes."""
    c = char_class(ch)
    if c in ("c0-other", "del", "c1"):
        return "control"
    if c in ("nel-U+0085", "linesep-U+2028/9"):
        return "unicode-newline"
    if c in ("latin1-A0..FE", "U+00FF/0100"):
        return "latin1-or-U+0100"
    if c in ("bom-U+FEFF", "nonchar-U+FFFE/F"):
        return c.split("-")[0]
    return c


def _hexesc_then_digit(text: str) -> bool:
    """An input feature used only to *name* the bucket of a failure."""
    for a, b in zip(text, text[1:]):
        if b in HEXD and a not in C0_SIMPLE and (ord(a) < 32 or 0x7F <= ord(a) <= 0xFF):
            return True
    return False


def failed(it: Item, outcome: Outcome) -> bool:
    kind, payload = outcome
    return not (kind == "ok" and list(payload) == list(it.expect))


def _literal_of(target: str, text: str) -> Optional[str]:
    its, _ = make_items("s", text, None, only=target, langs=[lang_of(target)])
    return its[0].literal if its else None


def recognised(it: Item, outcome: Outcome) -> Optional[str]:
    """
    Root causes that are recognised from what the helper emits (defects seen on the pinned tree);
    this only *names* the bucket of a literal that the reader already rejected.
    """
    lang = lang_of(it.target)
    kind, payload = outcome
    text = it.value if isinstance(it.value, str) else ""
    if it.kind != "s" or "needs_escaping" in it.target:
        return None
    if lang == "cpp" and (kind == "ok" or "out of range" in str(payload)):
        # a character written as \x<hex> directly followed by a hexadecimal digit of the next character
        for a, b in zip(text, text[1:]):
            if b in HEXD and _hexesc_then_digit(a + b):
                la = _literal_of(it.target, a)
                lab = _literal_of(it.target, a + b)
                if (
                    la is not None and lab is not None
                    and re.fullmatch(r'L?"\\x[0-9a-fA-F]+"', la) and lab == la[:-1] + b + '"'
                ):
                    return "hex-escape-absorbs-following-hex-digit"
    if lang == "golang" and (kind == "ok" or "two hexadecimal digits" in str(payload)):
        for c in text:
            if ord(c) < 16 and c not in C0_SIMPLE and _literal_of(it.target, c) == '"\\x%x"' % ord(c):
                return "hex-escape-with-one-digit"
    return None


def probes_of(text: str) -> List[str]:
    """Single characters, then adjacent pairs, in order of appearance, without repetition."""
    out = []  # type: List[str]
    for c in text:
        if c not in out:
            out.append(c)
    for a, b in zip(text, text[1:]):
        if a + b not in out:
            out.append(a + b)
    return out


Evaluate = Callable[[Sequence[Item], pathlib.Path], List[Outcome]]


def diagnose(failures: Sequence[Tuple[Item, Outcome]], ev: Evaluate, scratch: pathlib.Path) -> List[str]:
    """
    Name the root-cause class of every failing literal (bucket suffix).

    A failure which is not recognised from the literal is localised by reading, with the
    same target and the same reader, the literals of every single character and of every
    adjacent pair of characters of the value: the first one that fails on its own names
    the cause (``char:<class>`` / ``pair:<class>+<class>``).
    """
    labels = [None] * len(failures)  # type: List[Optional[str]]
    probe_items = {}  # type: Dict[Tuple[str, str], Optional[Item]]
    for idx, (it, oc) in enumerate(failures):
        kind, payload = oc
        if it.kind == "b":
            labels[idx] = ("does-not-compile:" + _norm(str(payload))) if kind != "ok" else "wrong-bytes"
            continue
        if it.kind == "c":
            labels[idx] = "char:" + label_class(it.value[:1] or " ")
            continue
        r = recognised(it, oc)
        if r is not None:
            labels[idx] = r
            continue
        for p in probes_of(it.value):
            key = (it.target, p)
            if key not in probe_items:
                its, _ = make_items("s", p, None, only=it.target, langs=[lang_of(it.target)])
                probe_items[key] = its[0] if its else None
    todo = [(key, pit) for key, pit in probe_items.items() if pit is not None]
    bad = set()
    if todo:
        _stat("diagnosis-probes", len(todo))
        for (key, pit), oc in zip(todo, ev([pit for _, pit in todo], scratch)):
            if failed(pit, oc):
                bad.add(key)
    for idx, (it, oc) in enumerate(failures):
        if labels[idx] is not None:
            continue
        label = None
        for p in probes_of(it.value):
            if (it.target, p) in bad:
                if len(p) == 1:
                    label = "char:" + label_class(p)
                else:
                    label = "pair:" + label_class(p[0]) + "+" + label_class(p[1])
                break
        if label is None:
            label = "in-context:" + ("wrong-value" if oc[0] == "ok" else "does-not-compile")
        labels[idx] = label
    return [str(x) for x in labels]


def describe(it: Item, outcome: Outcome) -> str:
    kind, payload = outcome
    shown = payload if kind != "ok" else "[" + " ".join(f"{x:x}" for x in payload) + "]"
    return (
        f"target={it.target} value={it.value!r} k={it.k}\nliteral={it.literal!r}\n"
        f"expected units=[{' '.join(f'{x:x}' for x in it.expect)}]\n{kind}: {shown}"
    )


def judge_all(items: Sequence[Item], ev: Evaluate, scratch: pathlib.Path) -> List[Optional[Tuple[str, str]]]:
    """Read the literals; per item None (denotes the original value) or (bucket, message)."""
    outcomes = ev(items, scratch)
    verdicts = [None] * len(items)  # type: List[Optional[Tuple[str, str]]]
    failing = [(i, it, oc) for i, (it, oc) in enumerate(zip(items, outcomes)) if failed(it, oc)]
    if failing:
        labels = diagnose([(it, oc) for _, it, oc in failing], ev, scratch)
        for (i, it, oc), label in zip(failing, labels):
            verdicts[i] = (f"{helper_of(it.target)}:{label}", describe(it, oc))
    return verdicts


def make_items(kind: str, value: Any, k: Optional[int], only: Optional[str] = None,
               langs: Optional[Sequence[str]] = None,
               parts_only: bool = False) -> Tuple[List[Item], List[Tuple[str, str, str]]]:
    """
    Call every applicable helper. Return (items, reports) where a report is
    (target, 'error-reported' | 'not-applicable' | 'FAIL:<bucket>', message).
    """
    items = []  # type: List[Item]
    reports = []  # type: List[Tuple[str, str, str]]
    for lang, kinds in targets().items():
        if langs is not None and lang not in langs:
            continue
        for name, emit in kinds.get(kind, {}).items():
            if only is not None and name != only:
                continue
            if parts_only and "parts" not in name:
                continue
            kk = k if "parts" in name else None  # only the interpolating targets use the offset
            try:
                literal, expect, arg = emit(value, kk)
            except _NotApplicable:
                reports.append((name, "not-applicable", ""))
                continue
            except _FlagMismatch as e:
                reports.append((name, f"FAIL:{helper_of(name)}:multi-line-flag-contradicts-text", str(e)))
                continue
            except BaseException as e:  # noqa: the helper reports an error
                reports.append((name, "error-reported", f"{type(e).__name__}"))
                continue
            if not isinstance(literal, str):
                reports.append((name, f"FAIL:{helper_of(name)}:returns-{type(literal).__name__}", repr(literal)[:200]))
                continue
            items.append(Item(name, kind, value, kk, literal, expect, arg))
    return items, reports


# ---------------------------------------------------------------------------
# Shard
# ---------------------------------------------------------------------------

LANGS = ["python", "cpp", "csharp", "java", "typescript", "golang"]

_SANITY = [("s", "abc", 1), ("b", bytes(range(3)), None), ("c", "x", None)]


def shard(ctx: runner.Ctx) -> None:
    n = ctx.n(12_000, 800_000)
    batch_size = 1500 if ctx.quick else 2000
    scratch = pathlib.Path(ctx.scratch)  # type: ignore

    readers = {}  # type: Dict[str, Evaluate]
    for lang in LANGS:
        ev, why = reader(lang)
        if ev is None:
            ctx.notes[f"skipped:{lang}"] = 1
            ctx.notes[f"skipped:{lang}:reason"] = why
            continue
        readers[lang] = ev
    # sanity: the drivers themselves must work on harmless literals (else exit 2, never 1)
    by_lang = {}  # type: Dict[str, List[Item]]
    for kind, value, k in _SANITY:
        items, _ = make_items(kind, value, k, langs=list(readers))
        for it in items:
            by_lang.setdefault(lang_of(it.target), []).append(it)
    for lang, its in by_lang.items():
        for it, oc in zip(its, readers[lang](its, scratch)):
            if failed(it, oc):
                raise runner.HarnessError(f"driver sanity failed for {it.target}: {it.literal!r} -> {oc!r}")

    cases = []  # type: List[Tuple[str, Any, Optional[int]]]
    seen = set()

    def one(case: Any) -> None:
        kind = case[0]
        value = case[1]
        k = case[2] if kind == "s" else None
        if kind == "s" and k is not None and k > 12:
            k = None
        if k is not None:
            k = min(k, len(value))
        key = (kind, value, k)
        if key in seen:
            ctx.notes["duplicates"] = ctx.notes.get("duplicates", 0) + 1
            return
        seen.add(key)
        cases.append(key)

    runner.hyp_run(STRATEGY, one, n, ctx.seed)
    if ctx.shard == 0:
        # fixed corner cases
        for text in ["", "\x00", "\x1fa", "\x01" "1", "\u2028", "\x85", "${", "$", "{", "}", "\\", "'", '"',
                     "`", "\ufeff", "\uffff", "\U0010ffff", "\x7f0", "\xfe" "f", "\xff" "f", "??/", "'\"",
                     "\\u0041", "a\r\nb"]:
            for k in (None, 0, len(text)):
                if ("s", text, k) not in seen:
                    seen.add(("s", text, k))
                    cases.append(("s", text, k))
        # the domain of single characters is small: all the special ones, always
        for ch in [chr(i) for i in range(0x20)] + _special_ascii + list("0aF?") + _latin + _bmp + _astral:
            if ("c", ch, None) not in seen:
                seen.add(("c", ch, None))
                cases.append(("c", ch, None))

    first_seen = set()  # values already read by the targets that ignore the offset k
    for start in range(0, len(cases), batch_size):
        batch = cases[start:start + batch_size]
        per_lang = {}  # type: Dict[str, List[Item]]
        for kind, value, k in batch:
            nt = is_nontrivial_text(value) if kind != "b" else len(value) > 0
            again = (kind, value) in first_seen
            first_seen.add((kind, value))
            if again:
                pass  # the same text with another offset: only the interpolating targets see it again
            elif kind == "s":
                ctx.classes.update(text_classes(value))
            elif kind == "c":
                ctx.classes["wchar:" + char_class(value)] += 1
            else:
                ctx.classes[f"bytes:len={'0' if len(value) == 0 else '1-8' if len(value) <= 8 else '9-20'}"] += 1
            items, reports = make_items(kind, value, k, langs=list(readers), parts_only=again)
            jvalue = list(value) if kind == "b" else value
            for name, what, msg in reports:
                kk = k if "parts" in name else None
                if what.startswith("FAIL:"):
                    ctx.classes[name + " | VIOLATION"] += 1
                    ctx.fail(what[5:], {"target": name, "value": jvalue, "k": kk}, msg)
                elif what == "not-applicable":
                    ctx.classes[name + " | not-applicable (needs_escaping)"] += 1
                else:
                    ctx.classes[name + " | error-reported:" + msg] += 1
            # one evaluated case = one value read by one language (all helpers and modes of that language)
            by_lang = {}  # type: Dict[str, Dict[str, str]]
            for it in items:
                by_lang.setdefault(lang_of(it.target), {})[it.target] = it.literal
                per_lang.setdefault(lang_of(it.target), []).append(it)
            for name, what, msg in reports:
                if what != "not-applicable":
                    by_lang.setdefault(lang_of(name), {}).setdefault(name, "<" + what + ">")
            for lang, lits in by_lang.items():
                key = [lang, kind, jvalue, k if again or any("parts" in t for t in lits) else None]
                ctx.case(nt, key=key, sample={"language": lang, "value": jvalue, "k": key[3], "literals": lits})
        for lang in LANGS:
            its = per_lang.get(lang, [])
            if not its:
                continue
            for it, verdict in zip(its, judge_all(its, readers[lang], scratch)):
                if verdict is None:
                    ctx.classes[it.target + " | denotes-original"] += 1
                else:
                    ctx.classes[it.target + " | VIOLATION"] += 1
                    ctx.fail(verdict[0], it.case(), verdict[1])
    for k, v in STATS.items():
        ctx.notes["runs:" + k] = ctx.notes.get("runs:" + k, 0) + v
    ctx.notes["generated_cases"] = len(cases)


# ---------------------------------------------------------------------------
# Replay
# ---------------------------------------------------------------------------


def replay(case: Any) -> List[Tuple[str, str]]:
    try:
        target = case["target"]
        value = case["value"]
        k = case.get("k")
    except (TypeError, KeyError, AttributeError):
        return []
    if not isinstance(target, str) or (k is not None and (not isinstance(k, int) or isinstance(k, bool))):
        return []
    lang = lang_of(target)
    if lang not in targets():
        return []
    kind = None
    for kd, names in targets()[lang].items():
        if target in names:
            kind = kd
    if kind is None:
        return []
    if kind == "b":
        if not isinstance(value, list) or not all(isinstance(b, int) and not isinstance(b, bool) and 0 <= b <= 255
                                                  for b in value):
            return []
        value = bytes(value)
    else:
        if not isinstance(value, str) or any(0xD800 <= ord(c) <= 0xDFFF for c in value):
            return []
        if kind == "c" and len(value) != 1:
            return []
    if k is not None and k < 0:
        return []
    ev, why = reader(lang)
    if ev is None:
        return []
    items, reports = make_items(kind, value, k, only=target, langs=[lang])
    out = [(what[5:], msg) for _, what, msg in reports if what.startswith("FAIL:")]
    if items:
        scratch = pathlib.Path(os.environ.get("TMPDIR") or ".") / "c19-replay"
        scratch.mkdir(parents=True, exist_ok=True)
        for v in judge_all(items, ev, scratch):
            if v is not None:
                out.append(v)
    return out


def health(m: Any, tier: str) -> Any:
    cls = m["classes"]
    if m["nontrivial_n"] < 0.5 * m["evaluations"]:
        return f"only {m['nontrivial_n']} non-trivial of {m['evaluations']}"
    skipped = {k.split(":")[1] for k in m["notes"] if k.startswith("skipped:") and k.count(":") == 1}
    for lang, kinds in targets().items():
        if lang in skipped:
            continue
        for names in kinds.values():
            for name in names:
                if "needs_escaping" in name:
                    continue
                good = cls.get(name + " | denotes-original", 0)
                total = sum(v for c, v in cls.items() if c.startswith(name + " | "))
                if total == 0:
                    return f"target {name} was never exercised"
                floor = 0.03 if name == "cpp:string_literal" else 0.4
                if good < floor * total:
                    return f"target {name}: only {good} of {total} literals could be read back"
    for need in ["char:nul", "char:c0-other", "char:del", "char:nel-U+0085", "char:linesep-U+2028/9", "char:astral",
                 "char:bom-U+FEFF", "char:nonchar-U+FFFE/F", "char:U+00FF/0100", "char:backtick",
                 "char:dollar-brace", "char:question", "seq:escaped-char+hexdigit", "seq:${"]:
        floor = max(3, int(0.003 * m["notes"].get("generated_cases", 0)))
        if cls.get(need, 0) < floor:
            return f"class {need} has only {cls.get(need, 0)} cases (< {floor})"
    return None


if __name__ == "__main__":
    runner.main(sys.modules[__name__])
