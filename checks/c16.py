"""C16 — Regex front end is total and faithful."""
from __future__ import annotations

import json
import os
import pathlib
import random
import re
import subprocess
import sys
import warnings
import zlib
from typing import Any, Dict, List, Optional, Sequence, Tuple

from vlib import regen, runner

PID = "C16"
RULE = (
    "Cases: (ast) Hypothesis-drawn regex ASTs over the supported subset (unions, groups, . ^ $, "
    "sets with ranges/dashes/complement, every quantifier form greedy+lazy, literals incl. control, "
    "metacharacter, BMP, lone-surrogate and astral characters) spelled by an independent renderer "
    "that randomises equivalent spellings (raw / backslash / \\xHH / \\uXXXX / \\UXXXXXXXX, "
    "* vs {0,}, leading zeros, ...; at low rates also the Python-valid spellings '{2, 3}' and "
    "'[]a]'); (near) the same texts after 1-3 character edits over metacharacters, digits, x/u/U, "
    "braces, blanks, non-ASCII digits; (fv) the text cut into str/FormattedValue pieces as callers "
    "pass f-strings; (corner) a fixed list; thorough adds coverage-guided atheris on raw text "
    "(empty corpus + corpus of dev/test_data patterns) in sub-processes (quick: 250 seeded runs on shard 0 "
    "only). Oracle: retree.parse never raises, returns exactly one of (tree, error); an error has "
    "a cursor inside the input that render_pointer can draw; on success r=''.join(render(tree)) "
    "compiles with re, re.compile(s) must succeed too (else accepted-but-invalid), s and r agree "
    "under re.match and re.fullmatch on ~45 strings (positives sampled from the AST, one/two-edit "
    "neighbours, random strings over the pattern alphabet +-1), and dump(parse(r))==dump(tree). "
    "Non-trivial = accepted with >=1 quantifier or character set; distinct by pattern text."
)
ASSUMPTIONS = [
    "Python's re (3.12) is the reference semantics of a pattern text: meta-model authors write Python",
    "sampled strings decide language equality of s and r (match + fullmatch); not a proof of equivalence",
    "rejecting a Python-valid pattern with a positioned error is allowed (subset), only accept/raise/diverge are judged",
    "f-string mode: a FormattedValue is an atom; it is replaced by the literal U+2603 on both sides before comparing with re",
    "render_pointer is part of 'positioned error': every caller draws the position with it",
    "warnings of re (nested set, set difference) are ignored: they do not change the language in 3.12",
]

warnings.simplefilter("ignore")

_PLACEHOLDER = "☃"

# retree.parse costs ~0.4 ms per pattern character (contracts on every cursor move): keep most
# patterns short, one in eight larger
AST_OPTS = regen.Opts(astral=10, surrogates=2, complement_astral=4, overlap=3, inner_anchors=4,
                      max_depth=2, max_terms=3, max_alts=2)
AST_OPTS_LARGE = regen.Opts(astral=10, surrogates=2, complement_astral=4, overlap=3, inner_anchors=4)
AST_OPTS_ANCHORED = regen.Opts(anchored=True, astral=12, dot_star_suffix=20, max_depth=2, max_terms=3,
                               max_alts=2)
SPELLING = regen.Spelling(hex_escape=18, spaces_in_quantifier=2, raw_rbracket_first=30)

CORNERS = [
    "", "|", "()", "(", ")", "a)", "^*", "$+", "^?", "^{2}", "{", "a{", "a{2}{3}", "{3,1}", "a{3,1}",
    "a{,}", "a{,3}", "a{ 1, 2 }", "a{²}", "a{٣}", "[^\U0001F600]", "[^\\U0001F600]",
    "[^\\U00010000]", "[]", "[]a]", "[^]", "[^]a]", "}", "\\}", "\\{", "[--a]", "[a-b-c]", "[-\\-]",
    "[a\\-]", "[+--]", "[\\uFFFF-\\U00010001]", "\n(", "a\\", "\\x4", "\\u12", "\\U0001F60", "[a",
    "(?:a)", "[a-", "[a-b", "[.]", "[\\.]", "a{2,}?", "a|", "^a$*", "a**", "a??", "a???", "\\U00110000", "\\U00000041",
    "a{99999999999}", "[z-a]", "[\\x41-\\x5a]", "\\#", "\\|", "[|]", "a{1}", "a{0}", "a{0,0}", "(|)",
    "[\\^a]", "[a^]", "[^^]", "[\\]]", "[[]", "[[:alpha:]]", "[a&&b]", "\\d", "[\\d]", "\\1", "\\b",
]

# ---------------------------------------------------------------------------
# helpers
# ---------------------------------------------------------------------------


def xbucket(exc: BaseException) -> str:
    """Exception bucket; icontract violations are told apart by the violated contract."""
    b = runner.exc_bucket(exc)
    if type(exc).__name__ == "ViolationError":
        lines = str(exc).splitlines()
        where = lines[0].rsplit(" in ", 1)[-1].rstrip(":") if lines else ""
        what = lines[1] if len(lines) > 1 else ""
        slug = re.sub(r"[^A-Za-z0-9]+", "-", f"{where} {what}").strip("-")[:48]
        b = f"{b}:{slug}"
    return b


def _fv() -> Any:
    import ast as pyast

    from aas_core_codegen.common import Identifier
    from aas_core_codegen.parse import tree

    node = pyast.parse("x", mode="eval").body
    return tree.FormattedValue(
        value=tree.Name(identifier=Identifier("x"), original_node=node), original_node=node
    )


def _tree_info(regex: Any) -> Dict[str, int]:
    """Count constructs of the returned tree (reads the documented attributes only)."""
    info = {"quantifier": 0, "set": 0, "empty_set": 0, "fv": 0, "astral": 0, "caret_range_first": 0}
    stack = [regex]
    while stack:
        n = stack.pop()
        name = type(n).__name__
        if name == "Regex":
            stack.append(n.union)
        elif name == "UnionExpr":
            stack.extend(n.uniates)
        elif name == "Concatenation":
            stack.extend(n.concatenants)
        elif name == "Term":
            if n.quantifier is not None:
                info["quantifier"] += 1
            stack.append(n.value)
        elif name == "Group":
            stack.append(n.union)
        elif name == "CharSet":
            info["set"] += 1
            if len(n.ranges) == 0:
                info["empty_set"] += 1
            elif (
                not n.complementing
                and n.ranges[0].end is not None
                and n.ranges[0].start.character == "^"
                and not n.ranges[0].start.explicitly_encoded
            ):
                info["caret_range_first"] += 1
            for r in n.ranges:
                if ord(r.start.character) >= 0x10000 or (
                    r.end is not None and ord(r.end.character) >= 0x10000
                ):
                    info["astral"] += 1
        elif name == "Char":
            if ord(n.character) >= 0x10000:
                info["astral"] += 1
        elif name == "FormattedValue":
            info["fv"] += 1
    return info


_SPACED_QUANT = re.compile(r"\{(?=[^{}]*[ \t])[ \t0-9,]*\}")
_BRACES = re.compile(r"\{([^{}]*)\}")


def _has_non_ascii_digit_quantifier(s: str) -> bool:
    for m in _BRACES.finditer(s):
        if any(ord(c) > 127 and c.isdigit() for c in m.group(1)):
            return True
    return False


def _try_compile(p: str) -> Tuple[Optional[Any], str]:
    try:
        return re.compile(p), ""
    except re.error as e:
        return None, str(e)
    except (OverflowError, RecursionError) as e:
        return None, f"{type(e).__name__}: {e}"


def _agree(ps: Any, pr: Any, strings: Sequence[str]) -> Optional[str]:
    for t in strings:
        a = (ps.match(t) is not None, ps.fullmatch(t) is not None)
        b = (pr.match(t) is not None, pr.fullmatch(t) is not None)
        if a != b:
            return f"on {t!r}: original (match, fullmatch)={a}, re-rendered={b}"
    return None


def generic_strings(s: str, rnd: random.Random, n: int = 24) -> List[str]:
    """Strings for a pattern text without an AST: pieces and neighbours of its own characters."""
    chars = [c for c in s if c not in "\\()[]{}|*+?^$"] or ["a"]
    alpha = sorted({c for c in chars} | {chr(min(0x10FFFF, ord(c) + 1)) for c in chars}
                   | {chr(max(0, ord(c) - 1)) for c in chars} | {"a", "0", " ", "{", "}", "1", ","})
    out = ["", s]
    for _ in range(n):
        k = rnd.choice([1, 1, 2, 3, 4, 6])
        out.append("".join(rnd.choice(alpha) for _ in range(k)))
    for _ in range(6):
        i = rnd.randrange(len(s) + 1)
        j = rnd.randrange(i, len(s) + 1)
        out.append(s[i:j])
    seen = set()
    res = []
    for t in out:
        if t not in seen:
            seen.add(t)
            res.append(t)
    return res


# ---------------------------------------------------------------------------
# the oracle
# ---------------------------------------------------------------------------


def evaluate(pieces: Sequence[Any], strings: Sequence[str]) -> Tuple[List[Tuple[str, str]], Dict[str, Any]]:
    """
    Judge one input. ``pieces`` is a list of ``str`` and ``None`` (= a formatted value).

    Returns (failures, info).
    """
    from aas_core_codegen.parse import retree

    fails = []  # type: List[Tuple[str, str]]
    info = {"outcome": "raised"}  # type: Dict[str, Any]
    fv_mode = any(p is None for p in pieces)
    # buckets name the root-cause class where it is recognisable from the input/tree, whatever the
    # symptom (invalid rendering, different language, different tree) and whatever the input mode
    pre = ""
    values = [_fv() if p is None else p for p in pieces]
    s = "".join(_PLACEHOLDER if p is None else p for p in pieces)
    shown = repr(s) if not fv_mode else repr([("<fv>" if p is None else p) for p in pieces])

    try:
        tree, err = retree.parse(values)
    except BaseException as e:  # noqa: totality is the property
        # keyed by the raising site only: the same root cause whether or not pieces are formatted values
        fails.append((f"raises-{xbucket(e)}", f"retree.parse({shown}) raised:\n{runner.exc_text(e)}"))
        return fails, info

    if (tree is None) == (err is None):
        fails.append((f"{pre}not-exactly-one-of-tree-and-error", f"{shown} -> ({tree!r}, {err!r})"))
        return fails, info

    if err is not None:
        info["outcome"] = "error"
        try:
            cur = err.cursor
            problems = []
            if not isinstance(err.message, str) or not err.message.strip():
                problems.append(f"message={err.message!r}")
            if cur.values is not values and list(cur.values) != list(values):
                problems.append("cursor is over other values")
            major = cur.major_cursor
            if not (isinstance(major, int) and 0 <= major <= len(values)):
                problems.append(f"major_cursor={major!r}")
            else:
                pv = values[major] if major < len(values) else None
                minor = cur.minor_cursor
                if isinstance(pv, str):
                    if not (isinstance(minor, int) and 0 <= minor <= len(pv)):
                        problems.append(f"minor_cursor={minor!r} for piece of length {len(pv)}")
                elif minor is not None:
                    problems.append(f"minor_cursor={minor!r} without a string piece")
            if problems:
                fails.append((f"{pre}error-cursor-outside-input", f"{shown}: {'; '.join(problems)}"))
        except BaseException as e:  # noqa
            fails.append((f"{pre}error-cursor-raises-{xbucket(e)}", f"{shown}\n{runner.exc_text(e)}"))
        if len(values) > 0:
            try:
                regex_line, pointer_line = retree.render_pointer(err.cursor)
                # line breaks may be shown escaped in the rendered line (they cannot be drawn verbatim)
                plain = re.search("[\n\f\v\r]", s) is None
                if not pointer_line.endswith("^") or (
                    not fv_mode and plain and (regex_line != s or len(pointer_line) > len(s) + 1)
                ):
                    fails.append((f"{pre}error-pointer-misdrawn",
                                  f"{shown}: regex_line={regex_line!r} pointer_line={pointer_line!r}"))
            except BaseException as e:  # noqa
                b = "render_pointer-raises-" + xbucket(e)
                if type(e).__name__ == "ViolationError" and re.search("[\n\f\v\r]", s):
                    b = "render_pointer-raises-on-line-break-before-error-position"
                fails.append((b,
                              f"render_pointer of the error of {shown} ({err.message!r}) raised:\n"
                              f"{runner.exc_text(e)}"))
        return fails, info

    info["outcome"] = "accepted"
    tinfo = _tree_info(tree)
    info.update(tinfo)
    try:
        dumped = retree.dump(tree)
        rendered = retree.render(tree)
    except BaseException as e:  # noqa
        fails.append((f"{pre}render-raises-{xbucket(e)}", f"{shown}\n{runner.exc_text(e)}"))
        return fails, info
    if not all(isinstance(p, str) or type(p).__name__ == "FormattedValue" for p in rendered) or (
        not fv_mode and not all(isinstance(p, str) for p in rendered)
    ):
        fails.append((f"{pre}render-bad-parts", f"{shown} -> {rendered!r}"))
        return fails, info
    r = "".join(p if isinstance(p, str) else _PLACEHOLDER for p in rendered)
    info["r"] = r

    # (c) the rendering parses back to the same tree
    try:
        tree2, err2 = retree.parse(list(rendered) if fv_mode else [r])
    except BaseException as e:  # noqa
        fails.append((f"reparse-raises-{xbucket(e)}", f"{shown} -> {r!r}\n{runner.exc_text(e)}"))
        return fails, info
    roundtrip_ok = err2 is None and retree.dump(tree2) == dumped

    # root-cause class, where it is recognisable from the tree
    cls = None  # type: Optional[str]
    if tinfo["empty_set"]:
        cls = "empty-char-set-accepted"
    elif tinfo["caret_range_first"] and not roundtrip_ok:
        cls = "caret-range-first-in-set-rendered-without-end"

    if err2 is not None:
        c = cls or ("rendered-escaped-brace-rejected-by-parser" if ("\\}" in r or "\\{" in r)
                    else "rerender-not-reparsable:other")
        fails.append((c, f"rerender-not-reparsable: {shown} is rendered as {r!r}, which retree "
                         f"rejects: {err2.message}"))
    elif not roundtrip_ok:
        c = cls or "rerender-tree-differs:other"
        fails.append((c, f"rerender-tree-differs: {shown} -> {r!r}\n--- tree\n{dumped}\n"
                         f"--- re-parsed\n{retree.dump(tree2)}"))

    # (a), (b): both texts are valid for re and denote the same language
    ps, s_err = _try_compile(s)
    pr, r_err = _try_compile(r)
    info["s_compiles"] = ps is not None
    if ps is None:
        c = cls or ("repetition-number-beyond-re-limit" if "too large" in s_err
                    else "accepted-but-invalid:other")
        fails.append((c, f"accepted-but-invalid: retree accepts {shown} but re.compile rejects it: "
                         f"{s_err}; rendered: {r!r}"))
    elif pr is None:
        c = cls or ("repetition-number-beyond-re-limit" if "too large" in r_err
                    else "rendered-pattern-invalid:other")
        fails.append((c, f"rendered-pattern-invalid: {shown} is rendered as {r!r}, which re.compile "
                         f"rejects: {r_err}"))
    else:
        finished, diff = regen.cpu_limited(lambda: _agree(ps, pr, strings))
        if not finished:
            info["re_budget_exceeded"] = True
        if diff is not None:
            if cls:
                c = cls
            elif _SPACED_QUANT.search(s):
                c = "quantifier-with-blanks-read-as-quantifier"
            elif _has_non_ascii_digit_quantifier(s):
                c = "non-ascii-digit-read-as-quantifier-bound"
            else:
                c = "lang-differs:other"
            fails.append((c, f"lang-differs: {shown} re-rendered as {r!r} differs {diff}"))
    return fails, info


# ---------------------------------------------------------------------------
# exploration
# ---------------------------------------------------------------------------


def _case_json(pieces: Sequence[Any], strings: Sequence[str]) -> Dict[str, Any]:
    return {
        "pieces": [None if p is None else regen.enc(p) for p in pieces],
        "strings": [regen.enc(t) for t in strings],
    }


def _record(ctx: runner.Ctx, gen: str, pieces: Sequence[Any], strings: Sequence[str],
            extra: Sequence[str] = ()) -> Dict[str, Any]:
    fails, info = evaluate(pieces, strings)
    classes = [f"gen:{gen}", f"outcome:{info['outcome']}"] + list(extra)
    nt = info["outcome"] == "accepted" and (info["quantifier"] > 0 or info["set"] > 0)
    if info["outcome"] == "accepted":
        classes.append("re.compile(s):" + ("ok" if info.get("s_compiles") else "fails"))
        if info["astral"]:
            classes.append("accepted:astral")
    if info.get("re_budget_exceeded"):
        ctx.exclude("language comparison skipped: re backtracking exceeded the CPU allowance")
    shown = [("<fv>" if p is None else p) for p in pieces]
    ctx.case(nt, key=_case_json(pieces, [])["pieces"],
             sample={"pattern": shown[0] if len(shown) == 1 else shown, "rendered": info.get("r"),
                     "strings": len(strings)},
             classes=classes)
    if fails:
        # keep the replay small: the strings matter only for language differences
        keep = list(strings) if any(m.startswith("lang-differs") for _, m in fails) else []
        case = _case_json(pieces, keep)
        for b, m in fails:
            ctx.fail(b, case, m)
    return info


def shard(ctx: runner.Ctx) -> None:
    regen.with_roomy_stack(lambda: _shard(ctx))


def _shard(ctx: runner.Ctx) -> None:
    from hypothesis import strategies as st

    n = ctx.n(10_000, 600_000)
    if ctx.quick and ctx.shard == 0:
        n //= 3  # shard 0 also runs the corner cases and the atheris smoke stage
    pos_total = [0, 0]

    strategy = st.tuples(
        st.integers(0, 99),
        st.one_of(*([regen.cases(AST_OPTS)] * 5 + [regen.cases(AST_OPTS_ANCHORED)] * 2
                    + [regen.cases(AST_OPTS_LARGE)])),
    )

    def one(case: Any) -> None:
        mode, (ast, seed) = case
        rnd = random.Random(seed)
        s = regen.render(ast, rnd, SPELLING)
        strings, n_pos = regen.strings(ast, rnd, n_pos=12, n_neigh=20, n_rand=10)
        feats = sorted(regen.features(ast))
        extra = [f"ast:{f}" for f in feats if not f.startswith("astral-range")]
        if mode < 38:
            info = _record(ctx, "ast", [s], strings, extra)
            if info.get("s_compiles"):
                p = re.compile(s)
                ok, hits = regen.cpu_limited(
                    lambda: sum(1 for t in strings[:n_pos] if p.fullmatch(t) or p.match(t)))
                if ok:
                    pos_total[0] += n_pos
                    pos_total[1] += hits
        elif mode < 90:
            t = regen.mutate_text(s, rnd)
            strings = strings + generic_strings(t, rnd, 8)
            _record(ctx, "near-miss", [t], strings)
        else:
            t = s if rnd.random() < 0.6 else regen.mutate_text(s, rnd, 1)
            k = rnd.choice([1, 1, 2, 3])
            cuts = sorted(rnd.randrange(len(t) + 1) for _ in range(k))
            pieces = []  # type: List[Any]
            prev = 0
            for c in cuts:
                if t[prev:c]:
                    pieces.append(t[prev:c])
                pieces.append(None)
                prev = c
            if t[prev:]:
                pieces.append(t[prev:])
            strings = strings + [x + _PLACEHOLDER for x in strings[:6]] + [_PLACEHOLDER, _PLACEHOLDER * 2]
            _record(ctx, "fv", pieces, strings)

    runner.hyp_run(strategy, one, n, ctx.seed)
    import time

    ctx.notes["cpu_s_exploration"] = round(time.process_time(), 1)
    ctx.notes["positives_sampled"] = pos_total[0]
    ctx.notes["positives_matching"] = pos_total[1]

    if ctx.shard == 0:
        rnd = random.Random(ctx.seed)
        for s in CORNERS:
            _record(ctx, "corner", [s], generic_strings(s, rnd))
        for pieces in (["[a", None, "b]"], [None], [None, "*"], ["a{", None, "}"], ["\\x", None],
                       ["(", None, ")+"], [None, None], ["^", None, "$"]):
            _record(ctx, "corner-fv", pieces, ["", "a", _PLACEHOLDER, _PLACEHOLDER * 2, "a" + _PLACEHOLDER + "b"])

    # coverage-guided stage
    runs = 0
    if ctx.tier == "thorough":
        runs = ctx.n(0, 640_000)
    elif ctx.shard == 0:
        runs = 250
    if runs > 0:
        _atheris_stage(ctx, runs)


# ---------------------------------------------------------------------------
# atheris (coverage-guided) stage: child process, results come back as JSON lines
# ---------------------------------------------------------------------------


def _seed_corpus() -> List[str]:
    """Patterns of dev/test_data: recorded revm/retree cases and the aas-core-meta v3 model."""
    import ast as pyast

    out = []  # type: List[str]
    base = runner.REPO / "dev" / "test_data"
    for p in sorted((base / "intermediate_revm").glob("**/pattern.regex")):
        out.append(p.read_text(encoding="utf-8"))
    for p in sorted((base / "parse_retree").glob("**/source.py")):
        try:
            v = pyast.literal_eval(p.read_text(encoding="utf-8").strip())
            if isinstance(v, str):
                out.append(v)
        except Exception:  # noqa: f-strings are not literals
            pass
    model = base / "common_meta_models" / "aas_core_meta.v3.py"
    if model.exists():
        try:
            mod = pyast.parse(model.read_text(encoding="utf-8"))
            for fn in mod.body:
                if isinstance(fn, pyast.FunctionDef) and any(
                    isinstance(d, pyast.Name) and d.id == "verification" for d in fn.decorator_list
                ):
                    captured = []  # type: List[str]
                    ns = {"match": lambda p, t: captured.append(p)}  # type: Dict[str, Any]
                    fn.decorator_list = []
                    fn.returns = None
                    for a in fn.args.args:
                        a.annotation = None
                    code = compile(pyast.fix_missing_locations(pyast.Module([fn], [])), "<v3>", "exec")
                    try:
                        exec(code, ns)  # noqa: the pinned test fixture, pattern functions only
                        ns[fn.name]("")
                    except Exception:  # noqa
                        pass
                    out.extend(p for p in captured if isinstance(p, str) and len(p) <= 400)
        except Exception:  # noqa
            pass
    seen = set()
    res = []
    for s in out:
        if s not in seen:
            seen.add(s)
            res.append(s)
    return res


def _atheris_stage(ctx: runner.Ctx, runs: int) -> None:
    deps = runner.VERIF / ".deps"
    if not (deps / "atheris").exists():
        ctx.notes["atheris_skipped_not_installed"] = 1
        return
    total = 0
    campaigns = (("empty", False), ("seeded", True)) if ctx.tier == "thorough" else (("seeded", True),)
    per = max(50, runs // len(campaigns))
    for tag, seeded in campaigns:
        work = pathlib.Path(ctx.scratch) / f"atheris-{tag}"  # type: ignore
        corpus = work / "corpus"
        corpus.mkdir(parents=True, exist_ok=True)
        if seeded:
            for i, s in enumerate(_seed_corpus()):
                (corpus / f"seed{i:03d}").write_bytes(s.encode("utf-8", "surrogatepass"))
        out = work / "findings.jsonl"
        env = dict(os.environ)
        env["PYTHONPATH"] = os.pathsep.join([str(deps), str(runner.VERIF), str(runner.REPO)])
        env["PYTHONHASHSEED"] = "0"
        # NOTE: the child is started with -c (not -m): as __main__ the same code ran 10x slower
        # under libFuzzer (measured), for reasons that were not worth chasing
        cmd = [sys.executable, "-c",
               "import checks.c16 as m; m._atheris_child(%r)" % str(out), str(corpus), f"-runs={per}",
               f"-seed={ctx.seed + (1 if seeded else 0) * 7919 + 1}", "-max_len=48", "-timeout=60",
               "-rss_limit_mb=4096", f"-artifact_prefix={work}/", "-print_final_stats=1"]
        try:
            proc = subprocess.run(cmd, cwd=str(runner.VERIF), env=env, stdout=subprocess.PIPE,
                                  stderr=subprocess.STDOUT, text=True, errors="replace")
        except OSError as e:
            ctx.notes["atheris_skipped_oserror"] = 1
            ctx.notes.setdefault("atheris_message", str(e))
            return
        tail = proc.stdout[-3000:]
        m = re.search(r"stat::number_of_executed_units:\s*(\d+)", proc.stdout)
        done = int(m.group(1)) if m else 0
        total += done
        if done == 0 and "No module named" in proc.stdout:
            ctx.notes["atheris_skipped_import_error"] = 1
            return
        n_inputs = 0
        if out.exists():
            for line in out.read_text(encoding="utf-8").splitlines():
                try:
                    rec = json.loads(line)
                except ValueError:
                    continue
                if rec.get("kind") == "stats":
                    for k, v in rec["classes"].items():
                        ctx.classes[k] += v
                    n_inputs += rec.get("inputs", 0)
                    ctx.evaluations += rec.get("inputs", 0)
                    for h in rec.get("nontrivial", []):
                        ctx.nontrivial.add(h)
                else:
                    ctx.fail(rec["bucket"], rec["case"], rec["message"])
        if proc.returncode != 0 and done < per - 1:
            # libFuzzer itself stopped (crash of the interpreter, timeout, oom): a finding of its own
            ctx.fail(f"atheris-campaign-aborted:{tag}", {"pieces": [], "strings": []},
                     f"exit {proc.returncode} after {done} runs\n{tail}")
    ctx.notes["atheris_runs"] = total


def _atheris_child(out_path: str) -> None:
    import atheris  # type: ignore

    with atheris.instrument_imports(include=["aas_core_codegen.parse.retree"]):
        from aas_core_codegen.parse import retree  # noqa: instrumented for coverage feedback
    del retree
    stats = {"inputs": 0, "classes": {}, "nontrivial": set()}  # type: Dict[str, Any]
    seen_buckets = {}  # type: Dict[str, int]
    fh = open(out_path, "a", encoding="utf-8")

    def one_input(data: bytes) -> None:
        s = data.decode("utf-8", "ignore")
        rnd = random.Random(zlib.crc32(data))
        strings = generic_strings(s, rnd, 14)
        fails, info = evaluate([s], strings)
        stats["inputs"] += 1
        for c in ("gen:atheris", f"outcome:{info['outcome']}"):
            stats["classes"][c] = stats["classes"].get(c, 0) + 1
        if info["outcome"] == "accepted" and (info["quantifier"] or info["set"]):
            stats["nontrivial"].add(runner.jhash([regen.enc(s)]))
        if stats["inputs"] >= 25:
            # libFuzzer leaves with _exit(): no atexit, so the counters are written as deltas
            fh.write(json.dumps({"kind": "stats", "inputs": stats["inputs"], "classes": stats["classes"],
                                 "nontrivial": sorted(stats["nontrivial"])}) + "\n")
            fh.flush()
            stats["inputs"], stats["classes"], stats["nontrivial"] = 0, {}, set()
        for b, m in fails:
            size = len(s)
            if b not in seen_buckets or size < seen_buckets[b]:
                seen_buckets[b] = size
                keep = strings if m.startswith("lang-differs") else []
                fh.write(json.dumps({"bucket": b, "case": _case_json([s], keep), "message": m[:3000]}) + "\n")
                fh.flush()

    atheris.Setup(sys.argv, one_input)
    regen.with_roomy_stack(atheris.Fuzz)


# ---------------------------------------------------------------------------
# replay / health
# ---------------------------------------------------------------------------


def replay(case: Any) -> List[Tuple[str, str]]:
    try:
        pieces = [None if p is None else regen.dec(p) for p in case["pieces"]]
        strings = [regen.dec(t) for t in case.get("strings", [])]
    except (KeyError, TypeError, ValueError):
        return []
    # callers never pass two adjacent strings (documented precondition of the cursor)
    merged = []  # type: List[Any]
    for p in pieces:
        if p == "":
            continue
        if merged and isinstance(p, str) and isinstance(merged[-1], str):
            merged[-1] += p
        else:
            merged.append(p)
    if not merged:
        merged = [""]
    if not strings:
        s = "".join(_PLACEHOLDER if p is None else p for p in merged)
        strings = generic_strings(s, random.Random(0))
    return evaluate(merged, strings)[0]


def shrink(case: Any, bucket: str, budget: float) -> Any:
    """Structural shrinking, capped: the smallest case per bucket is already kept while exploring."""
    from vlib.shrink import jshrink

    return jshrink(case, lambda c: any(b == bucket for b, _ in replay(c)), min(budget, 5.0))


def health(m: Any, tier: str) -> Any:
    c = m["classes"]
    total = max(1, m["evaluations"])
    acc = c.get("outcome:accepted", 0) / total
    rej = c.get("outcome:error", 0) / total
    if acc < 0.2 or rej < 0.2:
        return f"accepted {acc:.0%} / rejected-with-error {rej:.0%}: both classes must be >= 20%"
    ps, pm = m["notes"].get("positives_sampled", 0), m["notes"].get("positives_matching", 0)
    if ps and pm < 0.8 * ps:
        return f"only {pm} of {ps} strings sampled from the AST match the rendered pattern"
    return None


if __name__ == "__main__":
    runner.main(sys.modules[__name__])
