"""C11 — JSON Schema is valid and never rejects valid data."""
from __future__ import annotations

import json
import shutil
import sys
from typing import Any, Dict, List, Optional, Tuple

from hypothesis import strategies as st

from vlib import mmgen, refmodel, runner, schemakit, sdk, sut

PID = "C11"
RULE = (
    "Hypothesis: accepted meta-models rich in recognised constraints (vlib.schemainv: length bounds on str/bytes/lists, "
    "one or two patterns per value incl. an astral range, constrained primitives as property and list item, inherited and "
    "tightened constraints, diamonds, abstract property types) -> jsonschema target + Python SDK. Instances are drawn "
    "constraint-aware (lengths at the bounds, strings from the pattern languages) and kept only if the reference "
    "evaluator (original lambdas) finds no violated invariant; discarded ones are counted. Oracle: (1) "
    "Draft201909Validator.check_schema passes; (2) every $ref resolves; (3) json.loads(json.dumps(to_jsonable(x))) "
    "validates against #/definitions/<ModelType> and against #/definitions/<Ancestor>_choice of every ancestor that has "
    "one, under a validator whose 'pattern' is evaluated on the UTF-16 code units. Non-trivial = document exercising >= 1 "
    "translated constraint at its boundary (length == bound) or a pattern-constrained string; distinct by (model, instance)."
)
ASSUMPTIONS = [
    "patterns of the schema are meant for UTF-16 engines: evaluated with Python re on the code-unit sequence",
    "minLength/maxLength count code points (JSON Schema specification)",
    "models on which the jsonschema or python target crashes/reports are counted and skipped (C02)",
]

N_INST_QUICK = 12
N_INST_THOROUGH = 40


def opts() -> mmgen.Opts:
    return mmgen.Opts(max_classes=5, max_props=3, max_cps=4, invariants="schema", docs="none", p_diamond=0.4,
                      class_weight=2, cp_weight=5, float_props=False, compatible_patterns=0.4, forward_bases=0.5, cp_chain=0.5)


@st.composite
def cases(draw: Any, n_inst: int) -> Dict[str, Any]:
    spec = draw(mmgen.specs(opts()))
    # classes with concrete descendants get with_model_type (what every real meta-model does; the
    # jsonschema target asserts otherwise - a C02 finding)
    for c in spec.classes:
        if spec.concrete_descendants(c.name):
            c.with_model_type = True
    ig = schemakit.SchemaInstGen(spec, max_depth=2, max_list=3)
    insts = draw(st.lists(ig.any_instance(), min_size=n_inst, max_size=n_inst))
    edits = draw(st.lists(st.tuples(st.integers(0, 10_000), st.integers(0, 10_000)), min_size=n_inst, max_size=n_inst))
    return {"spec": spec.to_json(), "instances": insts, "edits": edits}


class Prepared:
    def __init__(self) -> None:
        self.spec = None  # type: Any
        self.text = ""
        self.schema = None  # type: Any
        self.sdk = None  # type: Any
        self.rm = None  # type: Any
        self.docs = []  # type: List[Tuple[Any, Any, Any]]  # (neutral, sdk instance, json doc)
        self.discarded = 0


def prepare(case: Dict[str, Any], base: Any, ctx: Any, fails: List[Tuple[str, str]]) -> Optional[Prepared]:
    """Generate schema + SDK, keep the instances that satisfy all invariants."""
    p = Prepared()
    p.spec = mmgen.Spec.from_json(case["spec"])
    p.text = mmgen.render(p.spec)
    try:
        rc, out, err, d = sut.generate(p.text, "jsonschema", base, keep=True)
    except BaseException as e:  # noqa
        if ctx is not None:
            ctx.exclude("jsonschema-target-crash")
        return None
    try:
        if rc != 0:
            if ctx is not None:
                ctx.exclude("jsonschema-target-reported")
            return None
        p.schema = json.loads((d / "out" / "schema.json").read_text(encoding="utf-8"))
    finally:
        shutil.rmtree(d, ignore_errors=True)
    try:
        p.rm = refmodel.load(mmgen.render(p.spec, canonical=True))  # bases first: the text is executed
    except BaseException:  # noqa
        if ctx is not None:
            ctx.exclude("reference-exec-failed")
        return None
    try:
        p.sdk, why = sdk.build_py_sdk(p.text, base)
    except BaseException as e:  # noqa
        fails.append((f"sdk-import-fails:{type(e).__name__}", runner.exc_text(e)))
        return None
    if p.sdk is None:
        if ctx is not None:
            ctx.exclude("python-target-" + why.split(":")[0])
        return None
    for neutral in case["instances"]:
        ok = schemakit.satisfies_all(p.spec, p.rm, neutral)
        if not ok:
            p.discarded += 1
            if ctx is not None:
                ctx.exclude("instance-violates-an-invariant" if ok is False else "reference-evaluation-raised")
            continue
        try:
            x = sdk.to_sdk(p.spec, p.sdk, neutral)
            doc = json.loads(json.dumps(p.sdk.jsonization.to_jsonable(x)))
        except BaseException as e:  # noqa
            fails.append((f"serialization-raises:{type(e).__name__}", runner.exc_text(e)))
            continue
        p.docs.append((neutral, x, doc))
    return p


def boundary(spec: Any, prop_refs: Any, cp_refs: Any, neutral: Any) -> bool:
    """Some value sits on a length bound or is pattern-constrained."""
    cname = neutral["cls"]
    for pr in spec.all_props(cname):
        v = neutral["props"].get(pr.name)
        if v is None:
            continue
        r = prop_refs[(cname, pr.name)]
        n = None
        if isinstance(v, (str, list)):
            n = len(v)
        elif isinstance(v, dict) and "bytes" in v:
            n = len(v["bytes"])
        if n is not None and r.len:
            lo, hi = r.len_range()
            if n == lo or n == hi:
                return True
        if r.patterns and isinstance(v, str):
            return True
        core = pr.type.core
        if core.kind == "list" and core.item.kind == "cp" and not cp_refs[core.item.name].empty() and v:
            return True
        if isinstance(v, dict) and "cls" in v and boundary(spec, prop_refs, cp_refs, v):
            return True
        if isinstance(v, list):
            for x in v:
                if isinstance(x, dict) and "cls" in x and boundary(spec, prop_refs, cp_refs, x):
                    return True
    return False


def has_bytes(v: Any) -> bool:
    if isinstance(v, dict):
        if "bytes" in v:
            return True
        if "cls" in v:
            return any(has_bytes(x) for x in v["props"].values())
    if isinstance(v, list):
        return any(has_bytes(x) for x in v)
    return False


def evaluate(case: Dict[str, Any], base: Any, ctx: Any = None) -> List[Tuple[str, str]]:
    import jsonschema

    fails = []  # type: List[Tuple[str, str]]
    p = prepare(case, base, ctx, fails)
    if p is None:
        return fails
    with p.sdk:
        spec = p.spec
        try:
            jsonschema.Draft201909Validator.check_schema(p.schema)
        except jsonschema.SchemaError as e:
            kw = str(list(e.absolute_path)[-1]) if e.absolute_path else "?"
            fails.append((f"schema-invalid-against-metaschema:{kw}", f"{e.message}\npath={list(e.absolute_path)}\n{p.text[-1200:]}"))
            return fails
        missing = schemakit.check_refs(p.schema)
        if missing:
            fails.append(("unresolved-ref", f"{missing[:5]}\n{p.text[-1200:]}"))
        if p.schema.get("$schema") != "https://json-schema.org/draft/2019-09/schema":
            fails.append(("unexpected-$schema", repr(p.schema.get("$schema"))))
        cp_refs, prop_refs = schemakit.build_refs(spec)
        defs = p.schema.get("definitions", {})
        for neutral, x, doc in p.docs:
            cname = neutral["cls"]
            nt = boundary(spec, prop_refs, cp_refs, neutral)
            if ctx is not None:
                ctx.case(nt, key=[p.text, neutral], sample={"document": doc, "class": cname, "model_tail": p.text[-300:]},
                         classes=["document", "with-bytes" if has_bytes(neutral) else "no-bytes"])
            targets = [schemakit.model_type(cname)]
            for a in spec.ancestors(cname) + [cname]:
                if f"{schemakit.model_type(a)}_choice" in defs:
                    targets.append(f"{schemakit.model_type(a)}_choice")
            concrete_ok = True
            for tdef in targets:
                if not concrete_ok:
                    break  # the dispatch definitions would only repeat the same root cause
                if tdef not in defs:
                    fails.append(("definition-missing", f"{tdef} not in definitions; keys={sorted(defs)[:20]}"))
                    continue
                try:
                    v = schemakit.make_json_validator(p.schema, tdef)
                    errs = sorted(v.iter_errors(doc), key=lambda e: list(e.absolute_path))
                except BaseException as e:  # noqa
                    fails.append((f"validator-raises:{type(e).__name__}", runner.exc_text(e)))
                    continue
                if errs:
                    concrete_ok = False
                    leaf = best_leaf(errs)
                    kw = str(leaf.validator)
                    val = leaf.instance
                    suffix = ""
                    if kw in ("minLength", "maxLength") and _is_bytes_at(spec, neutral, list(leaf.absolute_path)):
                        suffix = ":bytes-bound-applied-to-base64-text"
                    fails.append((f"valid-document-rejected:{kw}{suffix}",
                                  f"definition={tdef} error={leaf.message[:300]} at {list(leaf.absolute_path)}\n"
                                  f"doc={json.dumps(doc)[:800]}\ninstance={neutral!r}\n{p.text[-1500:]}"))
    return fails


def best_leaf(errs: Any) -> Any:
    """
    The most informative leaf error. Inside ``oneOf``/``anyOf`` only the branches whose modelType matches are
    followed (a branch that fails on ``modelType`` const/enum is a non-matching alternative, its other errors
    say nothing about the document).
    """
    leaves = []  # type: List[Any]

    def is_model_type_mismatch(e: Any) -> bool:
        return list(e.absolute_path)[-1:] == ["modelType"] and e.validator in ("const", "enum")

    def branch_mismatches(group: List[Any]) -> bool:
        found = [False]

        def look(e: Any) -> None:
            if is_model_type_mismatch(e):
                found[0] = True
            for c in e.context or []:
                look(c)

        for e in group:
            look(e)
        return found[0]

    def walk(e: Any) -> None:
        if e.context:
            if e.validator in ("oneOf", "anyOf"):
                groups = {}  # type: Dict[Any, List[Any]]
                for c in e.context:
                    groups.setdefault(list(c.relative_schema_path)[0] if c.relative_schema_path else None, []).append(c)
                matching = [g for g in groups.values() if not branch_mismatches(g)]
                for g in (matching or list(groups.values())):
                    for c in g:
                        walk(c)
            else:
                for c in e.context:
                    walk(c)
        else:
            leaves.append(e)

    for e in errs:
        walk(e)
    informative = [e for e in leaves if not is_model_type_mismatch(e)]
    pool = informative or leaves
    return sorted(pool, key=lambda e: (-len(list(e.absolute_path)), str(e.validator)))[0]


def _is_bytes_at(spec: Any, neutral: Any, path: List[Any]) -> bool:
    """Is the neutral value at the JSON path a byte array?"""
    v = neutral
    for seg in path:
        if isinstance(v, dict) and "cls" in v:
            nxt = None
            for k, x in v["props"].items():
                if schemakit.json_prop(k) == seg:
                    nxt = x
            v = nxt
        elif isinstance(v, list) and isinstance(seg, int) and seg < len(v):
            v = v[seg]
        else:
            return False
    return isinstance(v, dict) and "bytes" in v


def shard(ctx: runner.Ctx) -> None:
    n = ctx.n(400, 30_000)
    n_inst = N_INST_QUICK if ctx.quick else N_INST_THOROUGH

    def one(case: Dict[str, Any]) -> None:
        ctx.classes["models"] += 1
        for b, m in evaluate(case, ctx.scratch, ctx):
            ctx.fail(b, case, m)

    runner.hyp_run(cases(n_inst), one, n, ctx.seed)


def replay(case: Any) -> List[Tuple[str, str]]:
    if not isinstance(case, dict) or "spec" not in case:
        return []
    base = runner.make_scratch("c11-replay")
    try:
        case = dict(case)
        case.setdefault("instances", [])
        case.setdefault("edits", [])
        return evaluate(case, base, None)
    except (KeyError, TypeError, AttributeError, IndexError, AssertionError, StopIteration, ValueError):
        return []
    finally:
        shutil.rmtree(base, ignore_errors=True)


def health(m: Any, tier: str) -> Any:
    models = m["classes"].get("models", 0)
    docs = m["classes"].get("document", 0)
    if models and docs < 2 * models:
        return f"only {docs} valid documents from {models} models; excluded={m['excluded']}"
    return None


if __name__ == "__main__":
    runner.main(sys.modules[__name__])
