"""Recover ``runner.exc_bucket`` (exception type + innermost aas_core_codegen frame) from traceback text."""
from __future__ import annotations

import re


def is_traceback(stderr: str) -> bool:
    return "Traceback (most recent call last)" in stderr


def bucket_of_traceback(stderr: str) -> str:
    lines = stderr.splitlines()
    frames = re.findall(r'File "[^"]*/aas_core_codegen/([^"]+)", line \d+, in (\S+)', stderr)
    last_frame = max((i for i, ln in enumerate(lines) if ln.startswith('  File "')), default=-1)
    typ = "Exception"
    for ln in lines[last_frame + 1:]:
        m = re.match(r"([A-Za-z_][\w.]*)(:|$)", ln)
        if m:  # the first unindented line after the innermost frame: "<qualified type>: message"
            typ = m.group(1).split(".")[-1]
            break
    return f"{typ}@{frames[-1][0]}:{frames[-1][1]}" if frames else f"{typ}@?"
