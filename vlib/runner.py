"""
Shared runner for all checks.

A check module defines::

    PID = "C27"
    RULE = "..."            # how cases are generated, what counts as non-trivial
    ASSUMPTIONS = [...]
    def shard(ctx): ...     # explores; uses ctx.case()/ctx.fail(); one call per shard
    def replay(case): ...   # -> list[(bucket, message)] re-executed without Hypothesis
    if __name__ == "__main__": runner.main(sys.modules[__name__])

Exit codes: 0 = held on everything explored (KNOWN-FINDING lines may be printed),
1 = VIOLATION (line printed, replay written), 2 = harness error / unhealthy generator.
"""
from __future__ import annotations

import argparse
import collections
import hashlib
import json
import multiprocessing
import os
import pathlib
import re
import shutil
import sys
import tempfile
import time
import traceback
from typing import Any, Callable, Dict, List, Optional, Sequence, Tuple

VERIF = pathlib.Path(__file__).resolve().parent.parent
REPO = pathlib.Path(os.environ.get("VERIF_REPO", "/repo"))
KNOWN_FINDINGS = VERIF / "known_findings.jsonl"

MAX_SAMPLES = 8
_SAMPLE_AT = [1, 3, 7, 15, 30, 60, 120, 240]


def jhash(obj: Any) -> str:
    """Structural hash of a JSON-able case."""
    return hashlib.sha1(
        json.dumps(obj, sort_keys=True, default=repr, ensure_ascii=True).encode()
    ).hexdigest()[:16]


class HarnessError(Exception):
    """The harness (not the code under test) is broken or unhealthy -> exit 2."""


class Ctx:
    """Per-shard context: budget, seed, counters, failures."""

    def __init__(self, pid: str, tier: str, seed: int, shard: int, nshards: int) -> None:
        self.pid = pid
        self.tier = tier
        self.base_seed = seed
        self.shard = shard
        self.nshards = nshards
        self.seed = seed * 1000 + shard
        self.evaluations = 0
        self.nontrivial = set()  # type: set
        self.classes = collections.Counter()  # type: collections.Counter
        self.excluded = collections.Counter()  # type: collections.Counter
        self.samples = []  # type: List[Any]
        self.failures = {}  # type: Dict[str, Dict[str, Any]]
        self.notes = {}  # type: Dict[str, Any]
        self.t0 = time.time()

    @property
    def quick(self) -> bool:
        return self.tier == "quick"

    def n(self, quick: int, thorough: int) -> int:
        """Cases for this shard given totals for the whole run."""
        total = quick if self.quick else thorough
        scale = float(os.environ.get("VERIF_SCALE", "1"))
        return max(1, int(total * scale) // self.nshards)

    def case(
        self,
        nontrivial: bool,
        key: Any = None,
        sample: Any = None,
        classes: Sequence[str] = (),
    ) -> None:
        """Record one evaluated case."""
        self.evaluations += 1
        for c in classes:
            self.classes[c] += 1
        if nontrivial:
            h = jhash(key if key is not None else sample)
            if h not in self.nontrivial:
                self.nontrivial.add(h)
                # spaced sampling, so that samples are not neighbours of one another
                if (
                    sample is not None
                    and len(self.samples) < MAX_SAMPLES
                    and len(self.nontrivial) >= _SAMPLE_AT[len(self.samples)]
                ):
                    self.samples.append(sample)

    def exclude(self, what: str) -> None:
        self.excluded[what] += 1

    def fail(self, bucket: str, case: Any, message: str) -> None:
        """Record a failure; keep the smallest case per bucket."""
        size = len(json.dumps(case, default=repr))
        prev = self.failures.get(bucket)
        if prev is None:
            self.failures[bucket] = {
                "case": case,
                "message": message[:4000],
                "size": size,
                "count": 1,
            }
        else:
            prev["count"] += 1
            if size < prev["size"]:
                prev.update({"case": case, "message": message[:4000], "size": size})

    def result(self) -> Dict[str, Any]:
        return {
            "shard": self.shard,
            "evaluations": self.evaluations,
            "nontrivial": sorted(self.nontrivial),
            "classes": dict(self.classes),
            "excluded": dict(self.excluded),
            "samples": self.samples,
            "failures": self.failures,
            "notes": self.notes,
            "wall_s": time.time() - self.t0,
            "cpu_s": time.process_time(),
        }


def exc_bucket(exc: BaseException, pkg: str = "aas_core_codegen") -> str:
    """Bucket = exception type + innermost frame inside the package."""
    tb = traceback.extract_tb(exc.__traceback__)
    where = "?"
    for fr in reversed(tb):
        fn = fr.filename.replace("\\", "/")
        if f"/{pkg}/" in fn:
            where = fn.split(f"/{pkg}/", 1)[1] + ":" + fr.name
            break
    return f"{type(exc).__name__}@{where}"


def exc_text(exc: BaseException) -> str:
    return "".join(traceback.format_exception(type(exc), exc, exc.__traceback__))[-3000:]


# ---------------------------------------------------------------------------
# Hypothesis drivers: collect (never stops at first failure) and shrink.
# ---------------------------------------------------------------------------


def hyp_run(strategy: Any, fn: Callable[[Any], None], n: int, seed: int) -> None:
    """Run ``fn`` over ``n`` generated cases; ``fn`` must not raise for violations."""
    import hypothesis
    from hypothesis import HealthCheck, Phase, given, settings

    @hypothesis.seed(seed)
    @settings(
        max_examples=n,
        database=None,
        deadline=None,
        derandomize=False,
        phases=[Phase.generate],
        suppress_health_check=list(HealthCheck),
        report_multiple_bugs=False,
    )
    @given(strategy)
    def test(case: Any) -> None:
        fn(case)

    test()


def hyp_shrink(
    strategy: Any,
    has_bucket: Callable[[Any], bool],
    n: int,
    seed: int,
    budget_s: float,
) -> Optional[Any]:
    """Re-find a failing case with the same seed and shrink it; return the smallest."""
    import hypothesis
    from hypothesis import HealthCheck, Phase, given, settings

    best = {"case": None, "size": None}  # type: Dict[str, Any]
    t_end = time.time() + budget_s

    class _Found(Exception):
        pass

    @hypothesis.seed(seed)
    @settings(
        max_examples=n,
        database=None,
        deadline=None,
        derandomize=False,
        phases=[Phase.generate, Phase.shrink],
        suppress_health_check=list(HealthCheck),
        report_multiple_bugs=False,
    )
    @given(strategy)
    def test(case: Any) -> None:
        if time.time() > t_end:
            return
        if has_bucket(case):
            size = len(repr(case))
            if best["size"] is None or size <= best["size"]:
                best["case"] = case
                best["size"] = size
            raise _Found()

    try:
        test()
    except BaseException:  # noqa: the outcome is in ``best``
        pass
    return best["case"]


# ---------------------------------------------------------------------------
# Scratch directory, isolated TMPDIR (the model cache is written there).
# ---------------------------------------------------------------------------


_SCRATCH_BASE = os.environ.get("VERIF_SCRATCH_BASE") or tempfile.gettempdir()


def make_scratch(tag: str) -> pathlib.Path:
    base = _SCRATCH_BASE
    p = pathlib.Path(tempfile.mkdtemp(prefix=f"verif-{tag}-", dir=base))
    return p


def isolate_tmp(scratch: pathlib.Path) -> None:
    t = scratch / "tmp"
    t.mkdir(parents=True, exist_ok=True)
    os.environ["TMPDIR"] = str(t)
    tempfile.tempdir = str(t)


# ---------------------------------------------------------------------------
# Known findings
# ---------------------------------------------------------------------------


def load_known(pid: str) -> List[Dict[str, Any]]:
    out = []
    if KNOWN_FINDINGS.exists():
        for line in KNOWN_FINDINGS.read_text().splitlines():
            line = line.strip()
            if not line or line.startswith("#") or line.startswith("fixed:"):
                # "fixed: property=<id> <commit> <what failed>" lines are documentation only
                continue
            e = json.loads(line)
            if e.get("property") == pid and e.get("status", "known") == "known":
                out.append(e)
    return out


def match_known(known: List[Dict[str, Any]], bucket: str) -> Optional[Dict[str, Any]]:
    for e in known:
        if re.fullmatch(e["bucket"], bucket):
            return e
    return None


# ---------------------------------------------------------------------------
# Main
# ---------------------------------------------------------------------------


def _run_shard(args: Tuple[str, str, int, int, int]) -> Dict[str, Any]:
    modname, tier, seed, shard, nshards = args
    import importlib
    import warnings

    warnings.simplefilter("ignore")

    mod = importlib.import_module(modname)
    scratch = make_scratch(f"{mod.PID}-{shard}")
    isolate_tmp(scratch)
    ctx = Ctx(mod.PID, tier, seed, shard, nshards)
    ctx.scratch = scratch  # type: ignore
    try:
        mod.shard(ctx)
        res = ctx.result()
    except HarnessError as e:
        res = ctx.result()
        res["harness_error"] = f"shard {shard}: {e}"
    except BaseException as e:  # noqa
        res = ctx.result()
        res["harness_error"] = f"shard {shard}: {exc_text(e)}"
    finally:
        shutil.rmtree(scratch, ignore_errors=True)
    return res


def main(mod: Any) -> None:
    import warnings

    warnings.simplefilter("ignore")
    ap = argparse.ArgumentParser()
    ap.add_argument("--tier", default=os.environ.get("VERIF_TIER", "quick"),
                    choices=["quick", "thorough"])
    ap.add_argument("--replay", default=None)
    ap.add_argument("--shards", type=int, default=None)
    ap.add_argument("--seed", type=int, default=None)
    args = ap.parse_args()

    pid = mod.PID
    seed = args.seed if args.seed is not None else int(os.environ.get("VERIF_SEED", "1") or "1")
    modname = mod.__spec__.name if getattr(mod, "__spec__", None) else mod.__name__
    if modname == "__main__":
        modname = "checks." + pid.lower()

    if args.replay is not None:
        sys.exit(_replay(mod, pathlib.Path(args.replay)))

    t0 = time.time()
    nshards = args.shards or getattr(mod, "SHARDS", None) or min(16, os.cpu_count() or 1)
    jobs = [(modname, args.tier, seed, i, nshards) for i in range(nshards)]
    if nshards == 1:
        results = [_run_shard(jobs[0])]
    else:
        mpctx = multiprocessing.get_context("spawn")
        with mpctx.Pool(nshards, maxtasksperchild=1) as pool:
            results = pool.map(_run_shard, jobs, chunksize=1)

    # merge
    evaluations = sum(r["evaluations"] for r in results)
    nontrivial = set()
    classes = collections.Counter()
    excluded = collections.Counter()
    samples = []  # type: List[Any]
    failures = {}  # type: Dict[str, Dict[str, Any]]
    notes = {}  # type: Dict[str, Any]
    harness_errors = []
    for r in results:
        nontrivial.update(r["nontrivial"])
        classes.update(r["classes"])
        excluded.update(r["excluded"])
        for s in r["samples"]:
            if len(samples) < MAX_SAMPLES:
                samples.append(s)
        for b, f in r["failures"].items():
            prev = failures.get(b)
            if prev is None:
                failures[b] = dict(f)
            else:
                cnt = prev["count"] + f["count"]
                if f["size"] < prev["size"]:
                    failures[b] = dict(f)
                failures[b]["count"] = cnt
        for k, v in r.get("notes", {}).items():
            if isinstance(v, (int, float)) and isinstance(notes.get(k, 0), (int, float)):
                notes[k] = notes.get(k, 0) + v
            else:
                notes.setdefault(k, v)
        if "harness_error" in r:
            harness_errors.append(r["harness_error"])

    merged = {
        "evaluations": evaluations,
        "classes": dict(classes),
        "excluded": dict(excluded),
        "notes": notes,
        "nontrivial_n": len(nontrivial),
    }

    # let the check assert generator health over the merged numbers
    health = getattr(mod, "health", None)
    if health is not None and not harness_errors:
        try:
            msg = health(merged, args.tier)
            if msg:
                harness_errors.append(f"health: {msg}")
        except Exception as e:  # noqa
            harness_errors.append(f"health raised: {exc_text(e)}")

    known = load_known(pid)
    known_lines = []
    violations = []
    for bucket in sorted(failures):
        f = failures[bucket]
        k = match_known(known, bucket)
        if k is not None:
            known_lines.append(
                f"KNOWN-FINDING: property={pid} {k['what']} [bucket={bucket} hits={f['count']}]"
            )
        else:
            violations.append((bucket, f))

    for line in known_lines:
        print(line)

    replay_paths = []
    # shrink all unlisted buckets in parallel (bounded budget each)
    shrunk = {}  # type: Dict[str, Any]
    if violations and (getattr(mod, "shrink", None) is not None or getattr(mod, "AUTO_SHRINK", True)):
        budget = 25.0 if args.tier == "quick" else 120.0
        # at most 8 buckets are shrunk; the others keep their smallest observed case
        sjobs = [(modname, f["case"], bucket, budget) for bucket, f in violations[:8]]
        try:
            mpctx = multiprocessing.get_context("spawn")
            with mpctx.Pool(min(16, len(sjobs))) as pool:
                for bucket, case in pool.map(_shrink_job, sjobs, chunksize=1):
                    shrunk[bucket] = case
        except Exception:  # noqa: keep the unshrunk cases
            pass
    for bucket, f in violations:
        case = shrunk.get(bucket, f["case"])
        rp = VERIF / "replays" / pid / f"{jhash([bucket, case])}.json"
        rp.parent.mkdir(parents=True, exist_ok=True)
        rp.write_text(
            json.dumps(
                {"property": pid, "bucket": bucket, "message": f["message"],
                 "hits": f["count"], "seed": seed, "tier": args.tier, "case": case},
                indent=1, default=repr, ensure_ascii=True,
            )
        )
        replay_paths.append(str(rp))
        print(f"--- {pid} bucket={bucket} hits={f['count']}\n{f['message'][:1500]}")
        print(f"VIOLATION property={pid} replay={rp}")

    wall = time.time() - t0
    level = getattr(mod, "LEVEL", "exploration")
    cov = {
        "evaluations": evaluations,
        "distinct_nontrivial": len(nontrivial),
        "rule": mod.RULE,
        "samples": samples,
        "classes": dict(sorted(classes.items())),
        "excluded_known_or_out_of_domain": dict(sorted(excluded.items())),
        "notes": notes,
        "known_findings_printed": known_lines,
        "cpu_s_max_shard": round(max([r.get("cpu_s", 0.0) for r in results] + [0.0]), 1),
        "cpu_s_total": round(sum(r.get("cpu_s", 0.0) for r in results), 1),
        "violation_buckets": [b for b, _ in violations],
        "shards": nshards,
    }
    if getattr(mod, "EXHAUSTIVE", False) and notes.get("exhaustive_complete"):
        cov["exhaustive"] = True
    ev = {
        "property_id": pid,
        "tier": args.tier,
        "seed": seed,
        "level": level,
        "coverage": cov,
        "assumptions": list(getattr(mod, "ASSUMPTIONS", [])),
        "wall_s": round(wall, 2),
        "violations": len(violations),
    }
    if harness_errors:
        ev["coverage"]["harness_errors"] = harness_errors[:5]
    # evidence is only ever written for the real tree; experiments on scratch worktrees
    # (VERIF_REPO=...) and scaled-down runs go to an ignored directory
    real = str(REPO) == "/repo" and float(os.environ.get("VERIF_SCALE", "1")) == 1.0
    evdir = VERIF / "evidence" if real else VERIF / "build" / "evidence-experiments"
    evdir.mkdir(parents=True, exist_ok=True)
    (evdir / f"{pid}.json").write_text(
        json.dumps(ev, indent=1, default=repr, ensure_ascii=True) + "\n"
    )

    print(
        f"{pid} tier={args.tier} seed={seed} evaluations={evaluations} "
        f"nontrivial={len(nontrivial)} known={len(known_lines)} "
        f"violations={len(violations)} wall={wall:.1f}s "
        f"cpu_max_shard={max([r.get('cpu_s', 0.0) for r in results] + [0.0]):.0f}s"
    )
    if violations:
        sys.exit(1)
    if harness_errors:
        for h in harness_errors[:5]:
            print(f"HARNESS-ERROR {pid}: {h}", file=sys.stderr)
        sys.exit(2)
    sys.exit(0)


def _shrink_job(args: Tuple[str, Any, str, float]) -> Tuple[str, Any]:
    modname, case, bucket, budget = args
    import importlib
    import warnings

    warnings.simplefilter("ignore")
    mod = importlib.import_module(modname)
    shrink = getattr(mod, "shrink", None) or _default_shrink(mod)
    try:
        smaller = shrink(case, bucket, budget)
        return bucket, (smaller if smaller is not None else case)
    except Exception:  # noqa
        return bucket, case


def _default_shrink(mod: Any) -> Callable[[Any, str, float], Any]:
    from vlib.shrink import jshrink

    def shrink(case: Any, bucket: str, budget: float) -> Any:
        scratch = make_scratch(f"{mod.PID}-shrink")
        isolate_tmp(scratch)
        try:
            return jshrink(
                case, lambda c: any(b == bucket for b, _ in mod.replay(c)), budget
            )
        finally:
            shutil.rmtree(scratch, ignore_errors=True)

    return shrink


def _replay(mod: Any, path: pathlib.Path) -> int:
    data = json.loads(path.read_text())
    scratch = make_scratch(f"{mod.PID}-replay")
    isolate_tmp(scratch)
    try:
        got = mod.replay(data["case"])
    finally:
        shutil.rmtree(scratch, ignore_errors=True)
    known = load_known(mod.PID)
    rc = 0
    for bucket, message in got:
        k = match_known(known, bucket)
        if k is not None:
            print(f"KNOWN-FINDING: property={mod.PID} {k['what']} [bucket={bucket}]")
            continue
        print(f"--- {mod.PID} bucket={bucket}\n{message[:1500]}")
        print(f"VIOLATION property={mod.PID} replay={path}")
        rc = 1
    if rc == 0:
        print(f"{mod.PID} replay: no violation reproduced")
    return rc
