"""C29 — Python SDK traversal and accessors are complete."""
from __future__ import annotations

import shutil
import sys
from typing import Any, Dict, List, Tuple

from hypothesis import strategies as st

from vlib import instgen, mmgen, refmodel, runner, sdk
from vlib.refmodel import py_class, py_prop

PID = "C29"
RULE = (
    "Hypothesis: accepted meta-model (vlib.mmgen: class DAGs, properties of class / abstract-class / list-of-class / "
    "optional type mixed with primitives, plus generated implementation-specific 'X_or_default' methods with their "
    "snippets on optional primitive/enum properties) -> Python SDK imported -> instance graphs (depth <= 3, lists <= 3). "
    "Oracle = reference traversal over the spec: descend_once() yields exactly the directly nested class instances in "
    "property order (ancestors' properties first) and list order, compared by identity; descend() = pre-order; accept() calls "
    "visit_<concrete class> exactly once with the instance (recording visitor built on AbstractVisitor and on "
    "PassThroughVisitor: the latter must visit every instance of descend() once); transform() returns the value of "
    "transform_<concrete class>; the *_with_context variants pass the context through; over_X_or_empty() yields the list "
    "items or nothing; X_or_default() returns the value or the declared default. Non-trivial = instance of depth >= 3 "
    "containing a list with >= 2 different concrete classes, or any instance with >= 3 nested instances; distinct by "
    "(model, instance)."
)
ASSUMPTIONS = [
    "SDK naming convention re-implemented in vlib.refmodel (classes CamelCase, properties/methods lower_snake)",
    "X_or_default is an implementation-specific method: its body is the snippet the harness supplies, the check decides "
    "that the SDK wires it to the right class (and its descendants) and that it observes the property",
]

N_INST_QUICK = 10
N_INST_THOROUGH = 30


def opts() -> mmgen.Opts:
    return mmgen.Opts(max_classes=6, max_props=4, invariants="none", docs="none", consts=False, fns=False, p_diamond=0.4,
                      class_weight=6)


DEFAULTS = {"int": ("7", 7), "str": ("'dflt'", "dflt"), "bool": ("True", True), "float": ("2.5", 2.5)}


@st.composite
def cases(draw: Any, n_inst: int) -> Dict[str, Any]:
    spec = draw(mmgen.specs(opts()))
    snippets = {}  # type: Dict[str, str]
    defaults = []  # type: List[Tuple[str, str, Any]]
    for c in spec.classes:
        for p in c.props:
            if not p.type.optional:
                continue
            core = p.type.core
            if core.kind == "prim" and core.name in DEFAULTS and draw(st.booleans()):
                src, val = DEFAULTS[core.name]
                ann = core.name
            elif core.kind == "enum" and spec.enum(core.name).literals and draw(st.booleans()):
                lit = spec.enum(core.name).literals[0][0]
                src = f"{py_class(core.name)}.{lit.upper()}"
                val = {"enum": core.name, "lit": lit}
                ann = f'"{core.name}"'
            else:
                continue
            m = f"{p.name}_or_default"
            c.method_blocks.append(["    @implementation_specific", "    @non_mutating",
                                    f"    def {m}(self) -> {ann}:", "        pass"])
            py_m = m.lower()
            snippets[f"Types/{c.name}/{m}.py"] = (
                f"def {py_m}(self):\n    return self.{py_prop(p.name)} if self.{py_prop(p.name)} is not None else {src}"
            )
            defaults.append((c.name, p.name, val))
    ig = instgen.InstGen(spec, max_depth=3, max_list=3)
    # prefer roots that can nest other instances
    roots = [c.name for c in spec.classes if not c.abstract and c.name in ig.rank
             and any(_mentions_class(p.type) for p in spec.all_props(c.name))]
    root_strategy = st.sampled_from(roots).flatmap(lambda n: ig.instance(n, 0)) if roots else ig.any_instance()
    insts = draw(st.lists(st.one_of(root_strategy, root_strategy, ig.any_instance()), min_size=n_inst, max_size=n_inst))
    return {"spec": spec.to_json(), "snippets": snippets, "defaults": defaults, "instances": insts}


def _mentions_class(t: Any) -> bool:
    if t.kind == "class":
        return True
    return t.item is not None and _mentions_class(t.item)


def ref_descend_once(spec: mmgen.Spec, cname: str, obj: Any) -> List[Any]:
    out = []  # type: List[Any]
    for p in spec.all_props(cname):
        v = getattr(obj, py_prop(p.name))
        if v is None:
            continue
        _collect(p.type.core, v, out)
    return out


def _collect(t: Any, v: Any, out: List[Any]) -> None:
    if t.kind == "class":
        out.append(v)
    elif t.kind == "list":
        for x in v:
            _collect(t.item, x, out)


def cname_of(spec: mmgen.Spec, obj: Any) -> str:
    return next(c.name for c in spec.classes if py_class(c.name) == type(obj).__name__)


def ref_descend(spec: mmgen.Spec, obj: Any) -> List[Any]:
    out = []  # type: List[Any]
    for child in ref_descend_once(spec, cname_of(spec, obj), obj):
        out.append(child)
        out.extend(ref_descend(spec, child))
    return out


def ids(xs: Any) -> List[int]:
    return [id(x) for x in xs]


def evaluate(case: Dict[str, Any], base: Any, ctx: Any = None) -> List[Tuple[str, str]]:
    fails = []  # type: List[Tuple[str, str]]
    spec = mmgen.Spec.from_json(case["spec"])
    text = mmgen.render(spec)
    try:
        s, why = sdk.build_py_sdk(text, base, extra_snippets=dict(case.get("snippets") or {}))
    except BaseException as e:  # noqa
        return [(f"sdk-import-fails:{type(e).__name__}", runner.exc_text(e))]
    if s is None:
        if ctx is not None:
            ctx.exclude("python-target-" + why.split(":")[0])
        return []
    T = s.types
    concrete = [c.name for c in spec.classes if not c.abstract]
    with s:
        # recording visitors / transformers built once per model
        def mk_visitor(basecls: Any, log: List[Any], with_context: bool, call_super: bool) -> Any:
            ns = {}  # type: Dict[str, Any]
            for cn in concrete:
                mname = f"visit_{cn.lower()}" + ("_with_context" if with_context else "")

                def mk(cn: str = cn, mname: str = mname) -> Any:
                    if with_context:
                        def f(self: Any, that: Any, context: Any) -> None:
                            log.append((cn, id(that), context))
                            if call_super:
                                getattr(basecls, mname)(self, that, context)
                    else:
                        def f(self: Any, that: Any) -> None:  # type: ignore
                            log.append((cn, id(that), None))
                            if call_super:
                                getattr(basecls, mname)(self, that)
                    return f

                ns[mname] = mk()
            return type("Rec", (basecls,), ns)()

        def mk_transformer(basecls: Any, with_context: bool) -> Any:
            ns = {}  # type: Dict[str, Any]
            for cn in concrete:
                mname = f"transform_{cn.lower()}" + ("_with_context" if with_context else "")
                if with_context:
                    ns[mname] = (lambda cn: (lambda self, that, context: (cn, id(that), context)))(cn)
                else:
                    ns[mname] = (lambda cn: (lambda self, that: (cn, id(that))))(cn)
            return type("RecT", (basecls,), ns)()

        for neutral in case["instances"]:
            try:
                root = sdk.to_sdk(spec, s, neutral)
            except BaseException as e:  # noqa
                fails.append((f"instance-construction:{type(e).__name__}", runner.exc_text(e)))
                continue
            all_objs = [root] + ref_descend(spec, root)
            kinds_in_lists = _list_kinds(neutral)
            nt = (instgen.depth(neutral) >= 3 and kinds_in_lists >= 2) or len(all_objs) >= 4
            if ctx is not None:
                ctx.case(nt, key=[text, neutral], sample={"instance": neutral, "model_tail": text[-300:]},
                         classes=["instance", f"nested:{min(len(all_objs) - 1, 5)}"])
            msg_tail = f"\ninstance={neutral!r}"
            try:
                for obj in all_objs:
                    cn = cname_of(spec, obj)
                    exp_once = ref_descend_once(spec, cn, obj)
                    got_once = list(obj.descend_once())
                    if ids(got_once) != ids(exp_once):
                        fails.append(("descend_once-differs", f"class={cn} expected={[type(x).__name__ for x in exp_once]} got={[type(x).__name__ for x in got_once]}{msg_tail}"))
                    exp_all = ref_descend(spec, obj)
                    got_all = list(obj.descend())
                    if ids(got_all) != ids(exp_all):
                        fails.append(("descend-differs", f"class={cn} expected={[type(x).__name__ for x in exp_all]} got={[type(x).__name__ for x in got_all]}{msg_tail}"))
                    # visitor dispatch
                    log = []  # type: List[Any]
                    obj.accept(mk_visitor(T.AbstractVisitor, log, False, False))
                    if log != [(cn, id(obj), None)]:
                        fails.append(("accept-dispatch-differs", f"class={cn} log={log!r}{msg_tail}"))
                    log = []
                    ctxobj = object()
                    obj.accept_with_context(mk_visitor(T.AbstractVisitorWithContext, log, True, False), ctxobj)
                    if log != [(cn, id(obj), ctxobj)]:
                        fails.append(("accept_with_context-dispatch-differs", f"class={cn} log={log!r}{msg_tail}"))
                    # transformer dispatch
                    r = obj.transform(mk_transformer(T.AbstractTransformer, False))
                    if r != (cn, id(obj)):
                        fails.append(("transform-dispatch-differs", f"class={cn} got={r!r}{msg_tail}"))
                    r = obj.transform_with_context(mk_transformer(T.AbstractTransformerWithContext, True), ctxobj)
                    if r != (cn, id(obj), ctxobj):
                        fails.append(("transform_with_context-dispatch-differs", f"class={cn} got={r!r}{msg_tail}"))
                    # over_X_or_empty
                    for p in spec.all_props(cn):
                        if p.type.optional and p.type.core.kind == "list":
                            m = getattr(obj, f"over_{py_prop(p.name)}_or_empty", None)
                            if m is None:
                                fails.append(("over_X_or_empty-missing", f"class={cn} prop={p.name}"))
                                continue
                            got = list(m())
                            v = getattr(obj, py_prop(p.name))
                            exp = list(v) if v is not None else []
                            if ids(got) != ids(exp) and got != exp:
                                fails.append(("over_X_or_empty-differs", f"class={cn} prop={p.name} got={got!r} exp={exp!r}{msg_tail}"))
                    # X_or_default
                    for dc, dp, dv in case.get("defaults") or []:
                        if dc == cn or dc in spec.ancestors(cn):
                            m = getattr(obj, f"{dp.lower()}_or_default", None)
                            if m is None:
                                fails.append(("X_or_default-missing", f"class={cn} declared in {dc} prop={dp}"))
                                continue
                            v = getattr(obj, py_prop(dp))
                            exp = v if v is not None else sdk.to_sdk(spec, s, dv)
                            got = m()
                            if got != exp or type(got) is not type(exp):
                                fails.append(("X_or_default-differs", f"class={cn} prop={dp} got={got!r} exp={exp!r}{msg_tail}"))
                # pass-through visitor visits every instance exactly once, root first, pre-order
                log = []
                root.accept(mk_visitor(T.PassThroughVisitor, log, False, True))
                exp_log = [(cname_of(spec, o), id(o), None) for o in all_objs]
                if log != exp_log:
                    fails.append(("pass-through-visitor-order-differs", f"expected={[e[0] for e in exp_log]} got={[e[0] for e in log]}{msg_tail}"))
            except BaseException as e:  # noqa
                fails.append((f"traversal-raises:{type(e).__name__}", runner.exc_text(e) + msg_tail))
    return fails


def _list_kinds(v: Any) -> int:
    best = 0
    if isinstance(v, dict) and "cls" in v:
        for x in v["props"].values():
            best = max(best, _list_kinds(x))
    elif isinstance(v, list):
        kinds = {x["cls"] for x in v if isinstance(x, dict) and "cls" in x}
        best = len(kinds)
        for x in v:
            best = max(best, _list_kinds(x))
    return best


def shard(ctx: runner.Ctx) -> None:
    n = ctx.n(200, 20_000)
    n_inst = N_INST_QUICK if ctx.quick else N_INST_THOROUGH

    def one(case: Dict[str, Any]) -> None:
        ctx.classes["models"] += 1
        if case.get("defaults"):
            ctx.classes["models-with-X_or_default"] += 1
        for b, m in evaluate(case, ctx.scratch, ctx):
            ctx.fail(b, case, m)

    runner.hyp_run(cases(n_inst), one, n, ctx.seed)


def replay(case: Any) -> List[Tuple[str, str]]:
    if not isinstance(case, dict) or "spec" not in case:
        return []
    base = runner.make_scratch("c29-replay")
    try:
        case = dict(case)
        case.setdefault("instances", [])
        return evaluate(case, base, None)
    except (KeyError, TypeError, AttributeError, IndexError, AssertionError, StopIteration, ValueError):
        return []
    finally:
        shutil.rmtree(base, ignore_errors=True)


def health(m: Any, tier: str) -> Any:
    models = m["classes"].get("models", 0)
    skipped = sum(v for k, v in m["excluded"].items())
    if models and skipped > 0.3 * models:
        return f"{skipped} of {models} models skipped: {m['excluded']}"
    if m["nontrivial_n"] < 0.05 * max(1, m["classes"].get("instance", 0)):
        return "too few non-trivial instances"
    return None


if __name__ == "__main__":
    runner.main(sys.modules[__name__])
