"""C21 — Distinct meta-model names never collide in generated code."""
from __future__ import annotations

import collections
import importlib
import itertools
import json
import pathlib
import re
import shutil
import sys
import xml.etree.ElementTree as ET
from typing import Any, Dict, List, Optional, Tuple

from hypothesis import strategies as st

from vlib import c20_parse, c21_gen, mmgen, runner, sut

PID = "C21"
RULE = (
    "Hypothesis: meta-models from vlib.mmgen (no invariants/descriptions) into which vlib.c21_gen plants a pair of "
    "distinct identifiers in one scope: two classes, class vs enumeration, two enumerations, type vs interface of "
    "another type (Foo / IFoo), class vs <Enumeration>_<literal> (Go declares literals at package level), two enumeration literals, two own properties, own vs inherited property, property vs "
    "implementation-specific method, two constants, two verification functions, constant vs function. The pair = two "
    "spellings of one word sequence (case of a part, UPPER part, double underscore, trailing underscore, merged parts, "
    "digit boundary, first letter, mixed) or, 30% control group, different words / near misses; scope kind and control flag are stratified by a counter. Observation (1): the "
    "expected generated names per scope are computed from the spec with the target's OWN naming functions (and the "
    "shared json/xml naming for the schemas); if two entities of one scope coincide, main.execute of that target must "
    "end with rc != 0 and a report (an exception escaping = C02's domain, counted as excluded). Observation (2), "
    "when rc == 0: the names declared in the output per scope (Python: import + introspection under a unique module "
    "name; Java: drivers/ParseOnly.java; TypeScript/C#/Go/C++: declarations extracted by regular expressions; JSON "
    "Schema: definition and property keys; XSD: named components) are pairwise distinct and as many as the entities "
    "of the spec in that scope. Non-trivial = accepted model whose planted pair collides for at least one target by "
    "(1), or a control model that every target generated; distinct by model text."
)
ASSUMPTIONS = [
    "scopes per target: types (enumerations, classes, interfaces where the target declares them; Go: also "
    "<Enum><Literal> constants), literals per enumeration, members per class = own + inherited properties "
    "(+ getter/setter/private names where the target derives them) and methods, constants, verification functions; "
    "constants and verification functions live in different modules/classes/packages in every target and never share a scope",
    "JSON Schema / XSD: classes and enumerations share the scope of definitions / named types; all (own + inherited) "
    "properties of a class share the scope of the JSON object / XML element content",
    "a reported error of a target (rc != 0) is accepted whatever its text when a collision is expected; when no "
    "collision is expected, rc != 0 is counted (it is not asserted to be 0: other checks of the generator may fire)",
    "observation (2) for C#/Go/C++/TypeScript relies on regular expressions over the generated sources (no compiler "
    "for C#/Go here); it is calibrated on the control group",
    "methods come from harness snippets, so only observation (1) applies to property-vs-method pairs",
]

TARGET_MODULES = {"python": "python", "typescript": "typescript", "csharp": "csharp", "java": "java",
                  "golang": "golang", "cpp": "cpp"}


# ---------------------------------------------------------------------------
# Observation (1): expected names per scope, from the spec and the target's own naming functions
# ---------------------------------------------------------------------------


def _methods_of(spec: mmgen.Spec, methods: List[c21_gen.Method], cls: str) -> List[str]:
    owners = set(spec.ancestors(cls)) | {cls}
    return [m.name for m in methods if m.cls in owners]


def expected_scopes(target: str, spec: mmgen.Spec, methods: List[c21_gen.Method]) -> Dict[str, List[Tuple[str, str]]]:
    """scope -> [(entity label, generated name)] with the naming functions of the target."""
    from aas_core_codegen import naming as shared
    from aas_core_codegen.common import Identifier as I

    scopes = collections.OrderedDict()  # type: Dict[str, List[Tuple[str, str]]]
    has_descendants = {c.name: bool(spec.descendants(c.name)) for c in spec.classes}

    if target in TARGET_MODULES:
        nm = importlib.import_module(f"aas_core_codegen.{TARGET_MODULES[target]}.naming")
        types = []  # type: List[Tuple[str, str]]
        for e in spec.enums:
            types.append((f"enumeration {e.name}", nm.enum_name(I(e.name))))
        for c in spec.classes:
            if target == "python":
                types.append((f"class {c.name}", nm.class_name(I(c.name))))
            elif target == "typescript":
                types.append((f"class {c.name}", nm.class_name(I(c.name))))
                if c.abstract or has_descendants[c.name]:
                    types.append((f"interface of {c.name}", nm.interface_name(I(c.name))))
            elif target == "golang":
                types.append((f"interface of {c.name}", nm.interface_name(I(c.name))))
                if not c.abstract:
                    types.append((f"struct {c.name}", nm.struct_name(I(c.name))))
            else:  # csharp, java, cpp
                types.append((f"interface of {c.name}", nm.interface_name(I(c.name))))
                if not c.abstract:
                    types.append((f"class {c.name}", nm.class_name(I(c.name))))
        if target == "golang":
            for e in spec.enums:
                for n, _ in e.literals:
                    types.append((f"literal {e.name}.{n}", nm.enum_literal_name(I(e.name), I(n))))
        scopes["types"] = types
        for e in spec.enums:
            if target == "golang":
                continue
            scopes[f"literals of {e.name}"] = [(f"literal {n}", nm.enum_literal_name(I(n))) for n, _ in e.literals]
        for c in spec.classes:
            members = []  # type: List[Tuple[str, str]]
            for p in spec.all_props(c.name):
                if target in ("python", "typescript", "csharp"):
                    members.append((f"property {p.name}", nm.property_name(I(p.name))))
                elif target == "java":
                    members.append((f"property {p.name}", nm.property_name(I(p.name))))
                    members.append((f"getter of {p.name}", nm.getter_name(I(p.name))))
                    members.append((f"setter of {p.name}", nm.setter_name(I(p.name))))
                elif target == "golang":
                    members.append((f"getter of {p.name}", nm.getter_name(I(p.name))))
                    members.append((f"setter of {p.name}", nm.setter_name(I(p.name))))
                elif target == "cpp":
                    members.append((f"getter of {p.name}", nm.getter_name(I(p.name))))
                    members.append((f"mutable getter of {p.name}", nm.mutable_getter_name(I(p.name))))
                    members.append((f"setter of {p.name}", nm.setter_name(I(p.name))))
                    members.append((f"private property {p.name}", nm.private_property_name(I(p.name))))
            for m in _methods_of(spec, methods, c.name):
                members.append((f"method {m}", nm.method_name(I(m))))
            scopes[f"members of {c.name}"] = members
        if target in ("csharp", "java"):
            scopes["constants"] = [(f"constant {k.name}", nm.property_name(I(k.name))) for k in spec.consts]
            scopes["functions"] = [(f"function {f.name}", nm.method_name(I(f.name))) for f in spec.fns]
        else:
            scopes["constants"] = [(f"constant {k.name}", nm.constant_name(I(k.name))) for k in spec.consts]
            scopes["functions"] = [(f"function {f.name}", nm.function_name(I(f.name))) for f in spec.fns]
    elif target == "jsonschema":
        defs = [(f"enumeration {e.name}", shared.json_model_type(I(e.name))) for e in spec.enums]
        defs += [(f"class {c.name}", shared.json_model_type(I(c.name))) for c in spec.classes]
        scopes["definitions"] = defs
        for c in spec.classes:
            scopes[f"properties of {c.name}"] = [(f"property {p.name}", shared.json_property(I(p.name)))
                                                 for p in spec.all_props(c.name)]
    elif target == "xsd":
        from aas_core_codegen.xsd import naming as xsd_naming

        # enumerations that no property refers to are not emitted by the XSD target
        scopes["types"] = [(f"enumeration {e}", xsd_naming.type_name(I(e))) for e in used_enums(spec)] + \
                          [(f"class {c.name}", xsd_naming.type_name(I(c.name))) for c in spec.classes]
        scopes["elements"] = [(f"class {c.name}", shared.xml_class_name(I(c.name))) for c in spec.classes if not c.abstract]
        for c in spec.classes:
            scopes[f"properties of {c.name}"] = [(f"property {p.name}", shared.xml_property(I(p.name)))
                                                 for p in spec.all_props(c.name)]
    return scopes


def used_enums(spec: mmgen.Spec) -> List[str]:
    used = []  # type: List[str]
    for c in spec.classes:
        for p in c.props:
            t = p.type  # type: Optional[mmgen.TRef]
            while t is not None:
                if t.kind == "enum" and t.name not in used:
                    used.append(t.name)
                t = t.item
    return [e.name for e in spec.enums if e.name in used]


def collisions_in(scopes: Dict[str, List[Tuple[str, str]]]) -> List[Tuple[str, str, List[str]]]:
    """[(scope, name, [entities])] for names shared by two different meta-model entities."""
    out = []
    for scope, items in scopes.items():
        by_name = collections.OrderedDict()  # type: Dict[str, List[str]]
        for label, name in items:
            by_name.setdefault(name, []).append(label)
        for name, labels in by_name.items():
            # derived names of ONE entity (getter vs property of the same property) are not two entities
            entities = {re.sub(r"^(getter of|setter of|mutable getter of|private property|property|interface of|class|struct) ", "", l)
                        for l in labels}
            if len(entities) > 1:
                out.append((scope, name, labels))
    return out


def scope_kind(scope: str) -> str:
    return re.sub(r" of .*", "", scope)


# ---------------------------------------------------------------------------
# Observation (2): declared names in the output
# ---------------------------------------------------------------------------


def _dups(names: List[str]) -> List[str]:
    c = collections.Counter(names)
    return sorted(n for n, k in c.items() if k > 1)


def observe_python(root: pathlib.Path, module: str, spec: mmgen.Spec) -> List[Tuple[str, str]]:
    """Import the generated package and compare declared names with the entities."""
    import enum
    import inspect

    fails = []  # type: List[Tuple[str, str]]
    sys.path.insert(0, str(root))
    try:
        try:
            types = importlib.import_module(f"{module}.types")
            constants = importlib.import_module(f"{module}.constants")
            verification = importlib.import_module(f"{module}.verification")
        except BaseException as e:  # noqa
            if type(e).__name__ in ("KeyboardInterrupt", "SystemExit", "MemoryError"):
                raise
            return [("generated-package-does-not-import", f"{type(e).__name__}: {str(e)[:300]}")]
        enums = [v for k, v in vars(types).items() if inspect.isclass(v) and issubclass(v, enum.Enum)
                 and v.__module__ == types.__name__ and k != "ModelType"]
        if len(enums) != len(spec.enums):
            fails.append(("types", f"{len(enums)} enumerations declared {sorted(e.__name__ for e in enums)} "
                                   f"for {len(spec.enums)} enumerations of the model"))
        base = getattr(types, "Class", None)
        classes = [v for k, v in vars(types).items() if inspect.isclass(v) and base is not None and issubclass(v, base)
                   and v is not base and v.__module__ == types.__name__]
        if len(classes) != len(spec.classes):
            fails.append(("types", f"{len(classes)} classes declared {sorted(c.__name__ for c in classes)} "
                                   f"for {len(spec.classes)} classes of the model"))
        n_lit = sum(len(e.__members__) for e in enums)
        if len(enums) == len(spec.enums) and n_lit != sum(len(e.literals) for e in spec.enums):
            fails.append(("literals", f"{n_lit} literals declared for {sum(len(e.literals) for e in spec.enums)} of the model"))
        if len(classes) == len(spec.classes):
            got = sorted((len(inspect.signature(c.__init__).parameters) - 1) if "__init__" in vars(c) else 0
                         for c in classes)
            want = sorted(len(spec.all_props(c.name)) for c in spec.classes)
            if got != want:
                fails.append(("members", f"constructor parameter counts {got} for property counts {want}"))
        consts = [k for k in vars(constants) if k.isupper() and not k.startswith("_")]
        if len(consts) != len(spec.consts):
            fails.append(("constants", f"{len(consts)} constants declared {sorted(consts)} for {len(spec.consts)} of the model"))
        from aas_core_codegen.python import naming as nm
        from aas_core_codegen.common import Identifier as I
        fnames = {nm.function_name(I(f.name)) for f in spec.fns}
        present = [n for n in fnames if inspect.isfunction(getattr(verification, n, None))]
        if len(present) != len(spec.fns):
            fails.append(("functions", f"{len(present)} verification functions declared for {len(spec.fns)} of the model"))
    finally:
        try:
            sys.path.remove(str(root))
        except ValueError:
            pass
        for k in [k for k in sys.modules if k == module or k.startswith(module + ".")]:
            del sys.modules[k]
    return fails


def _block_after(src: str, start: int) -> str:
    """Text of the brace block that opens at or after ``start`` (naive brace matching)."""
    i = src.find("{", start)
    if i < 0:
        return ""
    depth = 0
    for j in range(i, len(src)):
        if src[j] == "{":
            depth += 1
        elif src[j] == "}":
            depth -= 1
            if depth == 0:
                return src[i + 1:j]
    return src[i + 1:]


def _strip_comments(src: str) -> str:
    src = re.sub(r"/\*.*?\*/", "", src, flags=re.S)
    return re.sub(r"//[^\n]*", "", src)


def observe_by_regex(target: str, root: pathlib.Path, spec: mmgen.Spec) -> List[Tuple[str, str]]:
    fails = []  # type: List[Tuple[str, str]]
    n_enums, n_classes = len(spec.enums), len(spec.classes)
    n_concrete = sum(1 for c in spec.classes if not c.abstract)
    n_literals = sum(len(e.literals) for e in spec.enums)

    def read(rel: str) -> str:
        p = root / rel
        return _strip_comments(p.read_text(encoding="utf-8", errors="replace")) if p.is_file() else ""

    if target == "typescript":
        src = read("src/types.ts")
        enums = [m for m in re.finditer(r"^export enum (\w+)", src, flags=re.M) if m.group(1) != "ModelType"]
        fixed = {"Class", "AbstractVisitor", "AbstractVisitorWithContext", "PassThroughVisitor", "PassThroughVisitorWithContext",
                 "AbstractTransformer", "AbstractTransformerWithContext", "TransformerWithDefault",
                 "TransformerWithDefaultAndContext"}
        classes = [m.group(1) for m in re.finditer(r"^export (?:abstract )?class (\w+)", src, flags=re.M)
                   if m.group(1) not in fixed and not re.fullmatch(r"TypeMatcher|As\w+Transformer", m.group(1))]
        interfaces = [m.group(1) for m in re.finditer(r"^export interface (\w+)", src, flags=re.M)]
        names = [m.group(1) for m in enums] + classes + interfaces
        if _dups(names):
            fails.append(("types", f"declared more than once: {_dups(names)}"))
        if len(enums) != n_enums:
            fails.append(("types", f"{len(enums)} enumerations declared for {n_enums} of the model"))
        if len(set(classes)) != n_concrete:
            fails.append(("types", f"{len(set(classes))} classes declared {sorted(set(classes))} for {n_concrete} concrete classes"))
        lits = 0
        for m in enums:
            body = _block_after(src, m.start())
            ln = re.findall(r"^\s*(\w+)\s*(?:=[^,\n]*)?,?\s*$", body, flags=re.M)
            lits += len(set(ln))
            if _dups(ln):
                fails.append(("literals", f"enumeration {m.group(1)} declares {_dups(ln)} more than once"))
        if len(enums) == n_enums and lits != n_literals:
            fails.append(("literals", f"{lits} literals declared for {n_literals} of the model"))
        consts = re.findall(r"^export const (\w+)", read("src/constants.ts"), flags=re.M)
        if _dups(consts) or len(set(consts)) != len(spec.consts):
            fails.append(("constants", f"{len(set(consts))} constants declared (duplicates {_dups(consts)}) for {len(spec.consts)}"))
    elif target == "csharp":
        src = "\n".join(read(str(p.relative_to(root))) for p in sorted(root.rglob("types.cs")))
        enums = [m for m in re.finditer(r"public enum (\w+)", src)]
        interfaces = [m.group(1) for m in re.finditer(r"public interface (\w+)", src)]
        fixed = {"IClass"}
        classes = [m.group(1) for m in re.finditer(r"public class (\w+)", src)]
        names = [m.group(1) for m in enums] + [i for i in interfaces if i not in fixed] + classes
        if _dups(names):
            fails.append(("types", f"declared more than once: {_dups(names)}"))
        if len(enums) != n_enums:
            fails.append(("types", f"{len(enums)} enumerations declared for {n_enums} of the model"))
        n_if = len([i for i in interfaces if i not in fixed])
        if n_if != n_classes:
            fails.append(("types", f"{n_if} interfaces declared for {n_classes} classes of the model"))
        lits = 0
        for m in enums:
            body = _block_after(src, m.start())
            ln = re.findall(r"^\s*(?:\[[^\]]*\]\s*)?(\w+)\s*(?:,|$)", body, flags=re.M)
            ln = [x for x in ln if x]
            lits += len(set(ln))
            if _dups(ln):
                fails.append(("literals", f"enumeration {m.group(1)} declares {_dups(ln)} more than once"))
        if len(enums) == n_enums and lits != n_literals:
            fails.append(("literals", f"{lits} literals declared for {n_literals} of the model"))
    elif target == "golang":
        src = read("types/types.go")
        interfaces = re.findall(r"^type (\w+) interface", src, flags=re.M)
        structs = re.findall(r"^type (\w+) struct", src, flags=re.M)
        enums = re.findall(r"^type (\w+) int\b", src, flags=re.M)
        pub_structs = [s for s in structs if s[0].isupper()]
        names = interfaces + pub_structs + enums
        if _dups(names):
            fails.append(("types", f"declared more than once: {_dups(names)}"))
        n_enum_types = len([e for e in enums if e != "ModelType"])
        if n_enum_types != n_enums:
            fails.append(("types", f"{n_enum_types} enumerations declared for {n_enums} of the model"))
        n_if = len([i for i in interfaces if i != "IClass"])
        if n_if != n_classes:
            fails.append(("types", f"{n_if} interfaces declared {interfaces} for {n_classes} classes of the model"))
    elif target == "cpp":
        src = read("include/verif/gen/types.hpp")
        enums = [m for m in re.finditer(r"^enum class (\w+)", src, flags=re.M) if m.group(1) != "ModelType"]
        classes = re.findall(r"^class (\w+)\s*(?::|\{)", src, flags=re.M)
        if _dups(classes + [m.group(1) for m in enums]):
            fails.append(("types", f"declared more than once: {_dups(classes + [m.group(1) for m in enums])}"))
        if len(enums) != n_enums:
            fails.append(("types", f"{len(enums)} enumerations declared for {n_enums} of the model"))
        interfaces = [c for c in classes if c.startswith("I") and c != "IClass"]
        if len(interfaces) < n_classes:
            fails.append(("types", f"{len(interfaces)} interfaces declared for {n_classes} classes of the model"))
        lits = 0
        for m in enums:
            body = _block_after(src, m.start())
            ln = re.findall(r"^\s*(k\w+)\s*=", body, flags=re.M)
            lits += len(set(ln))
            if _dups(ln):
                fails.append(("literals", f"enumeration {m.group(1)} declares {_dups(ln)} more than once"))
        if len(enums) == n_enums and lits != n_literals:
            fails.append(("literals", f"{lits} literals declared for {n_literals} of the model"))
    return fails


def observe_java(root: pathlib.Path, spec: mmgen.Spec, scratch: pathlib.Path) -> List[Tuple[str, str]]:
    fails = []  # type: List[Tuple[str, str]]
    rels = [str(p.relative_to(root)) for p in sorted(root.rglob("*.java")) if "/types/" in str(p) or "/constants/" in str(p)]
    classes_dir = c20_parse.ensure_parse_only(scratch)
    _, types, members = c20_parse.run_parse_only(classes_dir, root, rels)
    enums = [t for t in types if "/types/enums/" in t[0] and t[1] == "ENUM"]
    interfaces = [t for t in types if "/types/model/" in t[0] and t[1] == "INTERFACE" and not t[2].endswith(".IClass")]
    impls = [t for t in types if "/types/impl/" in t[0] and t[1] == "CLASS"]
    top_impls = [t for t in impls if "." not in t[2].split("impl.", 1)[-1]]
    n_enum = len([e for e in enums if not e[2].endswith(".ModelType")])
    if n_enum != len(spec.enums):
        fails.append(("types", f"{n_enum} enumerations declared {[e[2] for e in enums]} for {len(spec.enums)} of the model"))
    if len(interfaces) != len(spec.classes):
        fails.append(("types", f"{len(interfaces)} interfaces declared for {len(spec.classes)} classes of the model"))
    n_concrete = sum(1 for c in spec.classes if not c.abstract)
    if len(top_impls) != n_concrete:
        fails.append(("types", f"{len(top_impls)} classes declared for {n_concrete} concrete classes of the model"))
    lits = 0
    for e in enums:
        if e[2].endswith(".ModelType"):
            continue
        names = [m[3] for m in members if m[1] == e[2] and m[2] == "field"
                 and re.fullmatch(r"[A-Z][A-Z0-9_]*", m[3]) is not None]
        lits += len(set(names))
        if _dups(names):
            fails.append(("literals", f"enumeration {e[2]} declares {_dups(names)} more than once"))
    want = sum(len(e.literals) for e in spec.enums)
    if n_enum == len(spec.enums) and lits != want:
        fails.append(("literals", f"{lits} literals declared for {want} of the model"))
    for t in top_impls:
        fields = [m[3] for m in members if m[1] == t[2] and m[2] == "field"]
        if _dups(fields):
            fails.append(("members", f"class {t[2]} declares the fields {_dups(fields)} more than once"))
    return fails


def observe_jsonschema(root: pathlib.Path, spec: mmgen.Spec) -> List[Tuple[str, str]]:
    fails = []  # type: List[Tuple[str, str]]
    pairs_seen = []  # type: List[Tuple[str, List[str]]]

    def hook(pairs: List[Tuple[str, Any]]) -> Dict[str, Any]:
        keys = [k for k, _ in pairs]
        if _dups(keys):
            pairs_seen.append(("duplicate keys", _dups(keys)))
        return dict(pairs)

    schema = json.loads((root / "schema.json").read_text(encoding="utf-8"), object_pairs_hook=hook)
    if pairs_seen:
        fails.append(("definitions", f"object with duplicate keys: {pairs_seen[:3]}"))
    defs = schema.get("definitions", {})
    base = {re.sub(r"_(abstract|choice)$", "", k) for k in defs if k != "ModelType"}
    want = len(spec.enums) + len(spec.classes)
    if len(base) != want:
        fails.append(("definitions", f"{len(base)} definitions {sorted(base)} for {want} classes and enumerations of the model"))
    else:
        own_counts = []
        for k, d in defs.items():
            if k == "ModelType" or k.endswith("_choice"):
                continue
            parts = [d] + [x for x in d.get("allOf", []) if isinstance(x, dict)]
            props = [p for part in parts for p in part.get("properties", {}) if p != "modelType"]
            if "enum" not in d:
                if k.endswith("_abstract") or f"{k}_abstract" not in defs:
                    own_counts.append(len(props))
        want_counts = sorted(len(c.props) for c in spec.classes)
        if sorted(own_counts) != want_counts:
            fails.append(("properties", f"own property counts {sorted(own_counts)} for {want_counts} of the model"))
    return fails


def observe_xsd(root: pathlib.Path, spec: mmgen.Spec) -> List[Tuple[str, str]]:
    fails = []  # type: List[Tuple[str, str]]
    ns = "{http://www.w3.org/2001/XMLSchema}"
    tree = ET.parse(str(root / "schema.xsd")).getroot()
    named = collections.defaultdict(list)  # type: Dict[str, List[str]]
    for child in tree:
        if child.get("name") is not None:
            kind = "type" if child.tag in (ns + "simpleType", ns + "complexType") else child.tag.replace(ns, "")
            named[kind].append(child.get("name"))
    for kind, names in named.items():
        if _dups(names):
            fails.append(("types", f"{kind} components named {_dups(names)} are declared more than once"))
    want_types = len(used_enums(spec)) + len(spec.classes)
    if len(set(named.get("type", []))) != want_types:
        fails.append(("types", f"{len(set(named.get('type', [])))} named types for {want_types} classes and used enumerations"))
    groups = [g for g in tree if g.tag == ns + "group" and not (g.get("name") or "").endswith("_choice")]
    if len({g.get("name") for g in groups}) != len(spec.classes):
        fails.append(("types", f"{len(groups)} groups for {len(spec.classes)} classes of the model"))
    else:
        counts = []
        for g in groups:
            seq = g.find(ns + "sequence")
            els = [e.get("name") for e in (seq if seq is not None else []) if e.tag == ns + "element"]
            counts.append(len(set(els)))
            if _dups(els):
                fails.append(("properties", f"group {g.get('name')} declares the elements {_dups(els)} more than once"))
        want = sorted(len(c.props) for c in spec.classes)
        if sorted(counts) != want:
            fails.append(("properties", f"own element counts {sorted(counts)} for property counts {want}"))
    return fails


# ---------------------------------------------------------------------------
# Evaluation
# ---------------------------------------------------------------------------

_counter = itertools.count()


def evaluate(spec: mmgen.Spec, methods: List[c21_gen.Method], base: pathlib.Path, observe: bool = True,
             targets: Optional[List[str]] = None) -> Dict[str, Any]:
    res = {"accepted": False, "fails": [], "classes": [], "excluded": [], "collides_for": [], "generated": 0}  # type: Dict[str, Any]
    text = c21_gen.render(spec, methods)
    res["text"] = text
    try:
        _, _, err = sut.load_text(text, base)
    except BaseException:  # noqa: C01
        res["classes"].append("front-end-crash")
        return res
    if err is not None:
        res["classes"].append("rejected-by-front-end")
        res["reject_reason"] = err
        return res
    res["accepted"] = True
    for target in (targets or sut.TARGETS):
        if target not in sut.TARGETS:
            continue
        try:
            scopes = expected_scopes(target, spec, methods)
        except BaseException as e:  # noqa: a naming function rejects the identifier (precondition): not this property
            if type(e).__name__ in ("KeyboardInterrupt", "SystemExit", "MemoryError"):
                raise
            res["classes"].append(f"{target}:naming-function-raised")
            res["excluded"].append(f"{target}-naming-function-raised-{type(e).__name__}")
            continue
        expected = collisions_in(scopes)
        if expected:
            res["collides_for"].append(target)
            for sc in sorted({scope_kind(s) for s, _, _ in expected}):
                res["classes"].append(f"{target}:expected-collision:{sc}")
        snippets = c21_gen.method_snippets(target, methods)
        module = f"vg{next(_counter)}x{runner.jhash(text)[:8]}"
        if target == "python":
            snippets = dict(snippets)
            snippets["qualified_module_name.txt"] = module
        d = None  # type: Optional[pathlib.Path]
        try:
            try:
                rc, _, errtxt, d = sut.generate(text, target, base, extra_snippets=snippets, keep=True)
            except BaseException as e:  # noqa
                if type(e).__name__ in ("KeyboardInterrupt", "SystemExit", "MemoryError"):
                    raise
                res["classes"].append(f"{target}:crashed")
                res["excluded"].append(f"{target}-crashed(C02)")
                continue
            if rc != 0:
                res["classes"].append(f"{target}:reported-error" + (":collision-expected" if expected else ":no-collision-expected"))
                if expected and errtxt.strip() == "":
                    res["fails"].append((f"{target}:nonzero-status-without-report", f"rc={rc}"))
                if not expected:
                    res.setdefault("unexpected_reports", {})[target] = errtxt[:500]
                continue
            res["generated"] += 1
            res["classes"].append(f"{target}:generated")
            obs = []  # type: List[Tuple[str, str]]
            if observe and d is not None:
                root = d / "out"
                try:
                    if target == "python":
                        obs = observe_python(root, module, spec)
                    elif target == "java":
                        obs = observe_java(root, spec, base)
                    elif target == "jsonschema":
                        obs = observe_jsonschema(root, spec)
                    elif target == "xsd":
                        obs = observe_xsd(root, spec)
                    else:
                        obs = observe_by_regex(target, root, spec)
                except c20_parse.ToolError as e:
                    raise runner.HarnessError(f"tool of the harness is missing or broken: {e}")
                except Exception as e:  # noqa: the extractor is part of the harness
                    raise runner.HarnessError(f"observation of {target} output failed: {runner.exc_text(e)}")
            if expected:
                seen = "; observed in the output: " + " | ".join(m for _, m in obs)[:600] if obs else ""
                for sc in sorted({scope_kind(s) for s, _, _ in expected}):
                    detail = "; ".join(f"{s}: {n!r} <- {labels}" for s, n, labels in expected if scope_kind(s) == sc)
                    res["fails"].append((f"{target}:unreported-collision:{sc}",
                                         f"[{target}] generated (rc=0) although {detail}{seen}"))
                if obs:
                    res["classes"].append(f"{target}:collision-visible-in-output")
            else:
                for sc, msg in obs:
                    res["fails"].append((f"{target}:declared-names-differ:{sc}", f"[{target}] {msg}"))
            if observe and d is not None:
                res["classes"].append(f"{target}:output-observed")
        finally:
            if d is not None:
                shutil.rmtree(d, ignore_errors=True)
    return res


@st.composite
def cases(draw: Any) -> c21_gen.Planted:
    return draw(c21_gen.planted_specs())


def shard(ctx: runner.Ctx) -> None:
    n = ctx.n(300, 10000)

    def one(pl: c21_gen.Planted) -> None:
        res = evaluate(pl.spec, pl.methods, ctx.scratch)
        for ex in res["excluded"]:
            ctx.exclude(ex)
        classes = list(res["classes"])
        if res["accepted"]:
            classes.append("accepted")
        classes.append(f"kind:{pl.kind}")
        classes.append(f"style:{pl.style}")
        classes.append("control-group" if pl.control else "planted-pair")
        if res["collides_for"]:
            classes.append("collides-for-some-target")
            classes.append(f"kind-collides:{pl.kind}")
        if pl.control and res["collides_for"]:
            classes.append("control-pair-collides")
        nt = res["accepted"] and (bool(res["collides_for"]) or (pl.control and res["generated"] >= 6))
        ctx.case(nt, key=res["text"],
                 sample={"kind": pl.kind, "pair": list(pl.pair), "style": pl.style, "control": pl.control,
                         "collides_for": res["collides_for"], "outcomes": [c for c in res["classes"] if ":" in c][:24]},
                 classes=classes)
        for b, m in res["fails"]:
            case = {"spec": pl.spec.to_json(), "methods": [[m_.cls, m_.name] for m_ in pl.methods],
                    "targets": [b.split(":")[0]], "pair": list(pl.pair), "kind": pl.kind}
            ctx.fail(b, case, m)

    # Every random choice (scope kind, control flag) stays inside Hypothesis. The first examples of a run are
    # biased towards the first alternative, so the list of kinds is rotated by the shard number: over the 16
    # shards every kind is "first" at least once.
    kinds = list(c21_gen.SCOPE_KINDS)
    rot = ctx.shard % len(kinds)
    kinds = kinds[rot:] + kinds[:rot]
    strategy = st.tuples(st.sampled_from(kinds), st.integers(0, 9)).flatmap(
        lambda kc: c21_gen.planted_specs(kind=kc[0], control=kc[1] >= 7)
    )
    runner.hyp_run(strategy, one, n, ctx.seed)


def replay(case: Any) -> List[Tuple[str, str]]:
    if not isinstance(case, dict) or not isinstance(case.get("spec"), dict):
        return []
    try:
        spec = mmgen.Spec.from_json(case["spec"])
        methods = [c21_gen.Method(str(m[0]), str(m[1])) for m in case.get("methods", [])]
        targets = [str(t) for t in case.get("targets", [])] or None
        c21_gen.render(spec, methods)
    except Exception:  # noqa: odd shapes from the shrinker
        return []
    base = runner.make_scratch("c21-replay")
    try:
        runner.isolate_tmp(base)
        try:
            res = evaluate(spec, methods, base, targets=targets)
        except runner.HarnessError:
            raise
        except Exception:  # noqa
            return []
    finally:
        shutil.rmtree(base, ignore_errors=True)
    return list(res["fails"])


def health(m: Any, tier: str) -> Any:
    acc = m["classes"].get("accepted", 0)
    if acc < 0.9 * m["evaluations"]:
        return f"only {acc}/{m['evaluations']} generated models accepted by the front end"
    ctrl = m["classes"].get("control-group", 0)
    if not (0.07 * m["evaluations"] <= ctrl <= 0.6 * m["evaluations"]):  # expected 30 %, 18 draws per shard
        return f"control group is {ctrl}/{m['evaluations']}"
    if m["classes"].get("collides-for-some-target", 0) < 0.4 * m["evaluations"]:
        return f"only {m['classes'].get('collides-for-some-target', 0)}/{m['evaluations']} models collide for some target"
    missing = [k for k in c21_gen.SCOPE_KINDS if k not in ("constant-vs-function",)
               and m["classes"].get(f"kind-collides:{k}", 0) == 0]
    if missing and tier == "thorough" and m["evaluations"] >= 500:
        return f"no colliding model for the scope kinds {missing}"
    return None


if __name__ == "__main__":
    runner.main(sys.modules[__name__])
