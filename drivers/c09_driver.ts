// C09 driver for the generated TypeScript SDK (copied next to the SDK's ``src`` directory).
//
// stdin: line 1 = manifest {"classes":[...], "enums":[...], "constants":[{"name","kind","enum"}]},
//        following lines = {"cls": <meta-model class name>, "doc": <JSON document>}.
// stdout: one JSON line for the manifest ({"constants":..., "enums":...}) and one per document.
//
// Entities are looked up by *canonical* name (lower case, underscores removed), so that no naming
// convention of the generator is re-implemented here.
import * as fs from "node:fs";

import * as AasJsonization from "./src/jsonization";
import * as AasVerification from "./src/verification";
import * as AasConstants from "./src/constants";
import * as AasTypes from "./src/types";
import * as AasStringification from "./src/stringification";

function canon(name: string): string {
  return name.replace(/_/g, "").toLowerCase();
}

function index(mod: object): Map<string, unknown> {
  const out = new Map<string, unknown>();
  for (const key of Object.keys(mod)) {
    out.set(canon(key), (mod as Record<string, unknown>)[key]);
  }
  return out;
}

const J = index(AasJsonization);
const C = index(AasConstants);
const T = index(AasTypes);
const S = index(AasStringification);

function describe(e: unknown): string {
  if (e instanceof Error) {
    return `${e.name}: ${e.message}`;
  }
  return String(e);
}

function enumToString(enumName: string, value: unknown): unknown {
  const f = S.get("must" + canon(enumName) + "tostring") as ((v: unknown) => string) | undefined;
  if (f === undefined) {
    return { missing: "must" + enumName + "ToString" };
  }
  return f(value);
}

function plain(value: unknown, kind: string, enumName: string | null): unknown {
  if (kind === "bytearray") {
    return { bytes: Array.from(value as Uint8Array) };
  }
  if (kind.startsWith("set_")) {
    const items: unknown[] = [];
    for (const x of value as Set<unknown>) {
      items.push(kind === "set_enum" ? enumToString(enumName as string, x) : x);
    }
    return items;
  }
  if (kind === "float" && typeof value === "number" && !Number.isFinite(value)) {
    return { nonfinite: String(value) };
  }
  return value;
}

const lines = fs.readFileSync(0, "utf8").split("\n").filter((ln) => ln.length > 0);
const manifest = JSON.parse(lines[0]);
const out: string[] = [];

{
  const constants: Record<string, unknown> = {};
  for (const c of manifest.constants) {
    try {
      if (!C.has(canon(c.name))) {
        constants[c.name] = { missing: true };
      } else {
        constants[c.name] = plain(C.get(canon(c.name)), c.kind, c.enum);
      }
    } catch (e) {
      constants[c.name] = { exception: describe(e) };
    }
  }
  const enums: Record<string, unknown> = {};
  for (const name of manifest.enums) {
    try {
      const over = T.get("over" + canon(name)) as (() => Iterable<unknown>) | undefined;
      const obj = T.get(canon(name)) as Record<string, unknown> | undefined;
      if (over === undefined || obj === undefined) {
        enums[name] = { missing: true };
        continue;
      }
      const lits: unknown[] = [];
      for (const lit of over()) {
        lits.push([String(obj[lit as string]), enumToString(name, lit)]);
      }
      enums[name] = lits;
    } catch (e) {
      enums[name] = { exception: describe(e) };
    }
  }
  out.push(JSON.stringify({ constants, enums }));
}

for (const line of lines.slice(1)) {
  let res: unknown;
  try {
    const item = JSON.parse(line);
    const f = J.get(canon(item.cls) + "fromjsonable") as ((j: unknown) => any) | undefined;
    if (f === undefined) {
      res = { ok: "missing", text: `no ${item.cls}FromJsonable` };
    } else {
      const either = f(item.doc);
      if (either.error !== null) {
        res = { ok: false, msg: String(either.error.message), path: String(either.error.path) };
      } else {
        const instance = either.mustValue();
        const json = AasJsonization.toJsonable(instance);
        const errors: unknown[] = [];
        for (const error of AasVerification.verify(instance)) {
          const segs: unknown[] = [];
          for (const seg of error.path.segments) {
            if (seg instanceof AasVerification.PropertySegment) {
              segs.push(seg.name);
            } else {
              segs.push((seg as AasVerification.IndexSegment).index);
            }
          }
          errors.push([segs, error.message]);
        }
        res = { ok: true, json, errors };
      }
    }
  } catch (e) {
    res = { ok: "exception", text: describe(e) };
  }
  let text: string;
  try {
    text = JSON.stringify(res);
  } catch (e) {
    text = JSON.stringify({ ok: "exception", text: "stringify: " + describe(e) });
  }
  out.push(text);
}
fs.writeFileSync(1, out.join("\n") + "\n");
