#!/usr/bin/env python3
"""Store a confirmed seeded change: keep_seed.py <seed-id> <PID> <patch> <demo> <detected: yes|no|by:<check>> <needs text...>"""
import json, pathlib, shutil, sys

sid, pid, patch, demo, detected = sys.argv[1:6]
needs = " ".join(sys.argv[6:])
d = pathlib.Path(__file__).resolve().parent.parent / "seeded" / sid
d.mkdir(parents=True, exist_ok=True)
shutil.copy(patch, d / "patch.diff")
shutil.copy(demo, d / "demo.py")
notes = pathlib.Path(patch).parent / "notes.md"
if notes.exists():
    shutil.copy(notes, d / "notes.md")
meta = {
    "property": pid,
    "needs_to_manifest": needs,
    "detected": detected,
    "what_was_run": [
        f"tools/try_seed.sh {pid} seeded/{sid}/patch.diff seeded/{sid}/demo.py   # demo exits 0 on /repo, non-zero with the patch; check run with VERIF_REPO=<scratch worktree>",
        "pinned test-suite in the scratch worktree with the patch applied (see tests_with_patch)",
    ],
    "tests_with_patch": "pending",
}
(d / "meta.json").write_text(json.dumps(meta, indent=1) + "\n")
print("kept", d)
