// Parse TypeScript files with node's built-in type stripper (transform mode = full TS parser, swc).
// Usage: node tsparse.js [--decls] < list-of-paths (one per line)  -> one JSON object per line on stdout:
//   {"path": ..., "ok": true|false, "error": "...", "code": "...", "line": N, "frame": "..."}
"use strict";
const fs = require("node:fs");
const mod = require("node:module");
if (typeof mod.stripTypeScriptTypes !== "function") {
  process.stdout.write(JSON.stringify({ fatal: "node:module.stripTypeScriptTypes is not available in " + process.version }) + "\n");
  process.exit(3);
}
process.removeAllListeners("warning");
process.on("warning", () => {});
const paths = fs.readFileSync(0, "utf8").split("\n").filter((p) => p.length > 0);
for (const p of paths) {
  let out;
  try {
    const code = fs.readFileSync(p, "utf8");
    mod.stripTypeScriptTypes(code, { mode: "transform", sourceUrl: "SRC" });
    out = { path: p, ok: true };
  } catch (e) {
    // the stack starts with "<sourceUrl>:<line>" and a code frame
    const stack = String(e && e.stack);
    const m = /^SRC:(\d+)\n([^\n]*)/.exec(stack);
    out = {
      path: p, ok: false, code: String(e && e.code), error: String(e && e.message).slice(0, 600),
      line: m ? Number(m[1]) : 0, frame: m ? m[2].slice(0, 200) : "",
    };
  }
  process.stdout.write(JSON.stringify(out) + "\n");
}
