"""
C09: generate, build and run the TypeScript / Java / C++ SDK of a model with the C09 drivers.

``run_target(target, spec, text, corpus, base)`` returns one of

* ("ok", [meta, result, result, ...])            -- parsed driver output
* ("skipped", reason)                            -- generator refused/crashed (C02) or no toolchain
* ("broken", [(bucket-suffix, message), ...])    -- generated SDK does not build/load or the driver died
"""
from __future__ import annotations

import concurrent.futures
import json
import os
import pathlib
import re
import shutil
import subprocess
from typing import Any, Dict, List, Optional, Tuple

from vlib import runner, sut
from vlib.mmgen import Spec

VERIF = pathlib.Path(__file__).resolve().parent.parent
DRIVERS = VERIF / "drivers"
NODE = os.environ.get("VERIF_NODE", "/root/.nvm/versions/node/v22.22.2/bin/node")
JACKSON_DIRS = [VERIF / "third_party" / "jackson",
                pathlib.Path("/opt/veriftools/tlapm/lib/tlapm/backends/Isabelle/contrib/scala-3.3.4/lib")]
CPP_INCLUDE = VERIF / "third_party" / "include"
CPP_JOBS = int(os.environ.get("VERIF_CPP_JOBS", "3"))


def toolchain(target: str) -> Optional[str]:
    """None if usable, else the reason."""
    if target == "typescript":
        return None if os.path.exists(NODE) else f"node not found at {NODE}"
    if target == "java":
        if not (shutil.which("javac") and shutil.which("java")):
            return "javac/java not found"
        return None if jackson_classpath() else "jackson jars not found"
    if target == "cpp":
        if not shutil.which("g++"):
            return "g++ not found"
        if not (CPP_INCLUDE / "nlohmann" / "json.hpp").exists() or not (CPP_INCLUDE / "tl" / "expected.hpp").exists():
            return "nlohmann/json.hpp or tl/expected.hpp not under third_party/include"
        return None
    return "unknown target"


def jackson_classpath() -> Optional[str]:
    for d in JACKSON_DIRS:
        jars = [d / f"jackson-{k}-2.15.1.jar" for k in ("core", "databind", "annotations")]
        if all(j.exists() for j in jars):
            return ":".join(str(j) for j in jars)
    return None


def _generate(text: str, target: str, base: pathlib.Path) -> Tuple[Optional[pathlib.Path], str]:
    try:
        rc, out, err, d = sut.generate(text, target, base, keep=True)
    except BaseException as e:  # noqa
        if type(e).__name__ in ("KeyboardInterrupt", "SystemExit", "MemoryError"):
            raise
        return None, f"{target}-generator-crash:{runner.exc_bucket(e)}"
    assert d is not None
    if rc != 0:
        shutil.rmtree(d, ignore_errors=True)
        last = err.strip().splitlines()[-1] if err.strip() else ""
        last = re.sub(r"At line \d+ and column \d+: ", "", last.strip())
        last = re.sub(r"\b[A-Z][a-z]+_\w+\b", "T", last)
        return None, f"{target}-generator-reported:{last[:80]}"
    return d, ""


def _parse_output(stdout: str, n_docs: int) -> Optional[List[Any]]:
    lines = [ln for ln in stdout.split("\n") if ln.strip()]
    if len(lines) != n_docs + 1:
        return None
    try:
        return [json.loads(ln) for ln in lines]
    except ValueError:
        return None


def _model_names(spec: Optional[Spec]) -> List[Tuple[str, str]]:
    """Spellings of the model's identifiers in generated code -> placeholder (longest first)."""
    if spec is None:
        return []
    out = []  # type: List[Tuple[str, str]]

    def variants(name: str) -> List[str]:
        parts = name.split("_")
        cap = "".join(p.capitalize() for p in parts)
        return [cap, parts[0].lower() + "".join(p.capitalize() for p in parts[1:]), name.lower(), name.upper(), name]

    for c in list(spec.classes) + list(spec.enums) + list(spec.cps):
        out += [(v, "T") for v in variants(c.name)]
    for c in spec.classes:
        for pr in c.props:
            out += [(v, "p") for v in variants(pr.name)]
    for c in spec.consts:
        out += [(v, "c") for v in variants(c.name)]
    for f in spec.fns:
        out += [(v, "f") for v in variants(f.name)]
    for e in spec.enums:
        for ln, _ in e.literals:
            out += [(v, "l") for v in variants(ln)]
    return sorted(set(out), key=lambda kv: (-len(kv[0]), kv[0]))


def _all_signatures(text: str, spec: Optional[Spec], limit: int = 6) -> List[Tuple[str, str]]:
    """Distinct signatures of every compiler error in ``text`` with an excerpt each."""
    lines = text.splitlines()
    out = []  # type: List[Tuple[str, str]]
    seen = set()  # type: set
    for i, ln in enumerate(lines):
        if " error: " in ln or ": error:" in ln:
            sig = _signature("\n".join(lines[i: i + 6]), spec)
            sig = re.sub(r"^[\w.]+:N(:N)?: ", "", sig)  # drop "File.java:N: " / "file.cpp:N:N: "
            if sig not in seen:
                seen.add(sig)
                out.append((sig, "\n".join(lines[max(0, i - 1): i + 8])))
                if len(out) >= limit:
                    break
    if not out:
        out.append((_signature(text, spec), text[:1500]))
    return out


def _signature(text: str, spec: Optional[Spec] = None) -> str:
    """Stable short signature of a tool's first error (paths, numbers and the model's own names blanked)."""
    lines = text.splitlines()
    for i, ln in enumerate(lines):
        if re.search(r"error|Error|exception|Exception", ln):
            # javac puts the interesting part of "cannot find symbol" two lines below
            if "cannot find symbol" in ln:
                for extra in lines[i + 1: i + 5]:
                    if extra.strip().startswith("symbol:"):
                        ln = ln + " " + extra.strip()
                        break
            ln = re.sub(r"/[^\s:]*/", "", ln)
            for name, ph in _model_names(spec):
                left = "" if name[:1].isupper() and not name.isupper() else r"(?<![A-Za-z])"
                ln = re.sub(left + re.escape(name) + r"(?![a-z])", ph, ln)
            ln = re.sub(r"\d+", "N", ln)
            return re.sub(r"\s+", " ", ln).strip()[:220]
    return re.sub(r"\s+", " ", text.strip()[:80])


# ---------------------------------------------------------------------------
# TypeScript
# ---------------------------------------------------------------------------


def run_typescript(spec: Spec, text: str, corpus: str, n_docs: int, base: pathlib.Path) -> Tuple[Any, ...]:
    d, why = _generate(text, "typescript", base)
    if d is None:
        return ("skipped", why)
    try:
        out = d / "out"
        shutil.copy(DRIVERS / "c09_driver.ts", out / "c09_driver.ts")
        p = subprocess.run(
            [NODE, "--experimental-transform-types", "--disable-warning=ExperimentalWarning",
             "--import", str(DRIVERS / "c09_hooks.mjs"), "c09_driver.ts"],
            input=corpus.encode("utf-8"), cwd=out, capture_output=True)
        stdout = p.stdout.decode("utf-8", "replace")
        res = _parse_output(stdout, n_docs) if p.returncode == 0 else None
        if res is None:
            err = p.stderr.decode("utf-8", "replace")
            return ("broken", [(f"sdk-does-not-load:{_signature(err, spec)}", f"rc={p.returncode}\n{err[-2500:]}\nstdout-tail={stdout[-300:]}")])
        return ("ok", res)
    finally:
        shutil.rmtree(d, ignore_errors=True)


# ---------------------------------------------------------------------------
# Java
# ---------------------------------------------------------------------------

_JAVA_DRIVER_DIR = {}  # type: Dict[str, pathlib.Path]


def _java_driver_classes(base: pathlib.Path, cp: str) -> Optional[pathlib.Path]:
    """Compile the (model-independent, reflective) driver once per process."""
    key = str(base)
    if key in _JAVA_DRIVER_DIR:
        return _JAVA_DRIVER_DIR[key]
    dd = base / "c09-java-driver"
    dd.mkdir(parents=True, exist_ok=True)
    p = subprocess.run(["javac", "-nowarn", "-proc:none", "-encoding", "UTF-8", "-cp", cp, "-d", str(dd),
                        str(DRIVERS / "C09Driver.java")], capture_output=True)
    if p.returncode != 0:
        raise runner.HarnessError("C09Driver.java does not compile: " + p.stderr.decode("utf-8", "replace")[-1500:])
    _JAVA_DRIVER_DIR[key] = dd
    return dd


def run_java(spec: Spec, text: str, corpus: str, n_docs: int, base: pathlib.Path) -> Tuple[Any, ...]:
    cp = jackson_classpath()
    assert cp is not None
    d, why = _generate(text, "java", base)
    if d is None:
        return ("skipped", why)
    try:
        drv = _java_driver_classes(base, cp)
        src = d / "out" / "src" / "main" / "java"
        files = sorted(str(f) for f in src.rglob("*.java"))
        classes = d / "classes"
        classes.mkdir()
        (d / "files.txt").write_text("\n".join(files) + "\n")
        p = subprocess.run(["javac", "-nowarn", "-proc:none", "-encoding", "UTF-8", "-J-XX:TieredStopAtLevel=1",
                            "-J-XX:+UseSerialGC", "-cp", cp, "-d", str(classes), f"@{d / 'files.txt'}"], capture_output=True)
        if p.returncode != 0:
            err = p.stderr.decode("utf-8", "replace")
            return ("broken", [(f"sdk-does-not-compile:{sig}", ex) for sig, ex in _all_signatures(err, spec)])
        p = subprocess.run(["java", "-XX:TieredStopAtLevel=1", "-XX:+UseSerialGC", "-Xss16m", "-Dfile.encoding=UTF-8",
                            "-cp", f"{classes}:{drv}:{cp}", "C09Driver", "verif.gen", str(classes)],
                           input=corpus.encode("utf-8"), capture_output=True)
        stdout = p.stdout.decode("utf-8", "replace")
        res = _parse_output(stdout, n_docs) if p.returncode == 0 else None
        if res is None:
            err = p.stderr.decode("utf-8", "replace")
            return ("broken", [(f"driver-died:{_signature(err)}", f"rc={p.returncode}\n{err[-2500:]}\nstdout-tail={stdout[-300:]}")])
        return ("ok", res)
    finally:
        shutil.rmtree(d, ignore_errors=True)


# ---------------------------------------------------------------------------
# C++
# ---------------------------------------------------------------------------


def run_cpp(spec: Spec, text: str, corpus: str, n_docs: int, base: pathlib.Path) -> Tuple[Any, ...]:
    from vlib import c09_cppdriver

    d, why = _generate(text, "cpp", base)
    if d is None:
        return ("skipped", why)
    try:
        out = d / "out"
        src = out / "src"
        driver = d / "c09_driver.cpp"
        driver.write_text(c09_cppdriver.render(spec), encoding="utf-8")
        units = [f for f in sorted(src.glob("*.cpp")) if f.name not in ("xmlization.cpp", "visitation.cpp")] + [driver]
        objs = d / "obj"
        objs.mkdir()
        flags = ["-std=c++17", "-O0", "-w", "-I", str(out / "include"), "-I", str(CPP_INCLUDE)]

        def compile_one(f: pathlib.Path) -> Tuple[pathlib.Path, int, str]:
            o = objs / (f.stem + ".o")
            p = subprocess.run(["g++", *flags, "-c", str(f), "-o", str(o)], capture_output=True)
            return f, p.returncode, p.stderr.decode("utf-8", "replace")

        with concurrent.futures.ThreadPoolExecutor(max_workers=CPP_JOBS) as ex:
            results = list(ex.map(compile_one, units))
        broken = []  # type: List[Tuple[str, str]]
        for f, rc, err in results:
            if rc != 0:
                kind = "driver-does-not-compile" if f == driver else "sdk-does-not-compile"
                broken += [(f"{kind}:{sig}", ex) for sig, ex in _all_signatures(err, spec, 1)]  # later g++ errors of a unit are cascades
        if broken:
            return ("broken", broken)
        exe = d / "c09_driver"
        p = subprocess.run(["g++", "-o", str(exe), *[str(objs / (f.stem + ".o")) for f in units], "-lexpat"], capture_output=True)
        if p.returncode != 0:
            err = p.stderr.decode("utf-8", "replace")
            return ("broken", [(f"sdk-does-not-link:{_signature(err)}", err[:3000])])
        p = subprocess.run([str(exe)], input=corpus.encode("utf-8"), capture_output=True)
        stdout = p.stdout.decode("utf-8", "replace")
        res = _parse_output(stdout, n_docs) if p.returncode == 0 else None
        if res is None:
            err = p.stderr.decode("utf-8", "replace")
            return ("broken", [(f"driver-died:rc={p.returncode}:{_signature(err)}", f"rc={p.returncode}\n{err[-2500:]}\nstdout-tail={stdout[-300:]}")])
        return ("ok", res)
    finally:
        shutil.rmtree(d, ignore_errors=True)


RUNNERS = {"typescript": run_typescript, "java": run_java, "cpp": run_cpp}
SHORT = {"typescript": "ts", "java": "java", "cpp": "cpp"}
