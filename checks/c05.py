"""C05 — Intermediate model faithfully resolves inheritance."""
from __future__ import annotations

import collections
import pathlib
import shutil
import sys
from typing import Any, Callable, Dict, List, Sequence, Tuple

from vlib import c05_gen, runner, sut

PID = "C05"
RULE = (
    "Hypothesis: vlib.c05_gen.hspecs = a vlib.mmgen model (enumeration, constants, pattern functions, constrained "
    "primitives, 1-8 classes (thorough: 1-14), properties of every type kind) whose class DAG is re-wired into deep chains / "
    "dense DAGs / planted diamonds (P(diamond) ~40 %), whose constrained primitives are re-wired into DAGs (one primitive, "
    "planted diamonds), with typed invariants added on the final hierarchy, implementation-specific and understood "
    "methods on classes that are not inherited over two paths, with_model_type=True on a random member of every "
    "hierarchy that needs dispatch (root or middle), explicit with_model_type=False where nobody sets True, and a random "
    "linear extension of 'bases first' as declaration order. Oracle: reference model computed from the spec graph "
    "(transitive closure, inverse, concrete subset, ancestors-first member lists, setting propagation) compared with the "
    "symbol table of run.load_model: inheritances, ancestors/descendants/concrete_descendants (set equality and no "
    "duplicates, separately), *_id_set == ids of the listed objects, properties/invariants/methods (same set incl. "
    "declaring class, no duplicates, inherited before own, declaration order per declaring class), inlined_statements only "
    "AssignArgument and every property assigned exactly once, interface <=> abstract or has descendants, topological order "
    "complete/duplicate-free/bases first, with_model_type == value set in self-or-ancestors; same for constrained "
    "primitives plus constrainee. Non-trivial = accepted model with a class or constrained primitive having >= 2 "
    "ancestors; distinct by model text."
)
ASSUMPTIONS = [
    "the generator's models are valid by construction; a rejection is generator health (exit 2 below 90 % acceptance), never a violation",
    "an exception escaping from aas_core_codegen/intermediate/ on such a model is reported here (bucket raises:...), "
    "other front-end crashes belong to C01 and are counted as excluded",
    "'declaration order' of invariants is either the textual order of the decorators or its exact reverse "
    "(decorators are applied bottom-up; the property does not fix the direction)",
    "members are identified by (declaring class, name) resp. (declaring class, invariant description); descriptions are unique by construction",
    "methods inherited over two paths are refused by the front end (documented in _second_pass_to_stack_methods_in_place), "
    "so methods are only declared on classes that no class inherits over two of its bases",
    "ancestors-first is asserted as: every inherited member precedes every own member (design (b)); no order between "
    "unrelated ancestors is asserted",
]

Fail = Callable[[str, str], None]


def _names(xs: Sequence[Any]) -> List[str]:
    return [str(x.name) for x in xs]


def _dups(xs: Sequence[Any]) -> List[Any]:
    return sorted(k for k, v in collections.Counter(xs).items() if v > 1)


def _closure(prefix: str, name: str, obj: Any, bases: List[str], anc: List[str], desc: List[str],
             by_name: Dict[str, Any], fail: Fail) -> None:
    got = _names(obj.inheritances)
    if sorted(got) != sorted(bases):
        fail(f"{prefix}inheritances:wrong", f"{name}: inheritances {got} != declared bases {bases}")
    for what, lst, want, idset in (
        ("ancestors", obj.ancestors, anc, obj.ancestor_id_set),
        ("descendants", obj.descendants, desc, obj.descendant_id_set),
    ):
        got = _names(lst)
        if _dups(got):
            fail(f"{prefix}{what}:duplicates", f"{name}.{what} == {got} (reference: {sorted(want)})")
        if set(got) != set(want):
            fail(f"{prefix}{what}:wrong-set", f"{name}.{what} == {got} but the closure of the declared bases gives {sorted(want)}")
        if set(idset) != {id(x) for x in lst} or any(by_name.get(str(x.name)) is not x for x in lst):
            fail(f"{prefix}{what[:-1]}_id_set:disagrees", f"{name}: id set has {len(idset)} entries, list {got}")


def _members(prefix: str, what: str, name: str, got: List[Tuple[str, str]], want: List[Tuple[str, str]],
             declared: Dict[str, List[str]], either_direction: bool, fail: Fail) -> None:
    """``got``/``want``: (declaring class, member identity) in list order."""
    if _dups(got):
        fail(f"{prefix}{what}:duplicates", f"{name}.{what}: {_dups(got)} listed more than once in {got}")
    if set(got) != set(want):
        fail(f"{prefix}{what}:wrong-set",
             f"{name}.{what}: missing {sorted(set(want) - set(got))}, unexpected {sorted(set(got) - set(want))}")
        return
    seen_own = False
    for a, m in got:
        if a == name:
            seen_own = True
        elif seen_own:
            fail(f"{prefix}{what}:inherited-after-own", f"{name}.{what} == {got}")
            break
    for a in sorted({a for a, _ in got}):
        seq = list(dict.fromkeys(m for b, m in got if b == a))
        decl = declared[a]
        if seq != decl and not (either_direction and seq == list(reversed(decl))):
            fail(f"{prefix}{what}:declaration-order", f"{name}.{what} of {a}: {seq} but declared {decl}")


def compare(h: c05_gen.HSpec, symtab: Any) -> List[Tuple[str, str]]:
    fails = []  # type: List[Tuple[str, str]]

    def fail(bucket: str, msg: str) -> None:
        fails.append((bucket, msg))

    spec = h.spec
    ref = c05_gen.Ref(h)

    # ---- classes ----
    by_name = {str(c.name): c for c in symtab.classes}
    if len(symtab.classes) != len(by_name) or sorted(by_name) != sorted(c.name for c in spec.classes):
        fail("classes:wrong-set", f"{_names(symtab.classes)} != {[c.name for c in spec.classes]}")
        return fails
    decl_props = {c.name: [p.name for p in c.props] for c in spec.classes}
    decl_invs = {c.name: [i.desc for i in c.invs] for c in spec.classes}
    decl_meths = {c.name: [m.name for m in h.methods.get(c.name, [])] for c in spec.classes}
    for c in spec.classes:
        n = c.name
        ic = by_name[n]
        _closure("", n, ic, c.bases, ref.ancestors(n), ref.descendants(n), by_name, fail)
        got = _names(ic.concrete_descendants)
        want = ref.concrete_descendants(n)
        if _dups(got):
            fail("concrete_descendants:duplicates", f"{n}.concrete_descendants == {got}")
        if set(got) != set(want):
            fail("concrete_descendants:wrong-set", f"{n}.concrete_descendants == {got}, reference {want}")
        if set(ic.concrete_descendant_id_set) != {id(x) for x in ic.concrete_descendants}:
            fail("concrete_descendant_id_set:disagrees", f"{n}: {got}")
        _members("", "properties", n, [(str(p.specified_for.name), str(p.name)) for p in ic.properties],
                 ref.props(n), decl_props, False, fail)
        _members("", "invariants", n, [(str(i.specified_for.name), str(i.description)) for i in ic.invariants],
                 ref.invs(n), decl_invs, True, fail)
        _members("", "methods", n, [(str(m.specified_for.name), str(m.name)) for m in ic.methods],
                 ref.methods(n), decl_meths, False, fail)
        # in-lined constructor
        stmts = list(ic.constructor.inlined_statements)
        kinds = sorted({type(s).__name__ for s in stmts} - {"AssignArgument"})
        if kinds:
            fail("constructor:not-inlined", f"{n}: inlined_statements contain {kinds}")
        else:
            assigned = [str(s.name) for s in stmts]
            allp = [m for _, m in ref.props(n)]
            if _dups(assigned):
                fail("constructor:assigned-more-than-once", f"{n}: in-lined constructor assigns {assigned}")
            if set(assigned) != set(allp):
                fail("constructor:wrong-assignments",
                     f"{n}: assigned {assigned}, properties {allp}")
        # interface
        need = c.abstract or bool(ref.descendants(n))
        if need and ic.interface is None:
            fail("interface:missing", f"{n}: abstract={c.abstract} descendants={ref.descendants(n)} but no interface")
        if not need and ic.interface is not None:
            fail("interface:unexpected", f"{n}: concrete without descendants has an interface")
        # serialization setting
        gotw = ic.serialization.with_model_type if ic.serialization is not None else None
        if gotw is not ref.with_model_type(n):
            setters = [x for x in ref.lineage(n) if spec.cls(x).with_model_type]
            fail("with_model_type:wrong", f"{n}: with_model_type == {gotw!r}, set to True in {setters}, explicit False in "
                                          f"{[x for x in ref.lineage(n) if x in h.wmt_false]}")

    # ---- constrained primitives ----
    cp_by_name = {str(c.name): c for c in symtab.constrained_primitives}
    if len(symtab.constrained_primitives) != len(cp_by_name) or sorted(cp_by_name) != sorted(c.name for c in spec.cps):
        fail("cp:wrong-set", f"{_names(symtab.constrained_primitives)} != {[c.name for c in spec.cps]}")
        return fails
    decl_cp_invs = {c.name: [i.desc for i in c.invs] for c in spec.cps}
    for cp in spec.cps:
        n = cp.name
        icp = cp_by_name[n]
        _closure("cp-", n, icp, cp.bases, ref.cp_ancestors(n), ref.cp_descendants(n), cp_by_name, fail)
        _members("cp-", "invariants", n, [(str(i.specified_for.name), str(i.description)) for i in icp.invariants],
                 ref.cp_invs(n), decl_cp_invs, True, fail)
        gotp = str(getattr(icp.constrainee, "value", icp.constrainee))
        if gotp != ref.cp_prim(n):
            fail("cp-constrainee:wrong", f"{n}: constrainee {gotp}, reference {ref.cp_prim(n)}")

    # ---- topological order ----
    topo = _names(symtab.our_types_topologically_sorted)
    want_all = [c.name for c in spec.classes] + [c.name for c in spec.cps]
    if _dups(topo):
        fail("topological:duplicates", f"{topo}")
    if set(want_all) - set(topo):
        fail("topological:incomplete", f"missing {sorted(set(want_all) - set(topo))} in {topo}")
    if set(topo) - set(want_all):
        fail("topological:unexpected-entry", f"{sorted(set(topo) - set(want_all))} in {topo}")
    pos = {}  # type: Dict[str, int]
    for i, t in enumerate(topo):
        pos.setdefault(t, i)
    for n, bases in [(c.name, c.bases) for c in spec.classes] + [(c.name, c.bases) for c in spec.cps]:
        for b in bases:
            if n in pos and b in pos and pos[b] > pos[n]:
                fail("topological:base-after-derived", f"{b} (base) comes after {n} in {topo}")
    return fails


C05_FILES = ("intermediate/",)


def evaluate(h: c05_gen.HSpec, base: pathlib.Path) -> Tuple[str, List[Tuple[str, str]], str]:
    """-> (status accepted|rejected|crash, failures, detail)."""
    text = c05_gen.render(h)
    try:
        symtab, _, err = sut.load_text(text, base)
    except RecursionError:
        return "crash", [], "RecursionError"
    except BaseException as e:  # noqa
        if type(e).__name__ in ("KeyboardInterrupt", "SystemExit", "MemoryError"):
            raise
        b = runner.exc_bucket(e)
        where = b.split("@", 1)[-1]
        if where.startswith(C05_FILES):
            return "crash", [(f"raises:{b}", runner.exc_text(e))], b
        return "crash", [], b
    if err is not None:
        return "rejected", [], str(err)[:600]
    try:
        return "accepted", compare(h, symtab), ""
    except Exception as e:  # noqa: a symbol table that cannot even be read
        return "accepted", [(f"symbol-table-unreadable:{type(e).__name__}", runner.exc_text(e))], ""


def classify(h: c05_gen.HSpec) -> Tuple[bool, List[str]]:
    spec = h.spec
    ref = c05_gen.Ref(h)
    cls = [f"shape:{h.shape}", f"cp-shape:{h.cp_shape}"]
    depth = max((ref.depth(c.name) for c in spec.classes), default=0)
    cls.append(f"depth:{min(depth, 8)}")
    if depth >= 3:
        cls.append("depth>=3")
    tops = c05_gen.diamond_tops(spec)
    if tops:
        cls.append("diamond")
        if any(spec.cls(t).props for t in tops):
            cls.append("diamond-with-properties-on-top")
        if any(spec.cls(t).invs for t in tops):
            cls.append("diamond-with-invariants-on-top")
    roots = [c for c in spec.classes if not c.bases]
    if len(roots) >= 2:
        cls.append("several-roots")
    if any(len(c.bases) >= 2 for c in spec.classes):
        cls.append("multiple-inheritance")
    if any(c.abstract for c in spec.classes):
        cls.append("has-abstract")
    if any((not c.abstract) and ref.descendants(c.name) for c in spec.classes):
        cls.append("concrete-with-descendants")
    if any(len(ref.methods(c.name)) > len(h.methods.get(c.name, [])) for c in spec.classes):
        cls.append("methods-inherited")
    if any(len(ref.invs(c.name)) > len(c.invs) for c in spec.classes):
        cls.append("invariants-inherited")
    if any(c.with_model_type and not c.bases and ref.descendants(c.name) for c in spec.classes):
        cls.append("wmt-setter-at-root")
    if any(c.with_model_type and c.bases and ref.descendants(c.name) for c in spec.classes):
        cls.append("wmt-setter-in-the-middle")
    if h.wmt_false:
        cls.append("wmt-explicit-false")
    cpd = max((ref.cp_depth(c.name) for c in spec.cps), default=0)
    if cpd >= 1:
        cls.append("cp-chain")
    if cpd >= 2:
        cls.append("cp-depth>=2")
    if c05_gen.cp_diamond_tops(spec):
        cls.append("cp-diamond")
    if any(len(ref.cp_invs(c.name)) > len(c.invs) for c in spec.cps):
        cls.append("cp-invariants-inherited")
    grouped = [k for k, _ in spec.order]
    if grouped != sorted(grouped, key=["enum", "fn", "cp", "const", "class"].index):
        cls.append("interleaved-declaration-order")
    nt = any(len(ref.ancestors(c.name)) >= 2 for c in spec.classes) or any(
        len(ref.cp_ancestors(c.name)) >= 2 for c in spec.cps)
    return nt, cls


def shard(ctx: runner.Ctx) -> None:
    n = ctx.n(4_000, 200_000)
    ho = c05_gen.HOpts() if ctx.quick else c05_gen.HOpts(max_classes=14, max_cps=8)

    def one(h: c05_gen.HSpec) -> None:
        status, fails, detail = evaluate(h, ctx.scratch)
        nt, cls = classify(h)
        cls.append(status)
        if status == "crash" and not fails:
            ctx.exclude(f"front-end-crash(C01):{detail}")
        if status == "rejected":
            ctx.notes["rejected"] = ctx.notes.get("rejected", 0) + 1
            if len([k for k in ctx.notes if k.startswith("rejected-sample")]) < 1:
                ctx.notes["rejected-sample: " + detail[:300]] = 1
        text = c05_gen.render(h)
        ctx.case(nt and status == "accepted", key=text,
                 sample={"classes": {c.name: c.bases for c in h.spec.classes},
                         "constrained_primitives": {c.name: c.bases or [c.prim] for c in h.spec.cps},
                         "with_model_type": [c.name for c in h.spec.classes if c.with_model_type],
                         "order": [nm for _, nm in h.spec.order]},
                 classes=cls)
        if fails:
            case = c05_gen.to_json(h)
            for b, m in fails:
                ctx.fail(b, case, m)

    runner.hyp_run(c05_gen.hspecs(ho), one, n, ctx.seed)


def replay(case: Any) -> List[Tuple[str, str]]:
    try:
        h = c05_gen.from_json(case)
        if not c05_gen.consistent(h):
            return []
        c05_gen.render(h)
    except Exception:  # noqa: structural shrinking produced something that is not a spec
        return []
    base = runner.make_scratch("c05-replay")
    try:
        _, fails, _ = evaluate(h, base)
    finally:
        shutil.rmtree(base, ignore_errors=True)
    return fails


def _refs(t: Any, name: str) -> bool:
    while t is not None:
        if t.get("name") == name:
            return True
        t = t.get("item")
    return False


def _without_entity(case: Any, kind: str, name: str) -> Any:
    import copy

    c = copy.deepcopy(case)
    sp = c["spec"]
    key = {"class": "classes", "cp": "cps", "enum": "enums", "const": "consts", "fn": "fns"}[kind]
    sp[key] = [e for e in sp[key] if e["name"] != name]
    sp["order"] = [o for o in sp["order"] if not (o[0] == kind and o[1] == name)]
    if kind in ("class", "cp"):
        for e in sp[key]:
            e["bases"] = [b for b in e["bases"] if b != name]
    if kind in ("class", "cp", "enum"):
        for e in sp["classes"]:
            e["props"] = [p for p in e["props"] if not _refs(p["type"], name)]
    if kind == "enum":
        sp["consts"] = [k for k in sp["consts"] if k.get("enum") != name]
        sp["order"] = [o for o in sp["order"] if o[0] != "const" or any(k["name"] == o[1] for k in sp["consts"])]
    if kind == "const":
        for k in sp["consts"]:
            k["superset_of"] = [x for x in k.get("superset_of", []) if x != name]
    if kind == "class":
        c["methods"].pop(name, None)
        c["wmt_false"] = [x for x in c["wmt_false"] if x != name]
    return c


def shrink(case: Any, bucket: str, budget: float) -> Any:
    """Spec-aware greedy minimisation: drop invariants, entities, properties, base edges, settings."""
    import copy
    import time

    t_end = time.time() + budget
    scratch = runner.make_scratch("c05-shrink")
    runner.isolate_tmp(scratch)

    def ok(c: Any) -> bool:
        if time.time() > t_end:
            return False
        try:
            return any(b == bucket for b, _ in replay(c))
        except Exception:  # noqa
            return False

    def candidates(c: Any) -> Any:
        sp = c["spec"]
        # wholesale simplifications first
        d = copy.deepcopy(c)
        for e in d["spec"]["classes"] + d["spec"]["cps"]:
            e["invs"] = []
        yield d
        d = copy.deepcopy(c)
        d["methods"] = {}
        yield d
        d = copy.deepcopy(c)
        for e in d["spec"]["classes"] + d["spec"]["cps"] + d["spec"]["enums"] + d["spec"]["consts"] + d["spec"]["fns"]:
            e["doc"] = None
        for e in d["spec"]["classes"]:
            for p_ in e["props"]:
                p_["doc"] = None
        d["spec"]["module_doc"] = None
        yield d
        for kind, key in (("const", "consts"), ("fn", "fns"), ("enum", "enums"), ("class", "classes"), ("cp", "cps")):
            for e in reversed(sp[key]):
                yield _without_entity(c, kind, e["name"])
        for ci, e in enumerate(sp["classes"]):
            for pi in range(len(e["props"])):
                d = copy.deepcopy(c)
                del d["spec"]["classes"][ci]["props"][pi]
                yield d
            for ii in range(len(e["invs"])):
                d = copy.deepcopy(c)
                del d["spec"]["classes"][ci]["invs"][ii]
                yield d
        for key in ("classes", "cps"):
            for ci, e in enumerate(sp[key]):
                for bi in range(len(e["bases"])):
                    d = copy.deepcopy(c)
                    del d["spec"][key][ci]["bases"][bi]
                    yield d
        for ci, e in enumerate(sp["classes"]):
            for field_, val in (("abstract", False), ("with_model_type", False), ("dbc", True), ("kw_super", False)):
                if e.get(field_) != val:
                    d = copy.deepcopy(c)
                    d["spec"]["classes"][ci][field_] = val
                    yield d
            for pi, p_ in enumerate(e["props"]):
                if p_["type"] != {"kind": "prim", "name": "int", "item": None}:
                    d = copy.deepcopy(c)
                    d["spec"]["classes"][ci]["props"][pi]["type"] = {"kind": "prim", "name": "int", "item": None}
                    yield d
        if c.get("wmt_false"):
            d = copy.deepcopy(c)
            d["wmt_false"] = []
            yield d
        grouped = sorted(sp["order"], key=lambda o: ["enum", "fn", "cp", "const", "class"].index(o[0]))
        if grouped != sp["order"]:
            d = copy.deepcopy(c)
            d["spec"]["order"] = grouped
            yield d

    try:
        improved = True
        while improved and time.time() < t_end:
            improved = False
            for cand in candidates(case):
                if cand == case:
                    continue
                if ok(cand):
                    case = cand
                    improved = True
                    break
    finally:
        shutil.rmtree(scratch, ignore_errors=True)
    return case


def health(m: Any, tier: str) -> Any:
    ev = max(1, m["evaluations"])
    acc = m["classes"].get("accepted", 0)
    crashed = sum(v for k, v in m["classes"].items() if k == "crash")
    if acc + crashed < 0.9 * ev:
        return f"only {acc} of {ev} generated models are accepted by the front end (generator unsound or the front end refuses valid hierarchies)"
    for k in ("diamond", "depth>=3", "cp-chain", "wmt-setter-in-the-middle", "methods-inherited", "invariants-inherited"):
        if m["classes"].get(k, 0) < 0.10 * ev:
            return f"class {k!r} holds only {m['classes'].get(k, 0)} of {ev} cases (< 10 %)"
    if m["nontrivial_n"] < 0.4 * ev:
        return f"only {m['nontrivial_n']} non-trivial cases of {ev}"
    return None


if __name__ == "__main__":
    runner.main(sys.modules[__name__])
