#!/usr/bin/env python3
"""For every seeded/<id> whose meta.json says tests 'pending': apply the patch in a scratch worktree,
run the pinned test-suite there and record the result in meta.json."""
import json, pathlib, re, subprocess, sys

VERIF = pathlib.Path(__file__).resolve().parent.parent
only = sys.argv[1:]
for d in sorted((VERIF / "seeded").iterdir()):
    mp = d / "meta.json"
    if not mp.exists() or (only and d.name not in only):
        continue
    meta = json.loads(mp.read_text())
    if meta.get("tests_with_patch") not in ("pending", None) and not only:
        continue
    wt = f"/tmp/wt/confirm-{d.name}"
    subprocess.run(["git", "-C", "/repo", "worktree", "remove", "--force", wt], capture_output=True)
    subprocess.run(["git", "-C", "/repo", "worktree", "add", "--detach", wt, "HEAD"], check=True, capture_output=True)
    try:
        r = subprocess.run(["git", "-C", wt, "apply", str(d / "patch.diff")], capture_output=True, text=True)
        if r.returncode != 0:
            meta["tests_with_patch"] = "patch does not apply on the current HEAD: " + r.stderr[:200]
        else:
            cmd = ["nice", "-n", "10", "/venv/bin/python", "-m", "pytest", "-q", "-p", "no:cacheprovider", "--timeout=6000",
                   "--continue-on-collection-errors", "-n", "6", "dev/tests"]
            r = subprocess.run(cmd, cwd=wt, env={"PYTHONPATH": wt, "PATH": "/venv/bin:/usr/bin:/bin", "HOME": "/root"},
                               capture_output=True, text=True)
            tail = r.stdout.strip().split("\n")[-1]
            failed = sorted(set(re.findall(r"^FAILED (\S+)", r.stdout, re.M)))
            meta["tests_with_patch"] = {"summary": tail, "failed": failed,
                                        "note": "Test_cpp::test_expected_aas_core_meta_v3 fails on the unchanged tree too (emptied golden pattern.cpp)"}
        mp.write_text(json.dumps(meta, indent=1) + "\n")
        print(d.name, meta["tests_with_patch"], flush=True)
    finally:
        subprocess.run(["git", "-C", "/repo", "worktree", "remove", "--force", wt], capture_output=True)
