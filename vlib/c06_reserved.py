"""
Reserved names of the meta-model language: a frozen copy of the documented lists (keywords of the target
languages, names used by the generated SDKs) taken from the pinned revision. The copy is deliberate: C06 samples
its reserved names from here, so a word that silently disappears from the implementation's list is noticed.
All entries are lower-case; a name is reserved when its lower-cased form is in the list.
"""

KEYWORDS_IN_MANY_IMPLEMENTATIONS = frozenset([
    'abort', 'abs', 'abstract', 'accept', 'access', 'across', 'after', 'agent', 'alias', 'aliased', 'align',
    'alignas', 'alignof', 'all', 'and', 'and_eq', 'andalso', 'any', 'array', 'as', 'asm', 'assert', 'assign',
    'async', 'at', 'atomic_cancel', 'atomic_commit', 'atomic_noexcept', 'attribute', 'auto', 'await', 'band',
    'base', 'become', 'begin', 'bitand', 'bitor', 'bnot', 'body', 'bool', 'boolean', 'bor', 'box', 'break', 'bsl',
    'bsr', 'bxor', 'byte', 'bytearray', 'bytes', 'case', 'cast', 'catch', 'cdouble', 'cent', 'cfloat', 'chan',
    'char', 'char16_t', 'char32_t', 'char8_t', 'check', 'checked', 'class', 'co_await', 'co_return', 'co_yield',
    'compl', 'concept', 'cond', 'const', 'const_cast', 'constant', 'consteval', 'constexpr', 'constinit',
    'constructor', 'continue', 'convert', 'crate', 'creal', 'create', 'current', 'dchar', 'debug', 'debugger',
    'decimal', 'declare', 'decltype', 'def', 'default', 'defer', 'deferred', 'del', 'delay', 'delegate', 'delete',
    'delta', 'deprecated', 'digits', 'div', 'do', 'double', 'dyn', 'dynamic_cast', 'elif', 'else', 'elseif',
    'elsif', 'end', 'ensure', 'entry', 'enum', 'event', 'except', 'exception', 'exit', 'expanded', 'explicit',
    'export', 'extends', 'extern', 'external', 'fallthrough', 'false', 'feature', 'final', 'finally', 'fixed',
    'float', 'fn', 'for', 'foreach', 'foreach_reverse', 'friend', 'from', 'frozen', 'fun', 'func', 'function',
    'generic', 'get', 'global', 'go', 'goto', 'idouble', 'if', 'ifloat', 'immutable', 'impl', 'implements',
    'implicit', 'implies', 'import', 'in', 'inherit', 'inline', 'inout', 'inspect', 'instanceof', 'int', 'integer',
    'interface', 'internal', 'invariant', 'ireal', 'is', 'lambda', 'lazy', 'let', 'like', 'limited', 'local',
    'lock', 'long', 'loop', 'macro', 'map', 'match', 'maybe', 'mixin', 'mod', 'module', 'move', 'mut', 'mutable',
    'namespace', 'native', 'new', 'nil', 'noexcept', 'none', 'nonlocal', 'not', 'not_eq', 'note', 'nothrow', 'null',
    'nullptr', 'number', 'object', 'obsolete', 'of', 'old', 'once', 'only', 'operator', 'or', 'or_eq', 'orelse',
    'others', 'out', 'override', 'overriding', 'package', 'params', 'pass', 'pragma', 'precursor', 'priv',
    'private', 'procedure', 'protected', 'pub', 'public', 'pure', 'raise', 'read_only', 'readonly', 'real',
    'receive', 'record', 'redefine', 'ref', 'reflexpr', 'register', 'reinterpret_cast', 'rem', 'rename', 'renames',
    'requeue', 'require', 'requires', 'rescue', 'retry', 'return', 'reverse', 'sbyte', 'scope', 'sealed', 'select',
    'self', 'separate', 'set', 'shared', 'short', 'signed', 'sizeof', 'some', 'stackalloc', 'static',
    'static_assert', 'static_cast', 'str', 'strictfp', 'string', 'struct', 'subtype', 'super', 'switch',
    'synchronized', 'tagged', 'task', 'template', 'terminate', 'then', 'this', 'thread_local', 'throw', 'throws',
    'trait', 'transient', 'true', 'try', 'tuple', 'typedef', 'typeid', 'typename', 'typeof', 'ubyte', 'ucent',
    'uint', 'ulong', 'unchecked', 'undefine', 'union', 'unittest', 'unsafe', 'unsigned', 'unsized', 'until', 'use',
    'ushort', 'using', 'var', 'variant', 'virtual', 'void', 'volatile', 'wchar', 'wchar_t', 'when', 'where',
    'while', 'with', 'xor', 'xor_eq', 'yield'
])

TYPE_NAMES_ONLY = frozenset([
    'aas', 'awaited', 'capitalize', 'constants', 'constructor_parameters', 'context', 'descent',
    'deserialization_error', 'enhanced', 'enhancement', 'error', 'errors', 'exclude', 'extract', 'iclass',
    'instance_type', 'iterator', 'itransformer_with_context', 'ivisitor', 'ivisitor_with_context', 'jsonization',
    'lowercase', 'model_type', 'non_nullable', 'omit', 'omit_this_parameter', 'parameters', 'partial', 'path',
    'pick', 'required', 'return_type', 'serialization_error', 'stringification', 'this_parameter_type', 'this_type',
    'transform', 'transformer', 'transformer_with_context', 'uncapitalize', 'uppercase', 'verification',
    'verification_error', 'visit', 'visitation', 'visitor', 'visitor_with_context'
])

MEMBER_NAMES_ONLY = frozenset([
    'descend', 'descend_once', 'enhancement', 'get_enhancement', 'get_model_type', 'model_type', 'property_name',
    'set_enhancement', 'set_model_type', 'transform', 'type_name'
])

RESERVED_TYPE_NAMES = KEYWORDS_IN_MANY_IMPLEMENTATIONS | TYPE_NAMES_ONLY
RESERVED_MEMBER_NAMES = KEYWORDS_IN_MANY_IMPLEMENTATIONS | MEMBER_NAMES_ONLY
# constants and verification functions must avoid both lists
RESERVED_CONSTANT_OR_FUNCTION_NAMES = RESERVED_TYPE_NAMES | RESERVED_MEMBER_NAMES
