"""
Hierarchy-heavy meta-models for C05 (wraps ``vlib.mmgen``; nothing here imports the repository).

``hspecs(HOpts)`` draws a ``mmgen`` spec *without* invariants, re-wires the class DAG and the
constrained-primitive DAG (deep chains, additional diamonds, several roots), repairs what the re-wiring
may have broken (instantiability, the ``with_model_type`` requirement), adds typed invariants on the final
hierarchy (``invgen``), sprinkles methods over classes which no descendant reaches over two paths, puts an
explicit ``with_model_type=False`` on some hierarchies which need no dispatch, and draws a new declaration
order which is a random linear extension of "bases first".

The additional information lives in ``HSpec`` (``spec`` + ``methods`` + ``wmt_false``); ``render`` gives the
text, ``to_json``/``from_json`` a JSON-able form for the replay files, ``Ref`` the reference model.
"""
from __future__ import annotations

import dataclasses
from dataclasses import dataclass, field
from typing import Any, Dict, List, Optional, Tuple

from hypothesis import strategies as st

from vlib import invgen, mmgen
from vlib.mmgen import CP, Cls, Const, Enm, Fn, Inv, Opts, Prop, Spec, TRef


@dataclass
class Meth:
    name: str
    kind: str  # impl | understood
    args: List[Tuple[str, str]]  # (name, annotation text)
    returns: Optional[str]
    body: str = "pass"


@dataclass
class HSpec:
    spec: Spec
    methods: Dict[str, List[Meth]] = field(default_factory=dict)  # class name -> own methods
    wmt_false: List[str] = field(default_factory=list)  # classes carrying an explicit with_model_type=False
    wmt_bare: List[str] = field(default_factory=list)  # classes carrying a bare ``@serialization()`` (sets nothing)
    shape: str = "asis"
    cp_shape: str = "asis"


@dataclass
class HOpts:
    max_classes: int = 8
    max_cps: int = 6
    max_props: int = 3
    max_invs: int = 2
    p_diamond: float = 0.6


# ---------------------------------------------------------------------------
# Strategy
# ---------------------------------------------------------------------------

METHOD_PREFIXES = ["do_", "compute_", "check_", "derive_", "update_"]
RETURNS = [("int", "return 4"), ("bool", "return True"), ("str", 'return "x"'), (None, "pass")]


def _add_base(spec: Spec, cls: Cls, base: str) -> None:
    """Add ``base`` to ``cls``; keep the base list free of a base listed together with its own ancestor."""
    if base == cls.name or base in spec.ancestors(cls.name) or cls.name in spec.ancestors(base):
        return
    anc = spec.ancestors(base)
    cls.bases = [b for b in cls.bases if b not in anc]
    cls.bases.append(base)
    index = {c.name: i for i, c in enumerate(spec.classes)}
    cls.bases.sort(key=lambda n: index[n])


def _cp_add_base(spec: Spec, cp: CP, base: str) -> None:
    if base == cp.name or base in spec.cp_ancestors(cp.name) or cp.name in spec.cp_ancestors(base):
        return
    anc = spec.cp_ancestors(base)
    cp.bases = [b for b in cp.bases if b not in anc]
    cp.bases.append(base)
    index = {c.name: i for i, c in enumerate(spec.cps)}
    cp.bases.sort(key=lambda n: index[n])


def diamond_tops(spec: Spec) -> set:
    """Classes which some class inherits over two of its direct bases."""
    out = set()
    for c in spec.classes:
        if len(c.bases) < 2:
            continue
        seen = {}  # type: Dict[str, int]
        for b in c.bases:
            for x in [b] + spec.ancestors(b):
                seen[x] = seen.get(x, 0) + 1
        out.update(x for x, k in seen.items() if k >= 2)
    return out


def cp_diamond_tops(spec: Spec) -> set:
    out = set()
    for c in spec.cps:
        if len(c.bases) < 2:
            continue
        seen = {}  # type: Dict[str, int]
        for b in c.bases:
            for x in [b] + spec.cp_ancestors(b):
                seen[x] = seen.get(x, 0) + 1
        out.update(x for x, k in seen.items() if k >= 2)
    return out


def _types_used(spec: Spec) -> set:
    used = set()

    def collect(t: TRef) -> None:
        if t.kind == "class":
            used.add(t.name)
        elif t.item is not None:
            collect(t.item)

    for c in spec.classes:
        for p in c.props:
            collect(p.type)
    return used


def effective_wmt(h: HSpec, name: str) -> bool:
    spec = h.spec
    return any(spec.cls(x).with_model_type for x in [name] + spec.ancestors(name))


def linear_extension(draw: Any, spec: Spec) -> List[Tuple[str, str]]:
    items = []  # type: List[Tuple[str, str]]
    items += [("enum", e.name) for e in spec.enums]
    items += [("fn", f.name) for f in spec.fns]
    items += [("cp", c.name) for c in spec.cps]
    items += [("const", c.name) for c in spec.consts]
    items += [("class", c.name) for c in spec.classes]
    mode = draw(st.integers(0, 3))
    if mode == 0:
        return items
    deps = {}  # type: Dict[Tuple[str, str], List[Tuple[str, str]]]
    for it in items:
        kind, name = it
        if kind == "class":
            deps[it] = [("class", b) for b in spec.cls(name).bases]
        elif kind == "cp":
            deps[it] = [("cp", b) for b in spec.cp(name).bases]
        elif kind == "const":
            c = next(c for c in spec.consts if c.name == name)
            deps[it] = [("const", s) for s in c.superset_of] + ([("enum", c.enum)] if c.enum else [])
        else:
            deps[it] = []
    remaining = list(items)
    placed = []  # type: List[Tuple[str, str]]
    done = set()  # type: set
    while remaining:
        ready = [it for it in remaining if all(d in done for d in deps[it])]
        if mode == 1:
            # "as late as Python allows": prefer the most recently unlocked entity (depth-first flavour)
            k = len(ready) - 1 if draw(st.integers(0, 2)) else draw(st.integers(0, len(ready) - 1))
        else:
            k = draw(st.integers(0, len(ready) - 1))
        pick = ready[k]
        remaining.remove(pick)
        placed.append(pick)
        done.add(pick)
    return placed


@st.composite
def hspecs(draw: Any, ho: HOpts = HOpts()) -> HSpec:
    docs = draw(st.sampled_from(["none", "none", "none", "plain"]))
    opts = Opts(max_classes=ho.max_classes, max_cps=ho.max_cps, max_props=ho.max_props, max_invs=ho.max_invs,
                p_diamond=ho.p_diamond, invariants="none", docs=docs, max_enums=1)
    min_classes = draw(st.sampled_from([1, 2, 4, 4, 5, 6]))
    min_classes = min(min_classes, ho.max_classes)
    spec = draw(mmgen.specs(opts).filter(lambda s: len(s.classes) >= min_classes))
    h = HSpec(spec)

    # ---- class DAG ----
    shape = draw(st.sampled_from(["asis", "chain", "chain", "dense", "dense", "diamond", "diamond", "diamond", "diamond"]))
    h.shape = shape
    n = len(spec.classes)
    if shape == "chain":
        # one or two long chains; the remaining classes keep their drawn bases
        stride = draw(st.sampled_from([1, 1, 1, 2]))
        for i in range(stride, n):
            if draw(st.floats(0, 1)) < 0.85:
                _add_base(spec, spec.classes[i], spec.classes[i - stride].name)
    elif shape == "dense":
        for i in range(2, n):
            k = draw(st.sampled_from([0, 1, 1, 2]))
            for _ in range(k):
                j = draw(st.integers(0, i - 1))
                _add_base(spec, spec.classes[i], spec.classes[j].name)

    elif shape == "diamond" and n >= 4:
        for _ in range(draw(st.integers(1, 2))):
            a, b1, b2, d = sorted(draw(st.lists(st.integers(0, n - 1), min_size=4, max_size=4, unique=True)))
            _add_base(spec, spec.classes[b1], spec.classes[a].name)
            _add_base(spec, spec.classes[b2], spec.classes[a].name)
            _add_base(spec, spec.classes[d], spec.classes[b1].name)
            _add_base(spec, spec.classes[d], spec.classes[b2].name)

    # abstract classes without a concrete descendant are legal as long as no property needs an instance of
    # them; half of them are kept (e.g. a concrete class whose only descendants are abstract)
    used = _types_used(spec)
    for c in spec.classes:
        if c.abstract and not spec.concrete_descendants(c.name):
            if c.name in used or any(a in used for a in spec.ancestors(c.name)) or draw(st.booleans()):
                c.abstract = False
    for c in spec.classes:
        if (not c.abstract and c.bases and not spec.descendants(c.name) and c.name not in used
                and not any(a in used for a in spec.ancestors(c.name)) and draw(st.floats(0, 1)) < 0.2):
            c.abstract = True  # an abstract leaf below (possibly concrete) parents
    mmgen._make_instantiable(spec)

    # ---- with_model_type: wherever dispatch is needed, plus the drawn extra settings ----
    for nm in sorted(_types_used(spec)):
        if spec.concrete_descendants(nm) and not effective_wmt(h, nm):
            cands = [nm] + spec.ancestors(nm)
            spec.cls(draw(st.sampled_from(cands))).with_model_type = True
    # an explicit False on hierarchies in which nobody sets True
    for c in spec.classes:
        if draw(st.floats(0, 1)) < 0.12:
            group = [c.name] + spec.ancestors(c.name) + spec.descendants(c.name)
            # every class below ``c`` may have further parents: they must not carry True either
            if not any(effective_wmt(h, x) for x in group):
                h.wmt_false.append(c.name)
    # a bare ``@serialization()`` sets nothing: the class keeps inheriting the setting of its ancestors
    for c in spec.classes:
        if not c.with_model_type and c.name not in h.wmt_false and draw(st.floats(0, 1)) < 0.15:
            h.wmt_bare.append(c.name)

    # ---- constrained primitives ----
    cp_shape = draw(st.sampled_from(["asis", "dag", "one-prim", "one-prim"]))
    h.cp_shape = cp_shape
    if cp_shape != "asis" and spec.cps:
        if cp_shape == "one-prim":
            prim = draw(st.sampled_from(sorted({c.prim for c in spec.cps})))
            for c in spec.cps:
                c.prim = prim
        for i, c in enumerate(spec.cps):
            same = [o for o in spec.cps[:i] if o.prim == c.prim]
            # a derived constrained primitive has the primitive of its bases
            c.bases = [b for b in c.bases if spec.cp(b).prim == c.prim]
            if same and draw(st.floats(0, 1)) < 0.8:
                for _ in range(draw(st.integers(1, min(3, len(same))))):
                    _cp_add_base(spec, c, same[draw(st.integers(0, len(same) - 1))].name)
        if cp_shape == "one-prim" and len(spec.cps) >= 4 and draw(st.booleans()):
            m = len(spec.cps)
            a, b1, b2, d = sorted(draw(st.lists(st.integers(0, m - 1), min_size=4, max_size=4, unique=True)))
            _cp_add_base(spec, spec.cps[b1], spec.cps[a].name)
            _cp_add_base(spec, spec.cps[b2], spec.cps[a].name)
            _cp_add_base(spec, spec.cps[d], spec.cps[b1].name)
            _cp_add_base(spec, spec.cps[d], spec.cps[b2].name)

    # ---- invariants on the final hierarchy ----
    iopts = dataclasses.replace(opts, invariants="general")
    invgen.add_invariants(draw, spec, iopts, set())

    # ---- methods (never on a class that is inherited over two paths: the front end refuses that) ----
    tops = diamond_tops(spec)
    taken = {p.name for c in spec.classes for p in c.props}
    for c in spec.classes:
        if c.name in tops:
            continue
        k = draw(st.sampled_from([0, 0, 1, 1, 2]))
        ms = []  # type: List[Meth]
        for _ in range(k):
            nm = draw(st.sampled_from(METHOD_PREFIXES)) + draw(st.sampled_from(mmgen.PROP_WORDS))
            base = nm
            j = 0
            while nm in taken:
                j += 1
                nm = f"{base}_{j}"
            taken.add(nm)
            ret, body = draw(st.sampled_from(RETURNS))
            args = [("x", "int")] if draw(st.booleans()) else []
            if draw(st.floats(0, 1)) < 0.7:
                ms.append(Meth(nm, "impl", args, ret, "pass"))
            else:
                ms.append(Meth(nm, "understood", args, ret, body))
        if ms:
            h.methods[c.name] = ms

    spec.order = linear_extension(draw, spec)
    return h


# ---------------------------------------------------------------------------
# Rendering
# ---------------------------------------------------------------------------


def _method_lines(m: Meth) -> List[str]:
    out = [""]
    if m.kind == "impl":
        out.append("    @implementation_specific")
    sig = ", ".join(["self"] + [f"{n}: {t}" for n, t in m.args])
    out.append(f"    def {m.name}({sig}) -> {m.returns if m.returns is not None else 'None'}:")
    out.append(f"        {m.body}")
    return out


def render_class(h: HSpec, cls: Cls) -> List[str]:
    lines = mmgen.render_class(h.spec, cls)
    if cls.name in h.wmt_false and not cls.with_model_type:
        for i, ln in enumerate(lines):
            if ln.startswith(f"class {cls.name}(") or ln.startswith(f"class {cls.name}:"):
                lines.insert(i, "@serialization(with_model_type=False)")
                break
    if cls.name in h.wmt_bare and not cls.with_model_type and cls.name not in h.wmt_false:
        for i, ln in enumerate(lines):
            if ln.startswith(f"class {cls.name}(") or ln.startswith(f"class {cls.name}:"):
                lines.insert(i, "@serialization()")
                break
    ms = h.methods.get(cls.name, [])
    if ms:
        for m in ms:
            lines.extend(_method_lines(m))
    return lines


def render(h: HSpec) -> str:
    spec = h.spec
    lines = []  # type: List[str]
    if spec.module_doc is not None:
        lines.extend(mmgen._doc(spec.module_doc, ""))
        lines.append("")
    lines.append(mmgen.HEADER)
    for kind, name in spec.order:
        if kind == "enum":
            lines.extend(mmgen.render_enum(spec.enum(name)))
        elif kind == "cp":
            lines.extend(mmgen.render_cp(spec.cp(name)))
        elif kind == "class":
            lines.extend(render_class(h, spec.cls(name)))
        elif kind == "const":
            lines.extend(mmgen.render_const(next(c for c in spec.consts if c.name == name)))
        elif kind == "fn":
            lines.extend(mmgen.render_fn(next(f for f in spec.fns if f.name == name)))
        lines.append("")
        lines.append("")
    lines.append(f"__version__ = {mmgen.pystr(spec.version)}")
    lines.append("")
    lines.append(f"__xml_namespace__ = {mmgen.pystr(spec.xml_namespace)}")
    return "\n".join(lines) + "\n"


# ---------------------------------------------------------------------------
# JSON
# ---------------------------------------------------------------------------


def to_json(h: HSpec) -> Any:
    return {
        "spec": h.spec.to_json(),
        "methods": {k: [dataclasses.asdict(m) for m in v] for k, v in h.methods.items()},
        "wmt_false": list(h.wmt_false),
        "wmt_bare": list(h.wmt_bare),
        "shape": h.shape,
        "cp_shape": h.cp_shape,
    }


def _tref(d: Any) -> TRef:
    return TRef(str(d["kind"]), str(d.get("name", "")), _tref(d["item"]) if d.get("item") is not None else None)


def _inv(d: Any) -> Inv:
    return Inv(str(d["body"]), str(d["desc"]), dict(d.get("tags") or {}))


def spec_from_json(d: Any) -> Spec:
    s = Spec()
    s.enums = [Enm(str(e["name"]), [(str(a), str(b)) for a, b in e["literals"]], e.get("doc")) for e in d.get("enums", [])]
    s.cps = [CP(str(c["name"]), str(c["prim"]), [str(b) for b in c["bases"]], [_inv(i) for i in c.get("invs", [])],
                c.get("doc")) for c in d.get("cps", [])]
    s.classes = [
        Cls(str(c["name"]), [str(b) for b in c["bases"]], bool(c["abstract"]),
            [Prop(str(p["name"]), _tref(p["type"]), p.get("doc")) for p in c.get("props", [])],
            [_inv(i) for i in c.get("invs", [])], bool(c.get("with_model_type", False)), c.get("doc"),
            bool(c.get("dbc", True)), bool(c.get("kw_super", False)))
        for c in d.get("classes", [])
    ]
    s.consts = [Const(str(c["name"]), str(c["kind"]), c.get("value"), c.get("enum"),
                      [str(x) for x in c.get("superset_of", [])], c.get("doc"), bool(c.get("positional", False)))
                for c in d.get("consts", [])]
    s.fns = [Fn(str(f["name"]), str(f["kind"]), [(str(a), _tref(t)) for a, t in f.get("args", [])], f.get("pattern"),
                f.get("pattern_lines"), f.get("body"), f.get("doc")) for f in d.get("fns", [])]
    s.order = [(str(k), str(nm)) for k, nm in d.get("order", [])]
    s.module_doc = d.get("module_doc")
    s.version = str(d.get("version", "V1.0"))
    s.xml_namespace = str(d.get("xml_namespace", "https://example.com/ns/1"))
    return s


def from_json(d: Any) -> HSpec:
    h = HSpec(spec_from_json(d["spec"]))
    for k, v in (d.get("methods") or {}).items():
        h.methods[str(k)] = [Meth(str(m["name"]), str(m["kind"]), [(str(a), str(t)) for a, t in m.get("args", [])],
                                  m.get("returns"), str(m.get("body", "pass"))) for m in v]
    h.wmt_false = [str(x) for x in d.get("wmt_false", [])]
    h.wmt_bare = [str(x) for x in d.get("wmt_bare", [])]
    h.shape = str(d.get("shape", "?"))
    h.cp_shape = str(d.get("cp_shape", "?"))
    return h


def consistent(h: HSpec) -> bool:
    """The spec is closed and well-founded (needed after structural shrinking of a replay case)."""
    spec = h.spec
    names = [e.name for e in spec.enums] + [c.name for c in spec.cps] + [c.name for c in spec.classes] + \
            [c.name for c in spec.consts] + [f.name for f in spec.fns]
    if len(set(names)) != len(names) or any(not n.isidentifier() for n in names):
        return False
    want = sorted([("enum", e.name) for e in spec.enums] + [("cp", c.name) for c in spec.cps]
                  + [("class", c.name) for c in spec.classes] + [("const", c.name) for c in spec.consts]
                  + [("fn", f.name) for f in spec.fns])
    if sorted(spec.order) != want:
        return False
    pos = {it: i for i, it in enumerate(spec.order)}
    cls_names = {c.name for c in spec.classes}
    cp_names = {c.name for c in spec.cps}
    for c in spec.classes:
        if len(set(c.bases)) != len(c.bases):
            return False
        for b in c.bases:
            if b not in cls_names or pos[("class", b)] >= pos[("class", c.name)]:
                return False
        if len({p.name for p in c.props}) != len(c.props):
            return False
    for c in spec.cps:
        if len(set(c.bases)) != len(c.bases) or c.prim not in mmgen.PRIMS:
            return False
        for b in c.bases:
            if b not in cp_names or pos[("cp", b)] >= pos[("cp", c.name)]:
                return False
    if any(k not in cls_names for k in h.methods) or any(k not in cls_names for k in h.wmt_false):
        return False
    return True


# ---------------------------------------------------------------------------
# Reference model (spec graph only)
# ---------------------------------------------------------------------------


class Ref:
    def __init__(self, h: HSpec) -> None:
        self.h = h
        self.spec = h.spec

    # classes
    def ancestors(self, n: str) -> List[str]:
        return self.spec.ancestors(n)

    def descendants(self, n: str) -> List[str]:
        return self.spec.descendants(n)

    def concrete_descendants(self, n: str) -> List[str]:
        return self.spec.concrete_descendants(n)

    def lineage(self, n: str) -> List[str]:
        return self.spec.ancestors(n) + [n]

    def props(self, n: str) -> List[Tuple[str, str]]:
        """(declaring class, property) of everything the class has, ancestors first."""
        return [(a, p.name) for a in self.lineage(n) for p in self.spec.cls(a).props]

    def invs(self, n: str) -> List[Tuple[str, str]]:
        return [(a, i.desc) for a in self.lineage(n) for i in self.spec.cls(a).invs]

    def methods(self, n: str) -> List[Tuple[str, str]]:
        return [(a, m.name) for a in self.lineage(n) for m in self.h.methods.get(a, [])]

    def with_model_type(self, n: str) -> bool:
        return effective_wmt(self.h, n)

    # constrained primitives
    def cp_ancestors(self, n: str) -> List[str]:
        return self.spec.cp_ancestors(n)

    def cp_descendants(self, n: str) -> List[str]:
        return [c.name for c in self.spec.cps if n in self.spec.cp_ancestors(c.name)]

    def cp_invs(self, n: str) -> List[Tuple[str, str]]:
        return [(a, i.desc) for a in self.spec.cp_ancestors(n) + [n] for i in self.spec.cp(a).invs]

    def cp_prim(self, n: str) -> str:
        c = self.spec.cp(n)
        while c.bases:
            c = self.spec.cp(c.bases[0])
        return c.prim

    # shape measures for the histograms
    def depth(self, n: str) -> int:
        c = self.spec.cls(n)
        return 0 if not c.bases else 1 + max(self.depth(b) for b in c.bases)

    def cp_depth(self, n: str) -> int:
        c = self.spec.cp(n)
        return 0 if not c.bases else 1 + max(self.cp_depth(b) for b in c.bases)
