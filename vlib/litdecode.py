"""
Spec-derived readers for literals of languages that have no compiler in the sandbox.

Nothing here shares code with ``aas_core_codegen``. Every function takes the *complete*
source text of one literal and either returns the denoted value or raises ``LitError``
(the text is not a well-formed literal / the source text is not acceptable to the
language). ``Unsupported`` means that this reader does not implement a construct — a
harness limitation, never evidence against the code under test.

C# — ECMA-334 (C# 6/7 standard) §6.3.2 "Line terminators", §6.4.5.6 "String literals"::

    Regular_String_Literal            : '"' Regular_String_Literal_Character* '"'
    Regular_String_Literal_Character  : Single_Regular_String_Literal_Character
                                      | Simple_Escape_Sequence
                                      | Hexadecimal_Escape_Sequence
                                      | Unicode_Escape_Sequence
    Single_Regular_String_Literal_Character
        : any character except " (U+0022), \\ (U+005C) and New_Line_Character
    New_Line_Character                : U+000D | U+000A | U+0085 | U+2028 | U+2029
    Simple_Escape_Sequence            : \\' \\" \\\\ \\0 \\a \\b \\f \\n \\r \\t \\v
    Hexadecimal_Escape_Sequence       : \\x HexDigit HexDigit? HexDigit? HexDigit?   (greedy)
    Unicode_Escape_Sequence           : \\u HexDigit{4} | \\U HexDigit{8}  (<= U+10FFFF;
                                        above U+FFFF -> two UTF-16 code units)

    The value is a sequence of UTF-16 code units; a supplementary character written
    directly in the source denotes its surrogate pair.

Go — The Go Programming Language Specification, "Source code representation",
"Semicolons", "Integer literals", "Rune literals", "String literals", "Composite
literals"::

    * source text is UTF-8; the NUL character may be disallowed, a byte order mark
      (U+FEFF) may be disallowed anywhere but at the very start of the file (the gc
      toolchain rejects both) -> rejected here;
    * interpreted_string_lit = `"` { unicode_value | byte_value } `"`; any character
      may appear between the quotes except newline (U+000A) and an unescaped `"`;
    * escapes: \\a \\b \\f \\n \\r \\t \\v \\\\ \\"  (\\' is illegal in strings);
      \\ooo exactly three octal digits, value <= 255, one *byte*;
      \\xHH exactly two hex digits, one *byte*;
      \\uHHHH exactly four, \\UHHHHHHHH exactly eight hex digits, a code point which must
      be <= 0x10FFFF and not a surrogate half, contributes its UTF-8 encoding;
      any other character after a backslash is illegal;
    * the value is a byte sequence; characters written directly contribute their UTF-8
      encoding;
    * a semicolon is inserted after a line's final token if that token is an identifier,
      a literal, one of the keywords break/continue/fallthrough/return, or one of
      ++ -- ) ] }  -> inside a composite literal a line may not end with an element that
      is not followed by a comma.
"""
from __future__ import annotations

from typing import List, Tuple


class LitError(Exception):
    """The text is not a well-formed literal of the language (compile error)."""


class Unsupported(Exception):
    """The reader does not implement the construct (harness limitation)."""


_HEX = "0123456789abcdefABCDEF"

# ---------------------------------------------------------------------------
# C#
# ---------------------------------------------------------------------------

_CS_NEWLINES = {0x000D, 0x000A, 0x0085, 0x2028, 0x2029}
_CS_SIMPLE = {
    "'": 0x27, '"': 0x22, "\\": 0x5C, "0": 0x00, "a": 0x07, "b": 0x08,
    "f": 0x0C, "n": 0x0A, "r": 0x0D, "t": 0x09, "v": 0x0B,
}


def _utf16_units(cp: int) -> List[int]:
    if cp < 0x10000:
        return [cp]
    cp -= 0x10000
    return [0xD800 + (cp >> 10), 0xDC00 + (cp & 0x3FF)]


def decode_csharp_regular_string(src: str) -> List[int]:
    """Return the UTF-16 code units denoted by the regular string literal ``src``."""
    if len(src) < 2 or src[0] != '"':
        raise LitError("does not start with a double quote")
    out = []  # type: List[int]
    i = 1
    n = len(src)
    while True:
        if i >= n:
            raise LitError("unterminated string literal")
        ch = src[i]
        cp = ord(ch)
        if ch == '"':
            if i != n - 1:
                raise LitError(f"literal ends at offset {i}, trailing text follows")
            return out
        if cp in _CS_NEWLINES:
            raise LitError(f"raw new-line character U+{cp:04X} in a regular string literal")
        if ch != "\\":
            out.extend(_utf16_units(cp))
            i += 1
            continue
        # escape sequence
        if i + 1 >= n:
            raise LitError("unterminated escape sequence")
        e = src[i + 1]
        if e in _CS_SIMPLE:
            out.append(_CS_SIMPLE[e])
            i += 2
        elif e == "x":
            j = i + 2
            while j < n and j < i + 6 and src[j] in _HEX:
                j += 1
            if j == i + 2:
                raise LitError("\\x without a hexadecimal digit")
            out.append(int(src[i + 2:j], 16))
            i = j
        elif e == "u":
            digits = src[i + 2:i + 6]
            if len(digits) != 4 or any(d not in _HEX for d in digits):
                raise LitError("\\u needs exactly four hexadecimal digits")
            out.append(int(digits, 16))
            i += 6
        elif e == "U":
            digits = src[i + 2:i + 10]
            if len(digits) != 8 or any(d not in _HEX for d in digits):
                raise LitError("\\U needs exactly eight hexadecimal digits")
            v = int(digits, 16)
            if v > 0x10FFFF:
                raise LitError("\\U value above U+10FFFF")
            out.extend(_utf16_units(v))
            i += 10
        else:
            raise LitError(f"unrecognized escape sequence \\{e}")


# ---------------------------------------------------------------------------
# Go
# ---------------------------------------------------------------------------

_GO_SIMPLE = {
    "a": 0x07, "b": 0x08, "f": 0x0C, "n": 0x0A, "r": 0x0D, "t": 0x09, "v": 0x0B,
    "\\": 0x5C, '"': 0x22,
}


def check_go_source_text(src: str) -> None:
    """Source-level restrictions (the literal is never at the start of a file)."""
    for ch in src:
        cp = ord(ch)
        if cp == 0:
            raise LitError("NUL character in the source text")
        if cp == 0xFEFF:
            raise LitError("byte order mark U+FEFF in the middle of the source text")
        if 0xD800 <= cp <= 0xDFFF:
            raise LitError("source text is not valid UTF-8 (surrogate)")


def decode_go_interpreted_string(src: str) -> bytes:
    """Return the byte sequence denoted by the interpreted string literal ``src``."""
    check_go_source_text(src)
    if len(src) < 2 or src[0] != '"':
        raise LitError("does not start with a double quote")
    out = bytearray()
    i = 1
    n = len(src)
    while True:
        if i >= n:
            raise LitError("string literal not terminated")
        ch = src[i]
        if ch == '"':
            if i != n - 1:
                raise LitError(f"literal ends at offset {i}, trailing text follows")
            return bytes(out)
        if ch == "\n":
            raise LitError("raw newline in an interpreted string literal")
        if ch != "\\":
            out.extend(ch.encode("utf-8"))
            i += 1
            continue
        if i + 1 >= n:
            raise LitError("escape sequence not terminated")
        e = src[i + 1]
        if e in _GO_SIMPLE:
            out.append(_GO_SIMPLE[e])
            i += 2
        elif e in "01234567":
            digits = src[i + 1:i + 4]
            if len(digits) != 3 or any(d not in "01234567" for d in digits):
                raise LitError("octal escape needs exactly three octal digits")
            v = int(digits, 8)
            if v > 255:
                raise LitError("octal escape value > 255")
            out.append(v)
            i += 4
        elif e == "x":
            digits = src[i + 2:i + 4]
            if len(digits) != 2 or any(d not in _HEX for d in digits):
                raise LitError("\\x needs exactly two hexadecimal digits")
            out.append(int(digits, 16))
            i += 4
        elif e in "uU":
            k = 4 if e == "u" else 8
            digits = src[i + 2:i + 2 + k]
            if len(digits) != k or any(d not in _HEX for d in digits):
                raise LitError(f"\\{e} needs exactly {k} hexadecimal digits")
            v = int(digits, 16)
            if v > 0x10FFFF or 0xD800 <= v <= 0xDFFF:
                raise LitError(f"\\{e} escape is an invalid Unicode code point")
            out.extend(chr(v).encode("utf-8"))
            i += 2 + k
        else:
            raise LitError(f"unknown escape sequence \\{e}")


def _go_tokens(src: str) -> List[Tuple[str, str]]:
    """Tokenise the small subset of Go that a byte-array composite literal uses."""
    check_go_source_text(src)
    toks = []  # type: List[Tuple[str, str]]
    i = 0
    n = len(src)

    def auto_semicolon() -> None:
        if toks and toks[-1][0] in ("int", "ident", "]", "}", ")"):
            toks.append((";", "\n"))

    while i < n:
        ch = src[i]
        if ch == "\n":
            auto_semicolon()
            i += 1
        elif ch in " \t\r":
            i += 1
        elif src.startswith("...", i):
            toks.append(("...", "..."))
            i += 3
        elif ch in "[]{},":
            toks.append((ch, ch))
            i += 1
        elif ch.isdigit():
            j = i
            while j < n and (src[j].isalnum() or src[j] == "_"):
                j += 1
            toks.append(("int", src[i:j]))
            i = j
        elif ch.isalpha() or ch == "_":
            j = i
            while j < n and (src[j].isalnum() or src[j] == "_"):
                j += 1
            toks.append(("ident", src[i:j]))
            i = j
        else:
            raise Unsupported(f"character {ch!r} in a composite literal")
    return toks


def _go_int(text: str) -> int:
    t = text
    if t[:2] in ("0x", "0X"):
        body = t[2:]
        if body == "" or any(c not in _HEX for c in body):
            if "_" in body:
                raise Unsupported("underscores in integer literals")
            raise LitError(f"malformed hexadecimal literal {text}")
        return int(body, 16)
    if t.isdigit() and (t == "0" or t[0] != "0"):
        return int(t, 10)
    raise Unsupported(f"integer literal form {text}")


def decode_go_byte_array(src: str) -> bytes:
    """Value of a composite literal ``[...]byte{ ... }`` (or ``[]byte{ ... }``)."""
    toks = _go_tokens(src)
    pos = 0

    def take(kind: str) -> str:
        nonlocal pos
        if pos >= len(toks):
            raise LitError(f"unexpected end of the literal, expected {kind}")
        k, v = toks[pos]
        if k != kind:
            if k == ";":
                raise LitError(
                    f"unexpected newline (automatic semicolon) in composite literal, expected {kind}"
                )
            raise LitError(f"unexpected {v!r}, expected {kind}")
        pos += 1
        return v

    take("[")
    if pos < len(toks) and toks[pos][0] == "...":
        pos += 1
    take("]")
    if take("ident") != "byte":
        raise Unsupported("element type other than byte")
    take("{")
    out = bytearray()
    while True:
        if pos < len(toks) and toks[pos][0] == "}":
            pos += 1
            break
        v = _go_int(take("int"))
        if v > 255:
            raise LitError(f"constant {v} overflows byte")
        out.append(v)
        if pos < len(toks) and toks[pos][0] == ",":
            pos += 1
            continue
        take("}")
        break
    if pos != len(toks):
        raise LitError("trailing tokens after the composite literal")
    return bytes(out)
