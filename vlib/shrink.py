"""Generic greedy shrinker for JSON-able cases (lists, dicts, strings, ints)."""
from __future__ import annotations

import copy
import time
from typing import Any, Callable, List, Tuple

Path = Tuple[Any, ...]


def _get(root: Any, path: Path) -> Any:
    for p in path:
        root = root[p]
    return root


def _set(root: Any, path: Path, value: Any) -> Any:
    if not path:
        return value
    root = copy.deepcopy(root)
    cur = root
    for p in path[:-1]:
        cur = cur[p]
    cur[path[-1]] = value
    return root


def _atomic(node: Any) -> bool:
    """An invariant of a generated spec (vlib.mmgen.Inv as JSON): its text and the tags that describe the text to
    the reference oracles belong together - it may be dropped as a whole, never edited inside."""
    if not isinstance(node, dict):
        return False
    # ... likewise a pattern function (pattern, the source lines spelling it, strings known to match)
    return ("body" in node and "tags" in node) or ("pattern_lines" in node and "pattern" in node)


def _paths(node: Any, prefix: Path = ()) -> List[Path]:
    out = [prefix]
    if _atomic(node):
        return [] if prefix else out
    if isinstance(node, list):
        for i, x in enumerate(node):
            out.extend(_paths(x, prefix + (i,)))
    elif isinstance(node, dict):
        for k, x in node.items():
            out.extend(_paths(x, prefix + (k,)))
    return out


def _candidates(value: Any) -> List[Any]:
    out = []  # type: List[Any]
    if isinstance(value, str) and value.count("\n") >= 3:
        # multi-line text: delete runs of lines first (much faster than characters)
        lines = value.split("\n")
        n = len(lines)
        chunk = n // 2
        while chunk >= 1:
            i = 0
            while i < n:
                out.append("\n".join(lines[:i] + lines[i + chunk:]))
                i += chunk
            chunk //= 2
    if isinstance(value, (list, str)) and len(value) > 0:
        n = len(value)
        chunk = n // 2
        while chunk >= 1:
            i = 0
            while i < n:
                out.append(value[:i] + value[i + chunk:])
                i += chunk
            chunk //= 2
        if isinstance(value, str):
            for i, ch in enumerate(value):
                if ch not in "a0 ":
                    out.append(value[:i] + "a" + value[i + 1:])
    elif isinstance(value, bool):
        if value:
            out.append(False)
    elif isinstance(value, int):
        if value != 0:
            out.extend([0, value // 2, value - 1 if value > 0 else value + 1])
    return out


def jshrink(case: Any, still_fails: Callable[[Any], bool], budget_s: float) -> Any:
    """Greedy structural minimisation; ``still_fails`` must be exception-safe."""
    t_end = time.time() + budget_s

    def ok(c: Any) -> bool:
        try:
            return bool(still_fails(c))
        except Exception:  # noqa: a broken candidate is simply not a reproduction
            return False

    improved = True
    while improved and time.time() < t_end:
        improved = False
        for path in _paths(case):
            if time.time() > t_end:
                break
            try:
                value = _get(case, path)
            except (KeyError, IndexError, TypeError):
                continue
            for cand in _candidates(value):
                if time.time() > t_end:
                    break
                new_case = _set(case, path, cand)
                if ok(new_case):
                    case = new_case
                    improved = True
                    break
            if improved:
                break
    return case
