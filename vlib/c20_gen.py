"""
C20 generator: meta-models whose *texts* are adversarial for the target languages.

Wraps ``vlib.mmgen``: a base spec is drawn without descriptions, then every kind of text is
replaced/added here:

* descriptions (module, class, constrained primitive, enumeration, enumeration literal, property,
  constant, verification function incl. ``:param:``/``:returns:``) written as reStructuredText that
  docutils accepts without warnings: summary, remark paragraphs, bullet lists, notes, literals,
  emphasis, roles resolved against the spec, URLs, ``:constraint X:`` fields;
* invariant messages, enumeration literal values, string constants and string-set constants.

Every planted fragment is preceded by a unique marker word (``mk<N>q``) so that the check can
show that the text reached a generated file. The texts are kept as *templates* with placeholders:
``render(ts, neutral=True)`` gives the same model with every fragment replaced by ``~`` (used to
tell text-caused failures from structural ones).

Two modes: ``single`` — all description fragments of a model come from one fragment class and one
form (text, literal, emphasis, url, text-at-end, constraint-id) and all value fragments from one class,
so that a failure can be attributed precisely; ``mixed`` — everything together, minus the classes
given by ``avoid`` (the triggers of already known defects).
"""
from __future__ import annotations

import copy
import dataclasses
import re
from typing import Any, Callable, Dict, List, Optional, Tuple

from hypothesis import strategies as st

from vlib import mmgen

# ---------------------------------------------------------------------------
# Fragments (the text as the *targets* see it, after docutils)
# ---------------------------------------------------------------------------

# terminators / openers of comments, docstrings and literals of the six languages, XML, templates
DOC_FRAGMENTS = [
    '"', "'", '""', '"""', "'''", '""""', "\\", "\\\\", '\\"', "\\'", "\\n", "\\u", "\\user", "\\u0041",
    "\\u000a", "\\u005c", "\\x", "\\0",
    "*/", "/*", "/**", "*/*", "//", "///", "/", "*",
    "<", ">", "&", "&amp;", "&lt;", "&#x0;", "&nbsp;", "&;", "-->", "<!--", "]]>", "<![CDATA[", "?>", "<?",
    "</summary>", "<summary>", "<b>", "<para>", "</remarks>", '<see cref="x"/>', "<a href='x'>",
    "{@link x}", "{@code x}", "{@", "@param", "@", "@see", "}", "{", "{}", "${x}", "${", "#{x}",
    "`", "```", "%s", "%", "{0}", "$", "#", "#:", "~", "^", "[", "]", "(", ")", "=", "+", "|", "_", "x_",
    "\u00e9", "\U0001F600", "\u00a0", "x" * 90, "a*/b", "a\\b", "??/", "??)", ":x:", "::", "...",
]

# the ones that most often matter at the very end of a description
DOC_END_FRAGMENTS = ['"', "'", "\\", '\\"', '\\\\"', "\\'", "*/", '""', '"""', "'''", "\\\\", "/", "*", "`", "<", "&", "{", "\\u", "??/",
                     "}", "@", "$", "${", ">", "%", "\\n", "x" * 90]

# fragments that may stand in an inline literal (``...``): no backtick; no leading/trailing blank
LITERAL_FRAGMENTS = [f for f in DOC_FRAGMENTS if "`" not in f and f.strip() == f and f != "\u00a0"] + [
    'a"b', "x*/y", "C:\\users\\x", "\\d+", "@code", "a}b", "a{b", "<x>", "&x;",
]

URL_FRAGMENTS = ["a*/b", "x?y=1&z=2", "q'r", "p(1)", "~u", "a%20b", "e/f//g", "h$i", "k@l", "m;n", "o=p+q", "r,s"]

# suffixes of constraint identifiers
CONSTRAINT_ID_FRAGMENTS = ["*/b", '"', "&y", "<x>", "\\", "'", "${x}", "@x", "{}", "-1.x"]

# texts of string literals (messages, enumeration values, constants); control characters and the
# new-line-like characters are the domain of C19 and are left out here
LIT_FRAGMENTS = [
    '"', "'", '""', '"""', "'''", "\\", "\\\\", '\\"', "\\'", "\\n", "\\t", "\\u0041", "\\u", "\\x4", "\\x41", "\\0",
    "*/", "/*", "//", "<", ">", "&", "&amp;", "]]>", "-->", "</", "${x}", "${", "#{x}", "{", "}", "{{", "}}", "{0}",
    "`", "%s", "%d", "%", "%%", "$", '$"', '@"', '"@', "#", "@", "?", "??/", "\u00e9", "\U0001F600", "\u00a0",
    "x" * 70, " ", "  ",
]

SAFE_WORDS = ["Represent", "some", "thing", "of", "the", "model", "value", "with", "items",
              "and", "a", "reference", "for", "testing", "purposes", "only", "an", "element"]

DOC_FORMS = ["text", "literal", "emphasis", "url", "text-at-end", "constraint-id"]

NEUTRAL = "~"


def fragment_class(fragment: str, form: str) -> str:
    """Coarse class of a fragment: what it could terminate or open in some target language."""
    f = fragment
    if form == "url":
        return "url"
    if "*/" in f:
        return "comment-close"
    if "\\u" in f:
        return "backslash-u"
    if '\\"' in f or "\\'" in f:
        return "backslash-quote"  # looks like an already escaped quote to a careless escaper
    if "\\" in f or "??/" in f:
        return "backslash"
    if '"' in f:
        return "double-quote"
    if "'" in f:
        return "single-quote"
    if "`" in f or "${" in f:
        return "template"
    if "<" in f or "&" in f or ">" in f:
        return "markup"
    if "@" in f:
        return "at"
    if "{" in f or "}" in f:
        return "brace"
    if "/" in f:
        return "slash"
    if f.strip() == "":
        return "blank"
    if len(f) >= 60:
        return "long-word"
    if any(ord(ch) > 0xFFFF for ch in f):
        return "astral"
    if any(ord(ch) > 0x7F for ch in f):
        return "non-ascii"
    if "%" in f:
        return "percent"
    return "other"


DANGEROUS_CLASSES = ["double-quote", "single-quote", "comment-close", "backslash", "backslash-quote", "backslash-u", "markup",
                     "template"]
DOC_CLASSES = sorted({fragment_class(f, "text") for f in DOC_FRAGMENTS})
VALUE_CLASSES = sorted({fragment_class(f, "value") for f in LIT_FRAGMENTS})


def rst_escape(fragment: str) -> str:
    """RST source whose parsed text is exactly ``fragment`` (every ASCII punctuation escaped)."""
    out = []
    for ch in fragment:
        if ch == " " or ch.isalnum() or ord(ch) > 0x7F:
            out.append(ch)
        else:
            out.append("\\" + ch)
    return "".join(out)


def py_docstring_source(value: str) -> str:
    """Source text to put between triple double-quotes so that the literal evaluates to ``value``."""
    out = []
    for ch in value:
        if ch == "\\":
            out.append("\\\\")
        elif ch == '"':
            out.append('\\"')
        elif ch == "\n" or 0x20 <= ord(ch) < 0x7F:
            out.append(ch)
        elif ord(ch) > 0xFFFF:
            out.append(f"\\U{ord(ch):08x}")
        else:
            out.append(f"\\u{ord(ch):04x}")
    return "".join(out)


# placeholders: <ESC>idx<END> -> rst-escaped fragment, <RAW>idx<END> -> fragment verbatim
_ESC, _RAW, _END = "\ue000", "\ue002", "\ue001"
_PLACEHOLDER_RE = re.compile("([\ue000\ue002])(\\d+)\ue001")


@dataclasses.dataclass
class Plant:
    marker: str
    fragment: str
    where: str  # module-doc, class-doc, ..., invariant-message, enumeration-literal-value, ...
    form: str  # text | literal | emphasis | url | text-at-end | constraint-id | value


def materialize(template: str, plants: List[Plant], neutral: bool) -> str:
    def sub(m: Any) -> str:
        frag = NEUTRAL if neutral else plants[int(m.group(2))].fragment
        return rst_escape(frag) if m.group(1) == _ESC else frag

    return _PLACEHOLDER_RE.sub(sub, template)


class Planter:
    """Hand out markers and placeholders; remember what was planted."""

    def __init__(self, avoid: Optional[Callable[[str, str, str], bool]] = None, doc_class: Optional[str] = None,
                 doc_form: Optional[str] = None, value_class: Optional[str] = None) -> None:
        self.plants = []  # type: List[Plant]
        self.avoid = avoid  # predicate (fragment, where, form) -> bool: do not generate
        self.doc_class = doc_class
        self.doc_form = doc_form
        self.value_class = value_class

    def pool(self, pool: List[str], where: str, form: str) -> List[str]:
        out = pool
        cls = self.value_class if form == "value" else self.doc_class
        if cls is not None:
            out = [f for f in out if fragment_class(f, form) == cls]
        if self.avoid is not None:
            out = [f for f in out if not self.avoid(f, where, form)]
        return out

    def form_allowed(self, form: str) -> bool:
        return self.doc_form is None or self.doc_form == form

    def plant(self, fragment: str, where: str, form: str) -> Tuple[str, str, str]:
        """(marker, placeholder of the escaped fragment, placeholder of the raw fragment)."""
        idx = len(self.plants)
        marker = f"mk{idx}q"
        self.plants.append(Plant(marker, fragment, where, form))
        return marker, f"{_ESC}{idx}{_END}", f"{_RAW}{idx}{_END}"


@dataclasses.dataclass
class DocCtx:
    """What a description may refer to."""

    where: str
    classes: List[str] = dataclasses.field(default_factory=list)  # names usable in :class:
    own_attrs: List[str] = dataclasses.field(default_factory=list)  # :attr:`x` in the enclosing type
    qualified_attrs: List[str] = dataclasses.field(default_factory=list)  # :attr:`Cls.x`
    consts: List[str] = dataclasses.field(default_factory=list)
    args: List[str] = dataclasses.field(default_factory=list)
    constraint_ids: List[Tuple[str, str]] = dataclasses.field(default_factory=list)  # (field form, role form)
    allow_constraints: bool = False
    returns: bool = False


def _word(draw: Any) -> str:
    return draw(st.sampled_from(SAFE_WORDS))


def _role(draw: Any, ctx: DocCtx) -> str:
    choices = []  # type: List[str]
    if ctx.classes:
        choices.append("class")
    if ctx.own_attrs:
        choices.append("own_attr")
    if ctx.qualified_attrs:
        choices.append("attr")
    if ctx.consts:
        choices.append("const")
    if ctx.args:
        choices.append("paramref")
    if ctx.constraint_ids and ctx.constraint_ids[-1][1] != "":
        choices.append("constraintref")
    if not choices:
        return _word(draw)
    which = draw(st.sampled_from(choices))
    prefix = draw(st.sampled_from(["", "", "~", "!"]))
    if which == "class":
        return f":class:`{prefix}{draw(st.sampled_from(ctx.classes))}`"
    if which == "own_attr":
        return f":attr:`{prefix}{draw(st.sampled_from(ctx.own_attrs))}`"
    if which == "attr":
        return f":attr:`{prefix}{draw(st.sampled_from(ctx.qualified_attrs))}`"
    if which == "const":
        return f":const:`{prefix}{draw(st.sampled_from(ctx.consts))}`"
    if which == "paramref":
        return f":paramref:`{draw(st.sampled_from(ctx.args))}`"
    # the role content is taken verbatim by the front end (no escapes are interpreted in the reference)
    return f":constraintref:`{ctx.constraint_ids[-1][1]}`"


def _inline(draw: Any, ctx: DocCtx, planter: Planter, adversarial: float) -> str:
    """One inline piece of RST (never starts or ends with a blank)."""
    r = draw(st.floats(0, 1))
    if r >= adversarial:
        return _word(draw)
    kind = draw(st.sampled_from(["text", "text", "text", "text", "literal", "literal", "emphasis", "role", "role", "url"]))
    if kind == "role":
        return _role(draw, ctx)
    if not planter.form_allowed(kind):
        if planter.doc_form in ("text", "literal", "emphasis", "url"):
            kind = planter.doc_form
        else:
            return _word(draw)
    if kind == "text":
        pool = planter.pool(DOC_FRAGMENTS, ctx.where, "text")
        if not pool:
            return _word(draw)
        marker, esc, _ = planter.plant(draw(st.sampled_from(pool)), ctx.where, "text")
        glue = draw(st.sampled_from([" ", " ", ""]))
        tail = draw(st.sampled_from(["", "", "end"]))
        return f"{marker}{glue}{esc}{tail}"
    if kind == "literal":
        pool = planter.pool(LITERAL_FRAGMENTS, ctx.where, "literal")
        if not pool:
            return _word(draw)
        marker, _, raw = planter.plant(draw(st.sampled_from(pool)), ctx.where, "literal")
        style = draw(st.integers(0, 2))
        if style == 0:
            return f"{marker} ``{raw}``"
        if style == 1:
            return f"``{marker}{raw}``"
        return f"``{raw}{marker}``"
    if kind == "emphasis":
        pool = planter.pool([f for f in DOC_FRAGMENTS if f.strip() == f], ctx.where, "emphasis")
        if not pool:
            return _word(draw)
        marker, esc, _ = planter.plant(draw(st.sampled_from(pool)), ctx.where, "emphasis")
        return f"*{marker} {esc}*"
    pool = planter.pool(URL_FRAGMENTS, ctx.where, "url")
    if not pool:
        return _word(draw)
    marker, _, raw = planter.plant(draw(st.sampled_from(pool)), ctx.where, "url")
    return f"https://example.com/{marker}/{raw}"


def _paragraph(draw: Any, ctx: DocCtx, planter: Planter, adversarial: float, end_fragment: bool) -> List[str]:
    """Lines of one paragraph; every line starts with a plain word."""
    n_lines = draw(st.sampled_from([1, 1, 1, 2, 3]))
    lines = []  # type: List[str]
    for li in range(n_lines):
        n = draw(st.integers(1, 7))
        parts = [_word(draw) if li > 0 else "Represent"]
        for _ in range(n):
            parts.append(_inline(draw, ctx, planter, adversarial))
        lines.append(" ".join(parts))
    pool = planter.pool(DOC_END_FRAGMENTS, ctx.where, "text-at-end") if (end_fragment and planter.form_allowed("text-at-end")) else []
    if pool:
        marker, esc, _ = planter.plant(draw(st.sampled_from(pool)), ctx.where, "text-at-end")
        glue = draw(st.sampled_from([" ", ""]))
        lines[-1] += f" {marker}{glue}{esc}"
    elif draw(st.booleans()):
        lines[-1] += "."
    return lines


def _indent(lines: List[str], prefix: str) -> List[str]:
    return [prefix + ln if ln else "" for ln in lines]


def description(draw: Any, ctx: DocCtx, planter: Planter, adversarial: float = 0.45) -> str:
    """The RST source (a template with placeholders) of one description."""
    n_remarks = draw(st.sampled_from([0, 0, 0, 1, 1, 2, 3]))
    n_constraints = draw(st.sampled_from([0, 0, 0, 1, 2])) if ctx.allow_constraints else 0
    if ctx.allow_constraints and planter.doc_form == "constraint-id":
        n_constraints = max(1, n_constraints)
    n_params = len(ctx.args) if (ctx.args and draw(st.booleans())) else 0
    with_returns = ctx.returns and draw(st.booleans())

    n_blocks = 1 + n_remarks + (1 if (n_constraints + n_params + (1 if with_returns else 0)) > 0 else 0)
    # where the description ends decides what the "end fragment" terminates
    end_here = draw(st.floats(0, 1)) < (0.9 if planter.doc_form == "text-at-end" else 0.4)
    blocks = []  # type: List[List[str]]

    def is_last() -> bool:
        return len(blocks) == n_blocks - 1

    blocks.append(_paragraph(draw, ctx, planter, adversarial, end_here and is_last()))
    for _ in range(n_remarks):
        kind = draw(st.sampled_from(["para", "para", "bullets", "note"]))
        last = end_here and is_last()
        if kind == "para":
            blocks.append(_paragraph(draw, ctx, planter, adversarial, last))
        elif kind == "bullets":
            n_items = draw(st.integers(1, 3))
            lines = []  # type: List[str]
            for i in range(n_items):
                item = _paragraph(draw, ctx, planter, adversarial, last and i == n_items - 1)
                lines.append("* " + item[0])
                lines.extend(_indent(item[1:], "  "))
            blocks.append(lines)
        else:
            body = _paragraph(draw, ctx, planter, adversarial, last)
            if draw(st.integers(0, 3)) == 0:
                body = body + [""] + _paragraph(draw, ctx, planter, adversarial, False)
            blocks.append([".. note::", ""] + _indent(body, "    "))

    field_lines = []  # type: List[str]
    n_fields = n_constraints + n_params + (1 if with_returns else 0)
    fi = 0
    for _ in range(n_constraints):
        fi += 1
        pool = planter.pool(CONSTRAINT_ID_FRAGMENTS, ctx.where, "constraint-id") if planter.form_allowed("constraint-id") else []
        if pool and (planter.doc_form == "constraint-id" or draw(st.integers(0, 3)) == 0):
            frag = draw(st.sampled_from(pool))
            marker, esc, raw = planter.plant(frag, ctx.where, "constraint-id")
            # a reference is possible only when the raw form survives as role content
            cid = (f"C{marker}{esc}", f"C{marker}{raw}" if "\\" not in frag and "`" not in frag and "<" not in frag else "")
        else:
            plain = draw(st.sampled_from(["AASd-{n}", "AASc-3a-{n}", "C{n}", "c-{n}.x"])).format(n=len(ctx.constraint_ids) + 100)
            cid = (rst_escape(plain), plain)
        body = _paragraph(draw, ctx, planter, adversarial, end_here and fi == n_fields)
        ctx.constraint_ids.append(cid)
        field_lines.append(f":constraint {cid[0]}:")
        field_lines.extend(_indent(body, "    "))
        if draw(st.integers(0, 4)) == 0:
            field_lines.append("")
            field_lines.extend(_indent(_paragraph(draw, ctx, planter, adversarial, False), "    "))
    for i in range(n_params):
        fi += 1
        body = _paragraph(draw, ctx, planter, adversarial, end_here and fi == n_fields)
        if len(body) == 1 and draw(st.booleans()):
            field_lines.append(f":param {ctx.args[i]}: {body[0]}")
        else:
            field_lines.append(f":param {ctx.args[i]}:")
            field_lines.extend(_indent(body, "    "))
    if with_returns:
        fi += 1
        body = _paragraph(draw, ctx, planter, adversarial, end_here and fi == n_fields)
        key = draw(st.sampled_from(["returns", "return"]))
        if len(body) == 1 and draw(st.booleans()):
            field_lines.append(f":{key}: {body[0]}")
        else:
            field_lines.append(f":{key}:")
            field_lines.extend(_indent(body, "    "))
    if field_lines:
        blocks.append(field_lines)
    return "\n\n".join("\n".join(b) for b in blocks)


def literal_text(draw: Any, planter: Planter, where: str, words: bool = True) -> str:
    """Template of a message / value: words and fragments, carrying a marker (thus unique)."""
    pool = planter.pool(LIT_FRAGMENTS, where, "value") or [NEUTRAL]
    frags = draw(st.lists(st.sampled_from(pool), min_size=1, max_size=3))
    parts = []  # type: List[str]
    if words and draw(st.booleans()):
        parts.append(draw(st.sampled_from(["Value", "The item", "It"])) + " ")
    for i, frag in enumerate(frags):
        marker, _, raw = planter.plant(frag, where, "value")
        glue = draw(st.sampled_from([" ", ""]))
        parts.append(f"{marker}{glue}{raw}")
        if i + 1 < len(frags):
            parts.append(draw(st.sampled_from([" ", " must be ", ""])))
    if draw(st.integers(0, 2)) == 0:
        parts.append(draw(st.sampled_from([" end", ".", " "])))
    return "".join(parts)


# ---------------------------------------------------------------------------
# Specs
# ---------------------------------------------------------------------------


@dataclasses.dataclass
class TextSpec:
    spec: mmgen.Spec  # all texts are templates
    literal_docs: Dict[str, Dict[str, str]]  # enumeration -> literal -> RST template
    plants: List[Plant]
    mode: str = "mixed"  # mixed | single
    doc_class: Optional[str] = None
    doc_form: Optional[str] = None
    value_class: Optional[str] = None
    avoided_known: bool = False


@st.composite
def text_specs(draw: Any, max_classes: int = 4, adversarial: float = 0.45,
               avoid: Optional[Callable[[str, str, str], bool]] = None, single: bool = False) -> TextSpec:
    opts = mmgen.Opts(
        max_classes=draw(st.integers(1, max_classes)),
        max_props=draw(st.integers(0, 3)),
        max_cps=2,
        docs="none",
        adversarial_text=False,
        invariants=draw(st.sampled_from(["general", "schema", "schema"])),
        max_invs=2,
    )
    spec = draw(mmgen.specs(opts))
    doc_class = doc_form = value_class = None
    if single:
        doc_form = draw(st.sampled_from(DOC_FORMS[:5] * 2 + DOC_FORMS[5:]))
        if doc_form == "url":
            doc_class = "url"
        elif doc_form == "constraint-id":
            doc_class = draw(st.sampled_from(sorted({fragment_class(f, doc_form) for f in CONSTRAINT_ID_FRAGMENTS})))
        elif doc_form == "text-at-end":
            doc_class = draw(st.sampled_from(sorted({fragment_class(f, doc_form) for f in DOC_END_FRAGMENTS})))
        else:
            # the classes that can terminate something get more weight than the harmless ones
            doc_class = draw(st.sampled_from(DOC_CLASSES + [c for c in DANGEROUS_CLASSES if c in DOC_CLASSES] * 4))
        value_class = draw(st.sampled_from(VALUE_CLASSES + [c for c in DANGEROUS_CLASSES if c in VALUE_CLASSES] * 2))
    planter = Planter(avoid, doc_class, doc_form, value_class)
    p_doc = draw(st.sampled_from([0.5, 0.8, 1.0]))

    def want() -> bool:
        return draw(st.floats(0, 1)) < p_doc

    class_names = [c.name for c in spec.classes] + [e.name for e in spec.enums] + [c.name for c in spec.cps]
    qualified = [f"{c.name}.{p.name}" for c in spec.classes for p in c.props]
    qualified += [f"{e.name}.{n}" for e in spec.enums for n, _ in e.literals]
    const_names = [c.name for c in spec.consts]
    constraint_ids = []  # type: List[Tuple[str, str]]

    def ctx(where: str, own: Optional[List[str]] = None, allow_constraints: bool = False,
            args: Optional[List[str]] = None, returns: bool = False) -> DocCtx:
        return DocCtx(where=where, classes=class_names, own_attrs=own or [], qualified_attrs=qualified,
                      consts=const_names, args=args or [], constraint_ids=constraint_ids,
                      allow_constraints=allow_constraints, returns=returns)

    if want():
        spec.module_doc = description(draw, ctx("module-doc", allow_constraints=True), planter, adversarial)

    literal_docs = {}  # type: Dict[str, Dict[str, str]]
    for e in spec.enums:
        own = [n for n, _ in e.literals]
        if want():
            e.doc = description(draw, ctx("enumeration-doc", own, allow_constraints=True), planter, adversarial)
        literal_docs[e.name] = {}
        new_literals = []
        for n, v in e.literals:
            if want():
                literal_docs[e.name][n] = description(draw, ctx("enumeration-literal-doc", own), planter, adversarial)
            if draw(st.booleans()):
                v = literal_text(draw, planter, "enumeration-literal-value", words=False)
            new_literals.append((n, v))
        e.literals = new_literals

    for cp in spec.cps:
        if want():
            cp.doc = description(draw, ctx("constrained-primitive-doc", allow_constraints=True), planter, adversarial)
        for inv in cp.invs:
            if draw(st.booleans()):
                inv.desc = literal_text(draw, planter, "invariant-message")

    for c in spec.classes:
        own = [p.name for p in c.props]
        if want():
            c.doc = description(draw, ctx("class-doc", own, allow_constraints=True), planter, adversarial)
        for p in c.props:
            if want():
                p.doc = description(draw, ctx("property-doc", own, allow_constraints=True), planter, adversarial)
        for inv in c.invs:
            if draw(st.booleans()):
                inv.desc = literal_text(draw, planter, "invariant-message")

    for k in spec.consts:
        if want():
            k.doc = description(draw, ctx("constant-doc"), planter, adversarial)
        if k.kind == "str" and draw(st.booleans()):
            k.value = literal_text(draw, planter, "string-constant")
        elif k.kind == "set_str" and not k.superset_of and draw(st.booleans()) and not any(
                k.name in o.superset_of for o in spec.consts):
            k.value = [literal_text(draw, planter, "string-set-constant", words=False)
                       for _ in range(draw(st.integers(1, 3)))]

    for f in spec.fns:
        if want():
            args = [a for a, _ in f.args]
            f.doc = description(draw, ctx("function-doc", args=args, returns=True), planter, adversarial)

    return TextSpec(spec, literal_docs, planter.plants, "single" if single else "mixed", doc_class, doc_form,
                    value_class, avoid is not None)


# ---------------------------------------------------------------------------
# Rendering (mmgen's, plus docstrings of enumeration literals)
# ---------------------------------------------------------------------------


def render_enum(e: mmgen.Enm, docs: Dict[str, str]) -> List[str]:
    out = [f"class {e.name}(Enum):"]
    out.extend(mmgen._doc(e.doc, "    "))
    for n, v in e.literals:
        out.append(f"    {n} = {mmgen.pystr(v)}")
        if n in docs:
            out.extend(mmgen._doc(docs[n], "    "))
            out.append("")
    if not e.literals and e.doc is None:
        out.append("    pass")
    return out


def render(ts: TextSpec, neutral: bool = False) -> str:
    """The meta-model text; ``neutral`` replaces every planted fragment by ``~``."""
    spec = copy.deepcopy(ts.spec)
    plants = ts.plants

    def doc(t: Optional[str]) -> Optional[str]:
        return None if t is None else py_docstring_source(materialize(t, plants, neutral))

    def val(t: Any) -> Any:
        return materialize(t, plants, neutral) if isinstance(t, str) else t

    spec.module_doc = doc(spec.module_doc)
    literal_docs = {}  # type: Dict[str, Dict[str, str]]
    for e in spec.enums:
        e.doc = doc(e.doc)
        e.literals = [(n, val(v)) for n, v in e.literals]
        literal_docs[e.name] = {n: doc(t) or "" for n, t in ts.literal_docs.get(e.name, {}).items()}
    for cp in spec.cps:
        cp.doc = doc(cp.doc)
        for inv in cp.invs:
            inv.desc = val(inv.desc)
    for c in spec.classes:
        c.doc = doc(c.doc)
        for p in c.props:
            p.doc = doc(p.doc)
        for inv in c.invs:
            inv.desc = val(inv.desc)
    for k in spec.consts:
        k.doc = val(k.doc)  # rendered through pystr(): the value itself, not source text
        if k.kind == "str":
            k.value = val(k.value)
        elif k.kind == "set_str":
            k.value = [val(v) for v in k.value]
    for f in spec.fns:
        f.doc = doc(f.doc)

    lines = []  # type: List[str]
    if spec.module_doc is not None:
        lines.extend(mmgen._doc(spec.module_doc, ""))
        lines.append("")
    lines.append(mmgen.HEADER)
    for kind, name in spec.order:
        if kind == "enum":
            lines.extend(render_enum(spec.enum(name), literal_docs.get(name, {})))
        elif kind == "cp":
            lines.extend(mmgen.render_cp(spec.cp(name)))
        elif kind == "class":
            lines.extend(mmgen.render_class(spec, spec.cls(name)))
        elif kind == "const":
            lines.extend(mmgen.render_const(next(c for c in spec.consts if c.name == name)))
        elif kind == "fn":
            lines.extend(mmgen.render_fn(next(f for f in spec.fns if f.name == name)))
        lines.append("")
        lines.append("")
    lines.append(f"__version__ = {mmgen.pystr(spec.version)}")
    lines.append("")
    lines.append(f"__xml_namespace__ = {mmgen.pystr(spec.xml_namespace)}")
    return "\n".join(lines) + "\n"
