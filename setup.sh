#!/usr/bin/env bash
# Offline setup: everything comes from files on disk.
set -u
cd "$(dirname "$0")"
export PIP_NO_INDEX=1
# hypothesis/jsonschema/xmlschema are already in /venv; make sure hypothesis is there.
/venv/bin/python -c "import hypothesis" 2>/dev/null || \
  /venv/bin/pip install --no-index --find-links /opt/veriftools/wheels hypothesis
# atheris (coverage-guided fuzzing tiers) goes beside, not into, the repository's venv.
if [ ! -d .deps/atheris ]; then
  /venv/bin/pip install --no-index --find-links /opt/veriftools/wheels --target .deps atheris \
    >/dev/null 2>&1 || echo "setup: atheris not installable; fuzz tiers will be skipped"
fi
mkdir -p evidence replays
exit 0
