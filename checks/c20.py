"""C20 — Generated source files are syntactically well-formed."""
from __future__ import annotations

import concurrent.futures
import os
import pathlib
import re
import shutil
import sys
from typing import Any, Dict, List, Optional, Sequence, Tuple

from hypothesis import strategies as st

from vlib import c20_gen, c20_parse, runner, sut
from vlib.c20_parse import Diag

PID = "C20"
RULE = (
    "Hypothesis: meta-models from vlib.mmgen (1-4 classes, enumerations, constrained primitives, constants, pattern "
    "functions, invariants) whose texts are replaced by vlib.c20_gen: RST descriptions of every kind (module, class, "
    "constrained primitive, enumeration, enumeration literal, property, constant, verification function with "
    ":param:/:returns:) made of summary, remark paragraphs, bullet lists, notes, ``literals``, *emphasis*, roles, URLs and "
    ":constraint X: fields, carrying fragments such as \" ' \"\"\" ''' \\ \\u */ /* // < & --> ]]> </summary> {@link x} ${x} ` "
    "(also as the last characters of a description); invariant messages, enumeration literal values, string constants "
    "and string sets with quote/backslash/template/format fragments. Every fragment is preceded by a unique marker "
    "word. 50% of the models avoid the fragment classes of already known defects (counted) so that the search goes on "
    "behind them. Only models accepted by the front end count; per target main.execute must succeed (else counted as "
    "excluded, belongs to C02). Oracle per generated file: Python ast/compile; TypeScript node-22 parser "
    "(module.stripTypeScriptTypes transform); Java JDK parser (JavacTask.parse via drivers/ParseOnly.java); C++ "
    "g++ -std=c++17 -fsyntax-only on a translation unit including all generated headers plus the model-dependent "
    ".cpp files (quick: 6 models, thorough: every 4th; only lexer/parser diagnostics count, others are counted as "
    "inconclusive) and the rule that a // comment line must not end in a backslash followed by a non-comment line; "
    "JSON json.loads; XSD xml.etree; C# and Go spec-derived lexers; C# /// blocks parsed as XML fragments. "
    "Non-trivial = accepted model of which at least one marker was found in a generated file of a target that "
    "succeeded; distinct by model text."
)
ASSUMPTIONS = [
    "C# and Go: no compiler/parser is installed; the check is LEXICAL well-formedness only (comments, regular/verbatim/"
    "interpolated/raw string and char/rune literals with their escape sequences, balanced brackets, no stray characters), "
    "written from ECMA-334 and the Go specification, validated against the 283 C# / 275 Go golden files of the repository",
    "C# documentation comments: every maximal run of /// lines, wrapped in one root element, must be well-formed XML (expat)",
    "C++: g++ diagnostics are classified by message; only lexer/parser kinds (unterminated, missing terminating, stray, "
    "expected ... before/at end, universal character, string literal operator ...) are violations; others are 'inconclusive'",
    "C++: a // line ending in backslash whose next line is not a comment is a violation (phase-2 line splicing swallows code) "
    "even when the remaining text still parses",
    "control characters and U+0085/U+2028/U+2029 inside literals are the domain of C19 and are not generated here",
    "a failure is attributed to the nearest marker at or before the reported line; the bucket is "
    "target:file-kind:text-kind:fragment-class (diagnostic texts vary with what follows and are kept in the message only)",
    "a target that reports an error (rc != 0) or crashes on an accepted model is out of this property's domain (C02) and is counted",
]

TARGET_EXT = {"python": (".py",), "typescript": (".ts",), "java": (".java",), "csharp": (".cs",), "golang": (".go",),
              "cpp": (".cpp", ".hpp"), "jsonschema": (".json",), "xsd": (".xsd", ".xml")}

# Model-dependent translation units (quick); level 2 adds every other .cpp of src/ and test/.
CPP_QUICK_TUS = ["src/constants.cpp", "src/verification.cpp", "src/stringification.cpp", "src/wstringification.cpp",
                 "src/types.cpp"]

_MARKER_RE = re.compile(r"mk(\d+)q")


def fragment_class(fragment: str, form: str) -> str:
    f = fragment
    if form == "url":
        return "url"
    if "*/" in f:
        return "comment-close"
    if f.startswith("\\u") or "\\u" in f:
        return "backslash-u"
    if "\\" in f or "??/" in f:
        return "backslash"
    if '"' in f:
        return "double-quote"
    if "'" in f:
        return "single-quote"
    if "`" in f or "${" in f:
        return "template"
    if "<" in f or "&" in f or ">" in f:
        return "markup"
    if "@" in f:
        return "at"
    if "{" in f or "}" in f:
        return "brace"
    if "/" in f:
        return "slash"
    if f.strip() == "" or f == " ":
        return "blank"
    if len(f) >= 60:
        return "long-word"
    return "other"


def where_group(where: str) -> str:
    if where.endswith("-doc"):
        return "description"
    return where


# Fragment classes of the defects found so far (see /verif/proposed_fixes/C20-*.diff and known_findings.jsonl); half of
# the models are generated without them so that the search continues behind these defects.
def is_known_trigger(fragment: str, where: str, form: str) -> bool:
    fc = fragment_class(fragment, form)
    grp = where_group(where)
    if grp == "description":
        return fc in KNOWN_DESCRIPTION_CLASSES or (form == "text-at-end" and fc in KNOWN_DESCRIPTION_END_CLASSES)
    return (grp, fc) in KNOWN_VALUE_CLASSES


KNOWN_DESCRIPTION_CLASSES = set()  # type: set
KNOWN_DESCRIPTION_END_CLASSES = set()  # type: set
KNOWN_VALUE_CLASSES = set()  # type: set


@st.composite
def cases(draw: Any) -> Dict[str, Any]:
    avoid = is_known_trigger if draw(st.booleans()) else None
    ts = draw(c20_gen.text_specs(max_classes=4, adversarial=draw(st.sampled_from([0.25, 0.45, 0.6])), avoid=avoid))
    return {"ts": ts}


def list_files(root: pathlib.Path, exts: Sequence[str]) -> List[str]:
    out = []
    for p in sorted(root.rglob("*")):
        if p.is_file() and p.suffix in exts:
            out.append(str(p.relative_to(root)))
    return out


def file_kind(target: str, rel: str) -> str:
    p = pathlib.PurePosixPath(rel)
    if target == "java":
        return p.parent.name + "/*.java"
    if "test" in p.parts[:-1] or "tests" in p.parts[:-1] or p.name.endswith("_test.go") or ".Tests" in rel:
        return "tests/" + p.name
    return p.name


def attribute(root: pathlib.Path, diag: Diag, plants: Dict[str, List[str]]) -> Optional[List[str]]:
    """The plant whose marker is nearest at or before the reported line (same file)."""
    path = root / diag.file
    if diag.line <= 0 or not path.is_file():
        return None
    try:
        lines = path.read_text(encoding="utf-8", errors="replace").split("\n")
    except OSError:
        return None
    hi = min(len(lines), diag.line + 1)
    for idx in range(hi - 1, max(-1, hi - 14), -1):
        found = _MARKER_RE.findall(lines[idx])
        if found:
            for num in reversed(found):
                pl = plants.get(f"mk{num}q")
                if pl is not None:
                    return pl
    return None


def bucket_of(target: str, root: pathlib.Path, diag: Diag, plants: Dict[str, List[str]]) -> str:
    kind = file_kind(target, diag.file)
    pl = attribute(root, diag, plants)
    if pl is None:
        return f"{target}:{kind}:unattributed:{diag.code}"
    marker, fragment, where, form = pl
    fc = fragment_class(fragment, form)
    if form == "text-at-end":
        fc += "-at-end"
    if form == "literal":
        fc += "-in-literal"
    return f"{target}:{kind}:{where_group(where)}:{fc}"


def check_target_output(target: str, root: pathlib.Path, cpp_level: int, scratch: pathlib.Path,
                        notes: Dict[str, int]) -> List[Diag]:
    diags = []  # type: List[Diag]
    rels = list_files(root, TARGET_EXT[target])
    notes[f"files:{target}"] = notes.get(f"files:{target}", 0) + len(rels)
    if target == "python":
        for rel in rels:
            diags.extend(c20_parse.check_python(root / rel, rel))
    elif target == "typescript":
        diags.extend(c20_parse.check_typescript(root, rels))
    elif target == "java":
        classes = c20_parse.ensure_parse_only(scratch)
        d, _, _ = c20_parse.run_parse_only(classes, root, rels)
        diags.extend(d)
    elif target == "jsonschema":
        for rel in rels:
            diags.extend(c20_parse.check_json(root / rel, rel))
    elif target == "xsd":
        for rel in rels:
            diags.extend(c20_parse.check_xml(root / rel, rel))
    elif target == "csharp":
        for rel in rels:
            src, d = c20_parse.read_text_strict(root / rel, rel)
            diags.extend(d)
            if src is not None:
                diags.extend(c20_parse.lex_csharp(src, rel))
                d2, nblocks = c20_parse.csharp_doc_comments(src, rel)
                diags.extend(d2)
                notes["csharp-doc-comment-blocks"] = notes.get("csharp-doc-comment-blocks", 0) + nblocks
    elif target == "golang":
        for rel in rels:
            src, d = c20_parse.read_text_strict(root / rel, rel)
            diags.extend(d)
            if src is not None:
                diags.extend(c20_parse.lex_go(src, rel))
    elif target == "cpp":
        for rel in rels:
            diags.extend(c20_parse.cpp_line_comment_splices(root / rel, rel))
        if cpp_level > 0:
            headers = [r for r in rels if r.startswith("include/") and r.endswith(".hpp")]
            all_headers = root / "src" / "verif_all_headers.cpp"
            all_headers.write_text("".join(f'#include "{h[len("include/"):]}"\n' for h in headers), encoding="utf-8")
            tus = ["src/verif_all_headers.cpp"] + [t for t in CPP_QUICK_TUS if (root / t).is_file()]
            if cpp_level > 1:
                tus += [r for r in rels if r.endswith(".cpp") and r not in tus and r != "src/common.cpp"]
            workers = 6 if cpp_level == 1 else 2
            with concurrent.futures.ThreadPoolExecutor(max_workers=workers) as pool:
                results = list(pool.map(lambda tu: c20_parse.check_cpp_tu(root, tu), tus))
            seen = set()
            for syntax, other in results:
                for dg in syntax:
                    key = (dg.file, dg.line, dg.code)
                    if key not in seen:
                        seen.add(key)
                        diags.append(dg)
                notes["cpp-inconclusive-diagnostics"] = notes.get("cpp-inconclusive-diagnostics", 0) + len(other)
                if other:
                    notes.setdefault("cpp-inconclusive-sample", other[0])  # type: ignore
            notes["cpp-translation-units-compiled"] = notes.get("cpp-translation-units-compiled", 0) + len(tus)
    return diags


def evaluate(case: Dict[str, Any], base: pathlib.Path, notes: Dict[str, int]) -> Dict[str, Any]:
    text = case["text"]
    plants = {p[0]: list(p) for p in case.get("plants", []) if isinstance(p, (list, tuple)) and len(p) == 4}
    cpp_level = int(case.get("cpp", 0) or 0)
    targets = [t for t in (case.get("targets") or sut.TARGETS) if t in sut.TARGETS]
    res = {"accepted": False, "fails": [], "classes": [], "reached": set(), "excluded": []}  # type: Dict[str, Any]
    try:
        _, _, err = sut.load_text(text, base)
    except BaseException:  # noqa: front-end crashes belong to C01
        res["classes"].append("front-end-crash")
        return res
    if err is not None:
        res["classes"].append("rejected-by-front-end")
        res["reject_reason"] = err
        return res
    res["accepted"] = True
    for target in targets:
        d = None  # type: Optional[pathlib.Path]
        try:
            try:
                rc, _, errtxt, d = sut.generate(text, target, base, keep=True)
            except BaseException as e:  # noqa
                if type(e).__name__ in ("KeyboardInterrupt", "SystemExit", "MemoryError"):
                    raise
                res["classes"].append(f"{target}:crashed")
                res["excluded"].append(f"{target}-crashed(C02)")
                continue
            if rc != 0:
                res["classes"].append(f"{target}:reported-error")
                res["excluded"].append(f"{target}-reported-error")
                res.setdefault("reported", {})[target] = errtxt[:600]
                continue
            assert d is not None
            root = d / "out"
            res["classes"].append(f"{target}:generated")
            diags = check_target_output(target, root, cpp_level if target == "cpp" else 0, base, notes)
            # which markers reached this target's files?
            blob = []
            for rel in list_files(root, TARGET_EXT[target]):
                try:
                    blob.append((root / rel).read_text(encoding="utf-8", errors="replace"))
                except OSError:
                    pass
            found = set(_MARKER_RE.findall("\n".join(blob)))
            hit = {m for m in plants if m[2:-1] in found}
            if hit:
                res["classes"].append(f"{target}:marker-reached")
            res["reached"] |= hit
            seen_buckets = set()
            for dg in diags:
                b = bucket_of(target, root, dg, plants)
                if b in seen_buckets:
                    continue
                seen_buckets.add(b)
                res["fails"].append((b, f"[{target}] {dg.file}:{dg.line}: {dg.code}: {dg.message}"))
            if not diags:
                res["classes"].append(f"{target}:all-files-parse")
            else:
                res["classes"].append(f"{target}:some-file-does-not-parse")
        finally:
            if d is not None:
                shutil.rmtree(d, ignore_errors=True)
    return res


def shard(ctx: runner.Ctx) -> None:
    n = ctx.n(160, 8000)
    counter = {"i": 0}
    notes = {}  # type: Dict[str, Any]
    cpp_every = 1 if ctx.quick else 4

    def one(c: Dict[str, Any]) -> None:
        ts = c["ts"]  # type: c20_gen.TextSpec
        i = counter["i"]
        counter["i"] += 1
        text = c20_gen.render(ts)
        plants = [[p.marker, p.fragment, p.where, p.form] for p in ts.plants]
        if ctx.quick:
            cpp_level = 1 if (i == 0 and ctx.shard < 6) else 0
        else:
            cpp_level = (2 if i % 40 == 0 else 1) if i % cpp_every == 0 else 0
        case = {"text": text, "plants": plants, "cpp": cpp_level}
        res = evaluate(case, ctx.scratch, notes)
        for ex in res["excluded"]:
            ctx.exclude(ex)
        classes = list(res["classes"])
        if res["accepted"]:
            classes.append("accepted")
        wheres = sorted({p.where for p in ts.plants})
        classes += [f"text:{w}" for w in wheres]
        classes += sorted({f"fragment:{fragment_class(p.fragment, p.form)}" for p in ts.plants})
        if ts.avoided_known:
            classes.append("known-defect-fragments-avoided")
        if cpp_level:
            classes.append(f"cpp-compiled-level-{cpp_level}")
        nt = res["accepted"] and len(res["reached"]) > 0
        ctx.case(nt, key=text,
                 sample={"markers_reached": len(res["reached"]), "plants": plants[:12], "outcomes": res["classes"],
                         "text_head": text[:1200]},
                 classes=classes)
        for b, m in res["fails"]:
            ctx.fail(b, {"text": text, "plants": plants, "cpp": cpp_level, "targets": [b.split(":")[0]]}, m)

    runner.hyp_run(cases(), one, n, ctx.seed)
    for k, v in notes.items():
        ctx.notes[k] = v


def replay(case: Any) -> List[Tuple[str, str]]:
    if not isinstance(case, dict) or not isinstance(case.get("text"), str):
        return []
    plants = case.get("plants")
    if not isinstance(plants, list):
        plants = []
    plants = [p for p in plants if isinstance(p, list) and len(p) == 4 and all(isinstance(x, str) for x in p)]
    targets = case.get("targets")
    if not isinstance(targets, list) or not all(isinstance(t, str) for t in targets):
        targets = None
    try:
        cpp = int(case.get("cpp", 0) or 0)
    except (TypeError, ValueError):
        cpp = 0
    base = runner.make_scratch("c20-replay")
    try:
        res = evaluate({"text": case["text"], "plants": plants, "cpp": cpp, "targets": targets}, base, {})
    finally:
        shutil.rmtree(base, ignore_errors=True)
    return list(res["fails"])


def health(m: Any, tier: str) -> Any:
    acc = m["classes"].get("accepted", 0)
    if acc < 0.9 * m["evaluations"]:
        return f"only {acc}/{m['evaluations']} generated models accepted by the front end"
    for target in sut.TARGETS:
        ok = m["classes"].get(f"{target}:generated", 0)
        if ok < 0.3 * acc:
            return f"target {target} generated code for only {ok}/{acc} accepted models"
        if target not in ("jsonschema", "xsd") and m["classes"].get(f"{target}:marker-reached", 0) < 0.25 * acc:
            return f"markers reached {target} output in only {m['classes'].get(f'{target}:marker-reached', 0)}/{acc} models"
    if m["nontrivial_n"] < 0.5 * m["evaluations"]:
        return f"only {m['nontrivial_n']} non-trivial of {m['evaluations']}"
    return None


if __name__ == "__main__":
    runner.main(sys.modules[__name__])
