"""C01 — Meta-model front end never crashes."""
from __future__ import annotations

import ast
import os
import pathlib
import subprocess
import sys
from typing import Any, List, Tuple

from hypothesis import strategies as st

from vlib import mmgen, mmmut, runner, sut

PID = "C01"
RULE = (
    "Hypothesis: a generated valid meta-model (vlib.mmgen: enumerations, constrained-primitive DAGs, class DAGs with "
    "diamonds, constants/sets, pattern functions, typed invariants) + 0-3 near-miss mutations (vlib.mmmut: ~60 bad regexes, "
    "~30 type annotations, ~75 decorators/invariant forms, ~250 module/class statements incl. constant_set/constant_* with "
    "positional arguments, constructor edits, docstring RST breakers, renames to reserved/non-ASCII names, base-list edits, "
    "token/line deletion/duplication/swap/replacement, splicing of two models) and, in the thorough tier, an atheris "
    "byte-level stage seeded with the repository's fixture models. Oracle: run.load_model returns (no exception of any "
    "kind), exactly one of (symbol table, error), error text non-empty; every 10th case also through main.execute: rejected "
    "=> status 1, non-empty stderr, no 'Code generated' line. Non-trivial = text parses as Python, passes the import check "
    "and reaches symbol-table construction; distinct by text hash."
)
ASSUMPTIONS = [
    "inputs nested deeper than CPython's own parser limits are out of scope (generator does not produce them)",
    "a bucket is (exception type, innermost aas_core_codegen frame file:function); known findings are keyed on it",
]


@st.composite
def cases(draw: Any) -> Tuple[str, List[str]]:
    spec = draw(mmgen.specs(mmgen.Opts(max_classes=5, max_props=3)))
    text = mmgen.render(spec)
    nmut = draw(st.sampled_from([0, 1, 1, 1, 2, 2, 3]))
    other = None
    if nmut and draw(st.integers(0, 5)) == 0:
        other = mmgen.render(draw(mmgen.specs(mmgen.Opts(max_classes=3, max_props=2))))
    names = []
    for _ in range(nmut):
        name, text = mmmut.mutate(draw, text, other)
        names.append(name)
    return text, names


def stage_of(err: Any) -> str:
    if err is None:
        return "accepted"
    if "invalid syntax" in err or err.startswith("Failed to parse the meta-model:"):
        return "syntax"
    if err.startswith("One or more unexpected imports"):
        return "imports"
    if err.startswith("Failed to construct the symbol table"):
        return "parse"
    if err.startswith("Failed to translate"):
        return "translate"
    return "other"


def evaluate(text: str, base: pathlib.Path, through_main: bool) -> Tuple[str, List[Tuple[str, str]]]:
    fails = []  # type: List[Tuple[str, str]]
    stage = "crash"
    try:
        symtab, atok, err = sut.load_text(text, base)
        stage = stage_of(err)
        if err is not None and (not isinstance(err, str) or err.strip() == ""):
            fails.append(("empty-error-report", f"error={err!r}"))
        if err is None and symtab is None:
            fails.append(("neither-result-nor-error", ""))
    except RecursionError:
        # CPython-level recursion on pathological nesting: outside the asserted domain
        return "recursion", []
    except BaseException as e:  # noqa
        name = type(e).__name__
        if name in ("KeyboardInterrupt", "SystemExit", "MemoryError"):
            raise
        fails.append((f"load_model:{runner.exc_bucket(e)}", runner.exc_text(e)))
        return "crash", fails
    if through_main:
        try:
            rc, out, errtxt, _ = sut.generate(text, "jsonschema", base)
            if stage != "accepted":
                if rc != 1:
                    fails.append(("rejected-but-status-not-1", f"rc={rc} stderr={errtxt[:300]!r}"))
                if errtxt.strip() == "":
                    fails.append(("rejected-but-empty-stderr", f"rc={rc}"))
                if "Code generated to" in out:
                    fails.append(("rejected-but-code-generated-line", out[:200]))
        except BaseException as e:  # noqa
            if stage != "accepted":
                # the generator stage of an accepted model belongs to C02
                fails.append((f"main.execute:{runner.exc_bucket(e)}", runner.exc_text(e)))
    return stage, fails


def shard(ctx: runner.Ctx) -> None:
    n = ctx.n(3_000, 300_000)
    counter = {"i": 0}

    def one(case: Any) -> None:
        text, names = case
        counter["i"] += 1
        stage, fails = evaluate(text, ctx.scratch, through_main=(counter["i"] % 10 == 0))
        try:
            ast.parse(text)
            py_ok = True
        except (SyntaxError, ValueError, RecursionError, MemoryError):
            py_ok = False
        nt = py_ok and stage in ("parse", "translate", "accepted", "crash")
        ctx.case(nt, key=text, sample={"mutations": names, "stage": stage, "text_tail": text[-400:]},
                 classes=[f"stage:{stage}", f"nmut:{len(names)}"] + [f"op:{x}" for x in names])
        for b, m in fails:
            ctx.fail(b, {"text": text}, m)

    runner.hyp_run(cases(), one, n, ctx.seed)

    # fixtures of the repository as a replay tier (expected + unexpected parse/intermediate cases)
    if ctx.shard == 0:
        fixtures = sorted(pathlib.Path(os.environ.get("VERIF_REPO", "/repo")).glob("dev/test_data/**/meta_model.py"))
        for p in fixtures:
            text = p.read_text(encoding="utf-8")
            stage, fails = evaluate(text, ctx.scratch, through_main=False)
            ctx.case(True, key=text, classes=[f"fixture:{stage}"])
            for b, m in fails:
                ctx.fail(b, {"text": text}, m)
    if not ctx.quick:
        _atheris_stage(ctx)


FUZZ_TARGET = r'''
import sys, os, pathlib, tempfile, traceback, json, hashlib
sys.path.insert(0, os.environ["VERIF_DIR"])
import vlib
import atheris
with atheris.instrument_imports(include=["aas_core_codegen.parse", "aas_core_codegen.intermediate"]):
    from aas_core_codegen import run
from vlib import runner
base = pathlib.Path(os.environ["FUZZ_SCRATCH"])
runner.isolate_tmp(base)
out = base / "findings"; out.mkdir(exist_ok=True)
mp = base / "m.py"
seen = set()
def one(data):
    try:
        text = data.decode("utf-8")
    except UnicodeDecodeError:
        return
    if "\x00" in text: return
    mp.write_text(text, encoding="utf-8")
    try:
        run.load_model(mp)
    except RecursionError:
        return
    except BaseException as e:
        b = runner.exc_bucket(e)
        if b not in seen:
            seen.add(b)
            (out / (hashlib.sha1(b.encode()).hexdigest()[:12] + ".json")).write_text(json.dumps({"bucket": b, "text": text, "tb": runner.exc_text(e)}))
atheris.Setup(sys.argv, one)
atheris.Fuzz()
'''


def _atheris_stage(ctx: runner.Ctx) -> None:
    """Coverage-guided byte-level stage (thorough tier only); findings are collected, not fatal."""
    import json
    import shutil

    deps = runner.VERIF / ".deps"
    if not (deps / "atheris").exists():
        ctx.notes["atheris_skipped"] = 1
        return
    d = ctx.scratch / "fuzz"
    corpus = d / "corpus"
    corpus.mkdir(parents=True, exist_ok=True)
    if ctx.shard % 2 == 0:  # odd shards start from an empty corpus
        repo = pathlib.Path(os.environ.get("VERIF_REPO", "/repo"))
        for i, p in enumerate(sorted(repo.glob("dev/test_data/parse/**/meta_model.py"))[:80]):
            shutil.copy(p, corpus / f"seed{i}.py")
    target = d / "target.py"
    target.write_text(FUZZ_TARGET)
    env = dict(os.environ)
    env["PYTHONPATH"] = f"{deps}{os.pathsep}{env.get('PYTHONPATH', '')}"
    env["VERIF_DIR"] = str(runner.VERIF)
    env["FUZZ_SCRATCH"] = str(d)
    runs = 40_000
    try:
        subprocess.run(
            [sys.executable, str(target), str(corpus), f"-runs={runs}", f"-seed={ctx.seed}", "-max_len=4096",
             "-timeout=20", "-rss_limit_mb=4096"],
            env=env, cwd=str(d), stdout=subprocess.DEVNULL, stderr=subprocess.DEVNULL, timeout=3000,
        )
    except subprocess.TimeoutExpired:
        ctx.notes["atheris_timeouts"] = 1
    ctx.notes["atheris_runs"] = runs
    for f in sorted((d / "findings").glob("*.json")):
        data = json.loads(f.read_text())
        stage, fails = evaluate(data["text"], ctx.scratch, through_main=False)
        ctx.case(True, key=data["text"], classes=["atheris-finding"])
        for b, m in fails:
            ctx.fail(b, {"text": data["text"]}, m)


def replay(case: Any) -> List[Tuple[str, str]]:
    if not isinstance(case, dict) or not isinstance(case.get("text"), str):
        return []
    base = runner.make_scratch("c01-replay")
    try:
        _, fails = evaluate(case["text"], base, through_main=True)
    finally:
        import shutil

        shutil.rmtree(base, ignore_errors=True)
    return fails


def health(m: Any, tier: str) -> Any:
    ev = m["evaluations"]
    for stage in ("accepted", "parse", "translate", "syntax"):
        frac = m["classes"].get(f"stage:{stage}", 0) / max(1, ev)
        if frac < 0.04:
            return f"stage {stage} holds only {frac:.1%} of the cases"
    return None


if __name__ == "__main__":
    runner.main(sys.modules[__name__])
