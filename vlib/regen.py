"""
Regex AST generator, an independent renderer and string samplers (C16, C17, C18).

Nothing in this module imports ``aas_core_codegen``: the AST, the renderer and the
samplers are written from the documentation of the supported regex subset
(``parse/retree/__init__.py`` and the Python ``re`` documentation) so that they can
serve as an independent source of patterns and of strings inside / near their languages.

AST (JSON-able nested lists)::

    U = ["u", [C, ...]]                       union of concatenations
    C = ["cat", [T, ...]]                     concatenation of terms
    T = ["c", cp]                             literal character (code point)
      | ["."] | ["^"] | ["$"]                 symbols
      | ["set", neg, [[lo, hi|None], ...]]    character set (hi None = single character)
      | ["g", U]                              group
      | ["q", atom, m, n|None, lazy]          quantified atom (atom is c . set g)

Randomness: the AST is drawn by Hypothesis; spelling choices and string sampling use a
``random.Random`` whose seed is drawn by Hypothesis as well, so that a case is a pure
function of the Hypothesis choice sequence.
"""
from __future__ import annotations

import dataclasses
import random
from typing import Any, List, Optional, Sequence, Set, Tuple

from hypothesis import strategies as st

MAX_CP = 0x10FFFF
SUPP = 0x10000

# Characters which have a meaning outside of a character set and therefore must not be
# written raw by the renderer when a literal is meant.
META_LIT = set(map(ord, ".^$()[]{}|*+?\\"))
# Escapes that the front end documents for literals outside of sets (besides hex forms).
ESC_LIT = {ord(c): "\\" + c for c in ".#^$()[]\\*+?"}
ESC_CTRL = {0x09: "\\t", 0x0A: "\\n", 0x0D: "\\r", 0x0C: "\\f", 0x0B: "\\v"}
# Escapes documented for characters in sets.
ESC_SET = {ord(c): "\\" + c for c in "\\[]^-"}

PLAIN_ASCII = [ord(c) for c in "abcxyzuUAZ019 _,#-}=/:<>!\"'%&;@~`"]
CTRL = [0x09, 0x0A, 0x0D, 0x0C, 0x0B, 0x00, 0x1F, 0x7F]
LATIN1 = [0x80, 0x85, 0xA0, 0xE9, 0xFE, 0xFF]
BMP = [0x100, 0x17F, 0x3A9, 0x2028, 0x20AC, 0xD7FF, 0xE000, 0xF600, 0xFFFD, 0xFFFE, 0xFFFF]
SURROGATES = [0xD800, 0xD801, 0xD83D, 0xDBFF, 0xDC00, 0xDE00, 0xDFFF]
ASTRAL = [
    0x10000, 0x10001, 0x103FF, 0x10400, 0x107FF, 0x10800, 0x10BFF, 0x10C00,
    0x1F600, 0x1F64F, 0x1F9FF, 0x20000, 0x2FFFF, 0xEFFFF, 0x10FC00, 0x10FFFE, 0x10FFFF,
]
LINE_BREAKS = {0x0A, 0x0D}


@dataclasses.dataclass
class Opts:
    """Options of the AST generator."""

    anchored: bool = False          # wrap the pattern as ^...$ (single top-level concatenation)
    greedy_only: bool = False       # no lazy quantifiers
    astral: int = 10                # % of characters drawn from the supplementary planes
    surrogates: int = 2             # % of characters that are lone surrogates
    controls: int = 6               # % of characters that are control characters
    meta: int = 14                  # % of characters that are regex metacharacters (as literals)
    no_line_breaks: bool = False    # no \n / \r literals in the pattern
    inner_anchors: int = 3          # % of terms that are ^ or $ in the middle
    inner_kinds: str = "^$"         # which anchors may occur in the middle
    dot: int = 8                    # % of atoms that are '.'
    sets: int = 25                  # % of atoms that are character sets
    groups: int = 20                # % of atoms that are groups (when depth remains)
    quantified: int = 35            # % of atoms that get a quantifier
    complement: int = 25            # % of sets that are complemented
    complement_astral: int = 0      # % of complemented sets allowed to keep astral items
    bmp_to_astral_range: int = 0    # % of ranges that start in the BMP and end above it
    overlap: int = 0                # % of sets in which overlapping items are kept
    dot_star_suffix: int = 0        # % of anchored patterns that end in .*$
    max_depth: int = 3
    max_star_height: int = 2        # nesting of variable quantifiers (re backtracks exponentially)
    max_rep: int = 4
    max_terms: int = 4
    max_alts: int = 3


# ---------------------------------------------------------------------------
# Hypothesis strategies
# ---------------------------------------------------------------------------

_pct = st.integers(0, 99)


@st.composite
def code_points(draw: Any, o: Opts) -> int:
    """Draw a code point according to the class weights of ``o``."""
    x = draw(_pct)
    t = o.astral
    if x < t:
        if draw(_pct) < 70:
            return draw(st.sampled_from(ASTRAL))
        return draw(st.integers(SUPP, MAX_CP))
    t += o.surrogates
    if x < t:
        return draw(st.sampled_from(SURROGATES))
    t += o.controls
    if x < t:
        cp = draw(st.sampled_from(CTRL))
        if o.no_line_breaks and cp in LINE_BREAKS:
            return 0x09
        return cp
    t += o.meta
    if x < t:
        return draw(st.sampled_from(sorted(META_LIT)))
    t += 8
    if x < t:
        return draw(st.sampled_from(LATIN1 + BMP))
    return draw(st.sampled_from(PLAIN_ASCII))


@st.composite
def _range_item(draw: Any, o: Opts) -> List[Optional[int]]:
    lo = draw(code_points(o))
    if draw(_pct) < 45:
        return [lo, None]
    if lo < SUPP and draw(_pct) < o.bmp_to_astral_range:
        hi = draw(st.sampled_from([SUPP, SUPP + 1, 0x103FF, 0x10400, 0x1F600, MAX_CP]))
        return [lo, hi]
    if lo >= SUPP:
        # the branches of the surrogate expansion: same high surrogate, adjacent, two apart, more
        kind = draw(st.integers(0, 5))
        block = (lo - SUPP) // 0x400
        if kind == 0:
            hi = min(MAX_CP, SUPP + block * 0x400 + draw(st.sampled_from([0x3FF, 0x3FE, 1, 0x200])))
        elif kind == 1:
            hi = lo + draw(st.sampled_from([1, 0x400, 0x3FF, 0x401]))
        elif kind == 2:
            hi = lo + draw(st.sampled_from([0x800, 0x7FF, 0x801]))
        elif kind == 3:
            hi = lo + draw(st.sampled_from([0xC00, 0x1000, 0x10000, 0x4321]))
        elif kind == 4:
            hi = MAX_CP
        else:
            hi = lo + draw(st.integers(0, 0x2000))
        hi = max(lo, min(MAX_CP, hi))
        return [lo, hi]
    delta = draw(st.sampled_from([0, 1, 2, 5, 9, 25, 0x3F, 0x3FF, 0x400, 0x1000]))
    hi = lo + delta
    if hi >= SUPP:
        hi = SUPP - 1
    return [lo, hi]


def _end(item: Sequence[Optional[int]]) -> int:
    return item[0] if item[1] is None else item[1]  # type: ignore


@st.composite
def char_sets(draw: Any, o: Opts) -> List[Any]:
    neg = 1 if draw(_pct) < o.complement else 0
    items = draw(st.lists(_range_item(o), min_size=1, max_size=4))
    if neg and draw(_pct) >= o.complement_astral:
        items = [it for it in items if it[0] < SUPP and _end(it) < SUPP]
        if not items:
            items = [[ord("a"), ord("c")]]
    if draw(_pct) >= o.overlap:
        kept = []  # type: List[List[Optional[int]]]
        for it in sorted(items, key=lambda it: (it[0], _end(it))):
            if kept and _end(kept[-1]) >= it[0]:
                continue
            kept.append(it)
        items = draw(st.permutations(kept))
    return ["set", neg, [list(it) for it in items]]


@st.composite
def quantifier_bounds(draw: Any, o: Opts) -> Tuple[int, Optional[int], int]:
    kind = draw(st.integers(0, 7))
    m = draw(st.integers(0, o.max_rep))
    n = draw(st.integers(0, o.max_rep))
    lo, hi = min(m, n), max(m, n)
    if kind == 0:
        b = (0, None)  # type: Tuple[int, Optional[int]]
    elif kind == 1:
        b = (1, None)
    elif kind == 2:
        b = (0, 1)
    elif kind == 3:
        b = (m, m)
    elif kind == 4:
        b = (m, None)
    elif kind == 5:
        b = (0, hi)
    else:
        b = (lo, hi)
    lazy = 0 if o.greedy_only else (1 if draw(_pct) < 25 else 0)
    return b[0], b[1], lazy


def _variable(m: int, n: Optional[int]) -> bool:
    return n is None or (n != m and n > 1)


@st.composite
def _term(draw: Any, o: Opts, depth: int, vq: int = 0) -> List[Any]:
    """``vq`` = number of enclosing variable quantifiers (bounded: backtracking in ``re``)."""
    if draw(_pct) < o.inner_anchors:
        return [draw(st.sampled_from(list(o.inner_kinds)))]
    x = draw(_pct)
    if x < o.dot:
        atom = ["."]  # type: List[Any]
    elif x < o.dot + o.sets:
        atom = draw(char_sets(o))
    elif x < o.dot + o.sets + o.groups and depth > 0:
        q = None  # type: Any
        if draw(_pct) < o.quantified:
            q = draw(quantifier_bounds(o))
            if _variable(q[0], q[1]) and vq >= o.max_star_height:
                q = (min(q[0], 2), min(q[0], 2), q[2])
        inner_vq = vq + (1 if q is not None and _variable(q[0], q[1]) else 0)
        atom = ["g", draw(_union(o, depth - 1, inner_vq))]
        if q is not None:
            return ["q", atom, q[0], q[1], q[2]]
        return atom
    else:
        atom = ["c", draw(code_points(o))]
        if o.no_line_breaks and atom[1] in LINE_BREAKS:
            atom[1] = ord("n")
    if draw(_pct) < o.quantified:
        m, n, lazy = draw(quantifier_bounds(o))
        return ["q", atom, m, n, lazy]
    return atom


@st.composite
def _concat(draw: Any, o: Opts, depth: int, min_terms: int = 0, vq: int = 0) -> List[Any]:
    return ["cat", draw(st.lists(_term(o, depth, vq), min_size=min_terms, max_size=o.max_terms))]


@st.composite
def _union(draw: Any, o: Opts, depth: int, vq: int = 0) -> List[Any]:
    n_alts = 1 if draw(_pct) < 55 else draw(st.integers(2, o.max_alts))
    return ["u", [draw(_concat(o, depth, 0, vq)) for _ in range(n_alts)]]


@st.composite
def regex_asts(draw: Any, o: Opts) -> List[Any]:
    """Draw a whole pattern."""
    if o.anchored:
        body = draw(_concat(o, o.max_depth, 0))[1]
        terms = [["^"]] + body
        if draw(_pct) < o.dot_star_suffix:
            terms.append(["q", ["."], 0, None, 0])
        terms.append(["$"])
        return ["u", [["cat", terms]]]
    return draw(_union(o, o.max_depth))


def cases(o: Opts) -> Any:
    """Strategy of ``(ast, seed)``; the seed drives spelling and sampling choices."""
    return st.tuples(regex_asts(o), st.integers(0, 2 ** 32 - 1))


# ---------------------------------------------------------------------------
# AST queries
# ---------------------------------------------------------------------------


def walk(node: Any) -> Any:
    """Yield every AST node (pre-order)."""
    yield node
    k = node[0]
    if k in ("u", "cat"):
        for child in node[1]:
            yield from walk(child)
    elif k == "g":
        yield from walk(node[1])
    elif k == "q":
        yield from walk(node[1])


def features(ast: Any) -> Set[str]:
    """Names of the constructs used in ``ast`` (for histograms and domain decisions)."""
    f = set()  # type: Set[str]
    for n in walk(ast):
        k = n[0]
        if k == "c":
            f.add("literal")
            _cp_features(n[1], f)
        elif k == ".":
            f.add("dot")
        elif k == "set":
            f.add("set")
            if n[1]:
                f.add("complement")
            for lo, hi in n[2]:
                _cp_features(lo, f)
                if hi is not None:
                    f.add("range")
                    _cp_features(hi, f)
                    if lo < SUPP <= hi:
                        f.add("range-bmp-to-astral")
                    if lo <= 0xDFFF and hi >= 0xD800:
                        f.add("surrogate")
                    if lo >= SUPP:
                        d = (hi - SUPP) // 0x400 - (lo - SUPP) // 0x400
                        f.add("astral-range:" + ("same-high" if d == 0 else "adjacent" if d == 1
                                                 else "two-apart" if d == 2 else "far"))
                if n[1] and (lo >= SUPP or (hi is not None and hi >= SUPP)):
                    f.add("complement-astral")
        elif k == "g":
            f.add("group")
        elif k == "q":
            f.add("quantifier")
            if n[4]:
                f.add("lazy")
            if n[3] is None or n[3] > 1:
                f.add("rep>1")
                if n[1][0] == "g" and len(n[1][1][1]) > 1:
                    f.add("quantified-union")
            if n[3] is None and nullable(n[1]):
                f.add("unbounded-nullable-body")
            if n[1][0] == "c" and n[1][1] >= SUPP:
                f.add("quantified-astral")
        elif k == "u" and len(n[1]) > 1:
            f.add("union")
    return f


def _cp_features(cp: int, f: Set[str]) -> None:
    if cp >= SUPP:
        f.add("astral")
    elif 0xD800 <= cp <= 0xDFFF:
        f.add("surrogate")
    elif cp > 0x7F:
        f.add("non-ascii-bmp")


def has_inner_anchor(ast: Any) -> bool:
    """True if ``^``/``$`` occur anywhere but as first/last term of the single top concatenation."""
    alts = ast[1]
    for ai, cat in enumerate(alts):
        terms = cat[1]
        for ti, t in enumerate(terms):
            outer = len(alts) == 1 and (
                (ti == 0 and t[0] == "^") or (ti == len(terms) - 1 and t[0] == "$")
            )
            for n in walk(t):
                if n[0] in ("^", "$") and not (outer and n is t):
                    return True
    return False


def nullable(node: Any) -> bool:
    """Can the node match without consuming a character? (anchors count as empty)."""
    k = node[0]
    if k in ("c", ".", "set"):
        return False
    if k in ("^", "$"):
        return True
    if k == "g":
        return nullable(node[1])
    if k == "q":
        return node[2] == 0 or nullable(node[1])
    if k == "u":
        return any(nullable(c) for c in node[1])
    if k == "cat":
        return all(nullable(t) for t in node[1])
    raise ValueError(k)


def alphabet(ast: Any) -> List[int]:
    """Code points mentioned by the pattern, their neighbours, and a few fixed extras."""
    cps = set()  # type: Set[int]
    for n in walk(ast):
        if n[0] == "c":
            cps.add(n[1])
        elif n[0] == "set":
            for lo, hi in n[2]:
                cps.add(lo)
                if hi is not None:
                    cps.add(hi)
                    cps.add((lo + hi) // 2)
    out = set()  # type: Set[int]
    for cp in cps:
        for d in (-1, 0, 1):
            if 0 <= cp + d <= MAX_CP:
                out.add(cp + d)
    out.update([ord("a"), ord("b"), ord("0"), ord(" "), ord("-")])
    return sorted(out)


# ---------------------------------------------------------------------------
# Independent renderer with randomised equivalent spellings
# ---------------------------------------------------------------------------


@dataclasses.dataclass
class Spelling:
    """Knobs of the renderer; percentages."""

    hex_escape: int = 25            # spell a character as \xHH / \uXXXX / \UXXXXXXXX
    backslash_escape: int = 50      # use \t \. \[ ... when an escape exists but is optional
    raw_controls: bool = True       # allow raw control characters
    long_quantifier: int = 30       # {0,} for *, {1,} for +, {0,1} for ?, {m,m} for {m}
    leading_zero: int = 8           # {02,3}
    # spellings which Python accepts but which are known to confuse the front end
    spaces_in_quantifier: int = 0   # {2, 3}: Python reads this as literal text
    raw_rbracket_first: int = 0     # []a]: Python reads ']' as a member of the set


def _hex(rnd: random.Random, cp: int, in_set: bool) -> str:
    forms = []
    if cp <= 0xFF:
        forms.append("\\x%02x" % cp)
    if cp <= 0xFFFF:
        forms.append("\\u%04x" % cp)
    if cp >= SUPP:
        forms.append("\\U%08x" % cp)
    s = rnd.choice(forms)
    if rnd.random() < 0.4:
        s = s[:2] + s[2:].upper()
    return s


def _lit(rnd: random.Random, cp: int, sp: Spelling) -> str:
    """Spell a literal outside of a set."""
    forms = []  # type: List[str]
    if cp in ESC_CTRL:
        forms.append(ESC_CTRL[cp])
        if sp.raw_controls and rnd.randrange(100) >= sp.backslash_escape:
            forms = [chr(cp)]
    elif cp in META_LIT:
        if cp in ESC_LIT:
            forms.append(ESC_LIT[cp])
        # '{', '}' and '|' have no documented backslash form: hex only ('}' may be raw)
        if cp == ord("}"):
            forms.append("}")
    else:
        forms.append(chr(cp))
        if cp in ESC_LIT and rnd.randrange(100) < sp.backslash_escape:
            forms = [ESC_LIT[cp]]
    if not forms or rnd.randrange(100) < sp.hex_escape:
        return _hex(rnd, cp, False)
    return rnd.choice(forms)


def _set_char(rnd: random.Random, cp: int, sp: Spelling, first: bool, last_single: bool,
              endpoint: bool) -> str:
    """Spell a character inside a set."""
    c = chr(cp)
    must_escape = False
    if c in "\\]":
        must_escape = True
    elif c == "^" and first:
        must_escape = True
    elif c == "-" and (endpoint or not (first or last_single)):
        must_escape = True
    forms = []  # type: List[str]
    if cp in ESC_CTRL:
        forms.append(ESC_CTRL[cp])
        if sp.raw_controls and rnd.randrange(100) >= sp.backslash_escape:
            forms = [c]
    elif must_escape:
        forms.append(ESC_SET[cp])
    else:
        forms.append(c)
        if cp in ESC_SET and rnd.randrange(100) < sp.backslash_escape:
            forms = [ESC_SET[cp]]
    if rnd.randrange(100) < sp.hex_escape:
        return _hex(rnd, cp, True)
    return rnd.choice(forms)


def _quant(rnd: random.Random, m: int, n: Optional[int], lazy: int, sp: Spelling) -> str:
    long_form = rnd.randrange(100) < sp.long_quantifier

    def num(v: int) -> str:
        return ("0" if rnd.randrange(100) < sp.leading_zero else "") + str(v)

    if n is None:
        if m == 0 and not long_form:
            q = "*"
        elif m == 1 and not long_form:
            q = "+"
        else:
            q = "{%s,}" % num(m)
    elif (m, n) == (0, 1) and not long_form:
        q = "?"
    elif m == n:
        q = "{%s,%s}" % (num(m), num(n)) if long_form else "{%s}" % num(m)
    elif m == 0 and not long_form:
        q = "{,%s}" % num(n)
    else:
        q = "{%s,%s}" % (num(m), num(n))
    if q[0] == "{" and rnd.randrange(100) < sp.spaces_in_quantifier:
        ws = rnd.choice([" ", "\t", "  "])
        q = q.replace("{", "{" + ws, 1) if rnd.random() < 0.5 else q.replace("}", ws + "}", 1)
        if "," in q and rnd.random() < 0.5:
            q = q.replace(",", "," + ws, 1)
    return q + ("?" if lazy else "")


def render(node: Any, rnd: random.Random, sp: Optional[Spelling] = None) -> str:
    """Render the AST as a Python regular expression."""
    sp = sp or Spelling()
    k = node[0]
    if k == "u":
        return "|".join(render(c, rnd, sp) for c in node[1])
    if k == "cat":
        return "".join(render(t, rnd, sp) for t in node[1])
    if k == "c":
        return _lit(rnd, node[1], sp)
    if k in (".", "^", "$"):
        return k
    if k == "g":
        return "(" + render(node[1], rnd, sp) + ")"
    if k == "q":
        return render(node[1], rnd, sp) + _quant(rnd, node[2], node[3], node[4], sp)
    if k == "set":
        items = list(node[2])
        out = ["[", "^" if node[1] else ""]
        if (
            sp.raw_rbracket_first
            and rnd.randrange(100) < sp.raw_rbracket_first
            and any(it == [0x5D, None] for it in items)
        ):
            items.remove([0x5D, None])
            out.append("]")
            # something now precedes the other items: they are not "first" any more
            first_free = False
        else:
            first_free = True
        for i, (lo, hi) in enumerate(items):
            first = first_free and i == 0
            last_single = i == len(items) - 1 and hi is None
            out.append(_set_char(rnd, lo, sp, first, last_single, hi is not None))
            if hi is not None:
                out.append("-")
                out.append(_set_char(rnd, hi, sp, False, False, True))
        out.append("]")
        return "".join(out)
    raise ValueError(f"unknown AST node {node!r}")


# ---------------------------------------------------------------------------
# Near-miss pattern texts
# ---------------------------------------------------------------------------

NEAR_MISS_ALPHABET = (
    list("()[]{}|*+?.^$\\-,") * 3
    + list("0123459")
    + list("xuUabAF")
    + [" ", "\t", "\n", "}", "{", "]", "[", "^", "-", "²", "٣", "\U0001F600", "\U00010000", "\ud800"]
)


def mutate_text(s: str, rnd: random.Random, edits: Optional[int] = None) -> str:
    """Apply 1-3 character edits (insert / delete / replace / duplicate / transpose)."""
    cps = list(s)
    for _ in range(edits if edits is not None else rnd.randint(1, 3)):
        op = rnd.randrange(6)
        pos = rnd.randrange(len(cps) + 1)
        if op == 0 or not cps:
            cps.insert(pos, rnd.choice(NEAR_MISS_ALPHABET))
        elif op == 1:
            del cps[min(pos, len(cps) - 1)]
        elif op == 2:
            cps[min(pos, len(cps) - 1)] = rnd.choice(NEAR_MISS_ALPHABET)
        elif op == 3:
            j = min(pos, len(cps) - 1)
            cps.insert(j, cps[j])
        elif op == 4 and len(cps) > 1:
            j = min(pos, len(cps) - 2)
            cps[j], cps[j + 1] = cps[j + 1], cps[j]
        else:
            cps.insert(pos, rnd.choice(NEAR_MISS_ALPHABET))
    return "".join(cps)


# ---------------------------------------------------------------------------
# String samplers
# ---------------------------------------------------------------------------

_SAMPLE_CAP = 16


def _in_items(cp: int, items: Sequence[Sequence[Optional[int]]]) -> bool:
    return any(lo <= cp <= (lo if hi is None else hi) for lo, hi in items)  # type: ignore


def _sample(node: Any, rnd: random.Random, alpha: Sequence[int], out: List[int]) -> None:
    k = node[0]
    if k == "c":
        out.append(node[1])
    elif k in ("^", "$"):
        return
    elif k == ".":
        cp = rnd.choice(alpha)
        out.append(cp if cp != 0x0A else ord("a"))
    elif k == "set":
        items = node[2]
        if node[1]:
            for _ in range(12):
                cp = rnd.choice(alpha)
                if not _in_items(cp, items):
                    out.append(cp)
                    return
            for cp in (ord("a"), ord("Z"), 0x20AC, 0x1F600, 0x7E):
                if not _in_items(cp, items):
                    out.append(cp)
                    return
            out.append(0x1F)
        else:
            lo, hi = rnd.choice(items)
            if hi is None or hi == lo:
                out.append(lo)
            else:
                x = rnd.randrange(5)
                out.append(lo if x == 0 else hi if x == 1 else lo + 1 if x == 2
                           else rnd.randint(lo, hi))
    elif k == "g":
        _sample(node[1], rnd, alpha, out)
    elif k == "q":
        m, n = node[2], node[3]
        if len(out) > _SAMPLE_CAP:
            reps = m
        elif n is None:
            reps = m + rnd.choice([0, 0, 1, 2, 3])
        else:
            reps = rnd.choice([m, n, rnd.randint(m, n)])
        for _ in range(reps):
            _sample(node[1], rnd, alpha, out)
    elif k == "u":
        _sample(rnd.choice(node[1]), rnd, alpha, out)
    elif k == "cat":
        for t in node[1]:
            _sample(t, rnd, alpha, out)
    else:
        raise ValueError(k)


def positive(ast: Any, rnd: random.Random, alpha: Optional[Sequence[int]] = None) -> str:
    """A string generated *from* the AST (matches unless inner anchors get in the way)."""
    out = []  # type: List[int]
    _sample(ast, rnd, alpha or alphabet(ast), out)
    return "".join(map(chr, out))


def neighbour(s: str, rnd: random.Random, alpha: Sequence[int], wide: bool = False) -> str:
    """One edit away from ``s``: delete / insert / replace (alphabet, +-1, +-0x400) / ..."""
    cps = [ord(c) for c in s]
    op = rnd.randrange(9 if wide else 7)
    if not cps:
        return chr(rnd.choice(alpha))
    i = rnd.randrange(len(cps))
    if op == 0:
        del cps[i]
    elif op == 1:
        cps.insert(rnd.randrange(len(cps) + 1), rnd.choice(alpha))
    elif op == 2:
        cps[i] = rnd.choice(alpha)
    elif op == 3:
        cps[i] = min(MAX_CP, max(0, cps[i] + rnd.choice([-1, 1])))
    elif op == 4:
        cps.insert(i, cps[i])
    elif op == 5:
        cps = cps[: rnd.randrange(len(cps))]
    elif op == 6:
        cps.append(rnd.choice(alpha))
    elif op == 7:
        cps[i] = min(MAX_CP, max(0, cps[i] + rnd.choice([-0x400, 0x400])))
    else:
        # BMP look-alike of an astral character: its low 16 bits
        cps[i] = cps[i] & 0xFFFF if cps[i] >= SUPP else cps[i] + 0x10000
    return "".join(map(chr, cps))


def strings(
    ast: Any,
    rnd: random.Random,
    n_pos: int = 14,
    n_neigh: int = 20,
    n_rand: int = 10,
    no_line_breaks: bool = False,
    no_lone_surrogates: bool = False,
    wide_neighbours: bool = False,
) -> Tuple[List[str], int]:
    """
    Strings for comparing two matchers of the language of ``ast``.

    Returns the de-duplicated list (positives first) and the number of positives in it.
    """
    alpha = alphabet(ast)
    if no_line_breaks:
        alpha = [cp for cp in alpha if cp not in LINE_BREAKS]
    if no_lone_surrogates:
        alpha = [cp for cp in alpha if not 0xD800 <= cp <= 0xDFFF]
    seen = set()  # type: Set[str]
    out = []  # type: List[str]

    def ok(s: str) -> bool:
        if s in seen:
            return False
        if no_line_breaks and any(ord(c) in LINE_BREAKS for c in s):
            return False
        if no_lone_surrogates and any(0xD800 <= ord(c) <= 0xDFFF for c in s):
            return False
        return True

    pos = []  # type: List[str]
    for _ in range(n_pos):
        s = positive(ast, rnd, alpha)
        if ok(s):
            seen.add(s)
            out.append(s)
            pos.append(s)
    n_positive = len(out)
    base = pos or [""]
    for _ in range(n_neigh):
        s = neighbour(rnd.choice(base), rnd, alpha, wide_neighbours)
        if rnd.random() < 0.25:
            s = neighbour(s, rnd, alpha, wide_neighbours)
        if ok(s):
            seen.add(s)
            out.append(s)
    for _ in range(n_rand):
        s = "".join(chr(rnd.choice(alpha)) for _ in range(rnd.choice([0, 1, 1, 2, 3, 5])))
        if ok(s):
            seen.add(s)
            out.append(s)
    return out, n_positive


def u16(s: str) -> str:
    """The UTF-16 code units of ``s``, one Python character per code unit."""
    out = []  # type: List[str]
    for c in s:
        cp = ord(c)
        if cp >= SUPP:
            cp -= SUPP
            out.append(chr(0xD800 + (cp >> 10)))
            out.append(chr(0xDC00 + (cp & 0x3FF)))
        else:
            out.append(c)
    return "".join(out)


# ---------------------------------------------------------------------------
# Safety net around Python's backtracking matcher
# ---------------------------------------------------------------------------


class TooSlow(Exception):
    """The CPU-time allowance of :func:`cpu_limited` ran out."""


def _on_vtalrm(signum: int, frame: Any) -> None:
    raise TooSlow()


def cpu_limited(fn: Any, seconds: float = 3.0) -> Tuple[bool, Any]:
    """
    Run ``fn()`` with an allowance of *user CPU time* of this process (``ITIMER_VIRTUAL``).

    ``re`` backtracks exponentially on some patterns (``(a*)*b``); its matcher polls for
    signals, so a virtual-time alarm ends such a match. The allowance is CPU time, not wall
    time, so that machine load does not decide which cases are judged. Returns
    ``(finished, result)``; callers count unfinished cases as excluded, never as failures.
    Main thread only.
    """
    import signal

    old = signal.signal(signal.SIGVTALRM, _on_vtalrm)
    try:
        try:
            signal.setitimer(signal.ITIMER_VIRTUAL, seconds)
            result = fn()
            signal.setitimer(signal.ITIMER_VIRTUAL, 0)
            return True, result
        except TooSlow:
            return False, None
    except TooSlow:  # the alarm fired between the end of fn() and its cancellation
        return False, None
    finally:
        signal.setitimer(signal.ITIMER_VIRTUAL, 0)
        signal.signal(signal.SIGVTALRM, old)


# ---------------------------------------------------------------------------
# JSON-safe transport of strings which may contain lone surrogates
# ---------------------------------------------------------------------------


def enc(s: str) -> Any:
    """JSON-able form of ``s``: the string itself unless JSON would alter it (surrogates)."""
    if any(0xD800 <= ord(c) <= 0xDFFF for c in s):
        return {"cps": [ord(c) for c in s]}
    return s


def dec(x: Any) -> str:
    """Inverse of :func:`enc`, tolerant of shrunk shapes."""
    if isinstance(x, str):
        return x
    if isinstance(x, dict) and isinstance(x.get("cps"), list):
        return "".join(chr(c) for c in x["cps"] if isinstance(c, int) and 0 <= c <= MAX_CP)
    raise ValueError("not an encoded string")


# ---------------------------------------------------------------------------
# Harness performance: avoid CPython 3.12 data-stack chunk thrashing
# ---------------------------------------------------------------------------

_ROOMY = None  # type: Any


def with_roomy_stack(fn: Any) -> Any:
    """
    Call ``fn()`` from inside a frame that owns a ~1 MiB interpreter data-stack chunk.

    CPython 3.12 keeps Python frames in 16 KiB "data stack" chunks which are mmap'ed when a
    frame does not fit and munmap'ed as soon as that frame returns. The contract-heavy code
    under test (icontract wrappers around every cursor move) calls tiny functions millions
    of times at a depth that can sit exactly on a chunk boundary, so that every call maps and
    unmaps a chunk (measured here: 3 000 munmap per parsed pattern at 0.6 ms each, a 100x
    slow-down; always the case under atheris' bytecode instrumentation). A frame with 65 000
    local variables forces one 1 MiB chunk, half of which stays free for the frames of the
    code under test. This changes nothing but the speed of the harness.
    """
    global _ROOMY
    if _ROOMY is None:
        ns = {}  # type: Any
        exec(
            "def roomy(fn):\n    "
            + "=".join("v%d" % i for i in range(65000))
            + "=0\n    return fn()\n",
            ns,
        )
        _ROOMY = ns["roomy"]
    return _ROOMY(fn)
