"""Generate and import the Python SDK of a meta-model; convert neutral instances to SDK instances."""
from __future__ import annotations

import importlib
import itertools
import os
import pathlib
import shutil
import sys
from typing import Any, Dict, List, Optional, Tuple

from vlib import sut
from vlib.mmgen import Spec, TRef
from vlib.refmodel import py_class, py_prop, py_upper

_counter = itertools.count()


class PySdk:
    """An imported generated Python SDK (context manager: cleans modules and files)."""

    def __init__(self, modname: str, root: pathlib.Path) -> None:
        self.modname = modname
        self.root = root
        self.types = importlib.import_module(f"{modname}.types")
        self.verification = importlib.import_module(f"{modname}.verification")
        self.jsonization = importlib.import_module(f"{modname}.jsonization")
        self.xmlization = importlib.import_module(f"{modname}.xmlization")
        self.constants = importlib.import_module(f"{modname}.constants")
        self.stringification = importlib.import_module(f"{modname}.stringification")

    def close(self) -> None:
        for k in [k for k in sys.modules if k == self.modname or k.startswith(self.modname + ".")]:
            del sys.modules[k]
        try:
            sys.path.remove(str(self.root))
        except ValueError:
            pass
        shutil.rmtree(self.root.parent, ignore_errors=True)

    def __enter__(self) -> "PySdk":
        return self

    def __exit__(self, *a: Any) -> None:
        self.close()


def build_py_sdk(
    text: str, base: pathlib.Path, extra_snippets: Optional[Dict[str, str]] = None
) -> Tuple[Optional[PySdk], str]:
    """
    Generate the Python target and import it under a unique module name.

    Returns (sdk, "") or (None, reason) where reason is 'reported:<stderr>' or 'crash:<bucket>'.
    Exceptions of the *import* of generated code propagate (a generated SDK that does not
    import is a defect of its own, decided by the caller).
    """
    from vlib import runner

    modname = f"vsdk_{os.getpid()}_{next(_counter)}"
    sn = {"qualified_module_name.txt": modname}
    if extra_snippets:
        sn.update(extra_snippets)
    try:
        rc, out, err, d = sut.generate(text, "python", base, extra_snippets=sn, keep=True)
    except BaseException as e:  # noqa
        if type(e).__name__ in ("KeyboardInterrupt", "SystemExit", "MemoryError"):
            raise
        return None, f"crash:{runner.exc_bucket(e)}"
    assert d is not None
    if rc != 0:
        shutil.rmtree(d, ignore_errors=True)
        return None, f"reported:{err[:300]}"
    root = d / "out"
    sys.path.insert(0, str(root))
    importlib.invalidate_caches()
    try:
        return PySdk(modname, root), ""
    except BaseException:
        for k in [k for k in sys.modules if k == modname or k.startswith(modname + ".")]:
            del sys.modules[k]
        sys.path.remove(str(root))
        shutil.rmtree(d, ignore_errors=True)
        raise


def to_sdk(spec: Spec, sdk: PySdk, v: Any) -> Any:
    """Neutral value -> SDK value (through the generated constructors)."""
    if isinstance(v, dict):
        if "cls" in v:
            cls = getattr(sdk.types, py_class(v["cls"]))
            kwargs = {py_prop(k): to_sdk(spec, sdk, x) for k, x in v["props"].items()}
            return cls(**kwargs)
        if "enum" in v:
            return getattr(getattr(sdk.types, py_class(v["enum"])), py_upper(v["lit"]))
        if "bytes" in v:
            return bytes(v["bytes"])
    if isinstance(v, list):
        return [to_sdk(spec, sdk, x) for x in v]
    return v
