"""C10 — Python SDK serialization round-trips and rejects bad documents."""
from __future__ import annotations

import copy
import json
import math
import re
import shutil
import struct
import sys
from typing import Any, Dict, List, Optional, Tuple

from hypothesis import strategies as st

from vlib import instgen, mmgen, refmodel, runner, sdk
from vlib.refmodel import py_prop

PID = "C10"
RULE = (
    "Hypothesis: accepted meta-model (vlib.mmgen: class DAGs incl. abstract property types with dispatch, lists and "
    "optional values of every kind, constrained primitives, enumerations with awkward literal values) -> Python SDK "
    "imported -> instances with hard values (strings with \\r, \\r\\n, surrounding whitespace, ]]>, &, <, astral, DEL; "
    "floats -0.0, subnormal, max, 17 digits; ints up to +-2^63; bytes of length 0-8; empty lists). Oracle (positive): "
    "X_from_jsonable(json.loads(json.dumps(to_jsonable(x)))) and xmlization.from_str(to_str(x)) are field-by-field equal to "
    "x (own comparison over the spec: concrete type, floats by bit pattern, bytes by value, enum literal identity, list "
    "order). Oracle (negative): each of ~10 JSON and ~8 XML single mutations of a produced document either is still "
    "accepted or raises exactly the module's DeserializationException - any other exception is a violation; mutations that "
    "make the document certainly invalid (missing required property, wrong JSON type, unknown modelType, non-object, unknown "
    "enumeration literal, bad base64, unknown/misplaced XML element, stray text, truncated XML) must be rejected. "
    "Non-trivial = instance containing a list, a nested instance via an abstract type, bytes, a float or a \\r; distinct by "
    "(model, instance)."
)
ASSUMPTIONS = [
    "XML-representable text = XML 1.0 Char production; instances with other characters are only round-tripped through JSON",
    "floats restricted to finite values (inf/nan are outside the asserted core domain and counted separately)",
    "a JSON 'true'/'false' where a number is expected counts as mistyped (JSON booleans are not numbers)",
    "XML mutations that are only asserted not to raise a foreign exception (acceptance is tolerated): extra attribute, "
    "stray text inside a list/class element, text after the root element, duplicated empty element; JSON: unknown "
    "property, modelType edits on directly de-serialized concrete classes",
]

N_INST_QUICK = 10
N_INST_THOROUGH = 30

_XML_BAD = re.compile("[^\\u0009\\u000A\\u000D\\u0020-\\uD7FF\\uE000-\\uFFFD\\U00010000-\\U0010FFFF]")


def opts() -> mmgen.Opts:
    return mmgen.Opts(max_classes=5, max_props=4, invariants="none", docs="none", adversarial_text=True, nested_lists=False,
                      defaults=True)


@st.composite
def cases(draw: Any, n_inst: int) -> Dict[str, Any]:
    spec = draw(mmgen.specs(opts()))
    ig = instgen.InstGen(spec, hard_values=True)
    insts = draw(st.lists(ig.any_instance(), min_size=n_inst, max_size=n_inst))
    muts = draw(st.lists(st.tuples(st.integers(0, 10_000), st.integers(0, 10_000)), min_size=n_inst * 4, max_size=n_inst * 4))
    return {"spec": spec.to_json(), "instances": insts, "muts": muts}


def _feq(a: float, b: float) -> bool:
    return struct.pack("<d", a) == struct.pack("<d", b)


def same(spec: mmgen.Spec, s: Any, t: Any, a: Any, b: Any, path: str) -> Optional[str]:
    """Field-by-field equality of two SDK values of declared type ``t``; returns a difference or None."""
    if t.kind == "opt":
        if a is None or b is None:
            return None if (a is None and b is None) else f"{path}: {a!r} vs {b!r}"
        return same(spec, s, t.item, a, b, path)
    if t.kind in ("prim", "cp"):
        prim = t.name if t.kind == "prim" else spec.cp_prim(t.name)
        if type(a) is not type(b) and not (prim == "bytearray" and isinstance(a, (bytes, bytearray)) and isinstance(b, (bytes, bytearray))):
            return f"{path}: type {type(a).__name__} vs {type(b).__name__} ({a!r} vs {b!r})"
        if prim == "float":
            return None if _feq(a, b) else f"{path}: float {a!r} vs {b!r}"
        if prim == "bytearray":
            return None if bytes(a) == bytes(b) else f"{path}: bytes {a!r} vs {b!r}"
        return None if a == b else f"{path}: {a!r} vs {b!r}"
    if t.kind == "enum":
        return None if a is b else f"{path}: enum {a!r} vs {b!r}"
    if t.kind == "list":
        if not isinstance(b, list) or len(a) != len(b):
            return f"{path}: list length {len(a)} vs {b!r}"
        for i, (x, y) in enumerate(zip(a, b)):
            d = same(spec, s, t.item, x, y, f"{path}[{i}]")
            if d:
                return d
        return None
    if t.kind == "class":
        if type(a) is not type(b):
            return f"{path}: class {type(a).__name__} vs {type(b).__name__}"
        cname = next(c.name for c in spec.classes if refmodel.py_class(c.name) == type(a).__name__)
        for p in spec.all_props(cname):
            d = same(spec, s, p.type, getattr(a, py_prop(p.name)), getattr(b, py_prop(p.name)), f"{path}.{p.name}")
            if d:
                return d
        return None
    raise AssertionError(t)


def _strings(v: Any) -> List[str]:
    if isinstance(v, str):
        return [v]
    if isinstance(v, dict):
        if "cls" in v:
            return [x for y in v["props"].values() for x in _strings(y)]
        return []
    if isinstance(v, list):
        return [x for y in v for x in _strings(y)]
    return []


def _has(v: Any, pred: Any) -> bool:
    if pred(v):
        return True
    if isinstance(v, dict) and "cls" in v:
        return any(_has(x, pred) for x in v["props"].values())
    if isinstance(v, list):
        return any(_has(x, pred) for x in v)
    return False


def from_jsonable_fn(s: Any, cname: str) -> Any:
    return getattr(s.jsonization, f"{cname.lower()}_from_jsonable")


# ---- JSON mutations: (name, certainly_invalid) ----


def _json_paths(doc: Any, prefix: Tuple[Any, ...] = ()) -> List[Tuple[Any, ...]]:
    out = [prefix]
    if isinstance(doc, dict):
        for k, v in doc.items():
            out.extend(_json_paths(v, prefix + (k,)))
    elif isinstance(doc, list):
        for i, v in enumerate(doc):
            out.extend(_json_paths(v, prefix + (i,)))
    return out


def _get(doc: Any, path: Tuple[Any, ...]) -> Any:
    for p in path:
        doc = doc[p]
    return doc


def _set(doc: Any, path: Tuple[Any, ...], val: Any) -> Any:
    doc = copy.deepcopy(doc)
    if not path:
        return val
    cur = doc
    for p in path[:-1]:
        cur = cur[p]
    cur[path[-1]] = val
    return doc


def _del(doc: Any, path: Tuple[Any, ...]) -> Any:
    doc = copy.deepcopy(doc)
    cur = doc
    for p in path[:-1]:
        cur = cur[p]
    del cur[path[-1]]
    return doc


def json_mutation(doc: Any, a: int, b: int, required_keys: set) -> Optional[Tuple[str, bool, Any]]:
    paths = _json_paths(doc)
    path = paths[a % len(paths)]
    val = _get(doc, path)
    kind = b % 12
    if kind == 11 and isinstance(val, str):
        return ("string->non-base64", False, _set(doc, path, ["!!!!", "\u00e9", "a", "===="][a % 4]))
    if kind == 0 and path and isinstance(path[-1], str):
        invalid = path[-1] in required_keys
        return ("drop-property", invalid, _del(doc, path))
    if kind == 1:
        # wrong JSON type
        if isinstance(val, bool):
            return ("bool->string", True, _set(doc, path, "true"))
        if isinstance(val, (int, float)):
            return ("number->string", True, _set(doc, path, str(val)))
        if isinstance(val, str):
            return ("string->number", True, _set(doc, path, 123))
        if isinstance(val, list):
            return ("array->object", True, _set(doc, path, {}))
        if isinstance(val, dict):
            return ("object->array", True, _set(doc, path, []))
    if kind == 2 and isinstance(val, dict):
        d = copy.deepcopy(val)
        d["unknownProperty"] = 1
        return ("unknown-property", False, _set(doc, path, d))
    if kind == 3 and isinstance(val, dict) and "modelType" in val:
        d = copy.deepcopy(val)
        d["modelType"] = "NoSuchModelType"
        return ("unknown-modelType", False, _set(doc, path, d))
    if kind == 4:
        return ("null", bool(path) and (not isinstance(path[-1], str) or path[-1] in required_keys) or not path, _set(doc, path, None))
    if kind == 5 and isinstance(val, (int, float)) and not isinstance(val, bool):
        return ("number->bool", True, _set(doc, path, True))
    if kind == 6 and isinstance(val, dict):
        return ("object->string", True, _set(doc, path, "x"))
    if kind == 7 and isinstance(val, list):
        return ("array->number", True, _set(doc, path, 7))
    if kind == 8 and isinstance(val, int) and not isinstance(val, bool):
        return ("int->fraction", True, _set(doc, path, val + 0.5))
    if kind == 9 and isinstance(val, list) and val:
        return ("array-item->nested-array", True, _set(doc, path + (0,), [val[0]]))
    if kind == 10 and isinstance(val, dict) and "modelType" in val:
        d = copy.deepcopy(val)
        d["modelType"] = 42
        return ("modelType-not-string", False, _set(doc, path, d))
    return None


def xml_mutation(text: str, a: int, b: int, prim_list_tags: Any = ()) -> Optional[Tuple[str, bool, str]]:
    kind = b % 8
    tags = list(re.finditer(r"<([A-Za-z_][\w.-]*)( [^>]*)?(/?)>", text))
    if not tags:
        return None
    m = tags[a % len(tags)]
    selfclosing = m.group(0).endswith("/>")
    if kind == 0:
        if selfclosing:
            return None
        name = "unknown-element-in-list-of-primitives" if m.group(1) in prim_list_tags else "unknown-element"
        return (name, True, text[: m.end()] + "<unknownElement>x</unknownElement>" + text[m.end():])
    if kind == 1:
        return ("wrong-namespace", True, text.replace('xmlns="', 'xmlns="urn:wrong:', 1))
    if kind == 2 and not selfclosing:
        # stray text directly inside an element that has child elements
        if text[m.end(): m.end() + 1] == "<" and text[m.end(): m.end() + 2] != "</":
            return ("stray-text", False, text[: m.end()] + "stray" + text[m.end():])
        return None
    if kind == 3:
        inner = m.group(0)[1:-2] if selfclosing else m.group(0)[1:-1]
        return ("attribute", False, text[: m.start()] + f"<{inner} bogus=\"1\"{'/' if selfclosing else ''}>" + text[m.end():])
    if kind == 4:
        return ("trailing-text", False, text + "trailing")
    if kind == 5 and len(text) > 10:
        cut = 1 + a % (len(text) - 1)
        return ("truncated", True, text[:cut])
    if kind == 6:
        return ("wrong-root", True, re.sub(r"^<([A-Za-z_][\w.-]*)", r"<noSuchRoot", re.sub(r"</([A-Za-z_][\w.-]*)>$", "</noSuchRoot>", text)))
    if kind == 7:
        return ("duplicate-element", False, text[: m.start()] + m.group(0) + text[m.start():]) if selfclosing else None
    return None


def evaluate(case: Dict[str, Any], base: Any, ctx: Any = None) -> List[Tuple[str, str]]:
    fails = []  # type: List[Tuple[str, str]]
    spec = mmgen.Spec.from_json(case["spec"])
    text = mmgen.render(spec)
    try:
        s, why = sdk.build_py_sdk(text, base)
    except BaseException as e:  # noqa
        msg = re.sub(r"'[^']*'", "'_'", str(e).split("(")[0])[:60].strip()
        return [(f"sdk-import-fails:{type(e).__name__}:{msg}", runner.exc_text(e) + "\n" + text[-1500:])]
    if s is None:
        if ctx is not None:
            ctx.exclude("python-target-" + why.split(":")[0])
        return []
    jexc = s.jsonization.DeserializationException
    xexc = s.xmlization.DeserializationException
    muts = list(case.get("muts") or [])
    with s:
        for idx, neutral in enumerate(case["instances"]):
            cname = neutral["cls"]
            t_cls = mmgen.TRef("class", cname)
            try:
                x = sdk.to_sdk(spec, s, neutral)
            except BaseException as e:  # noqa
                fails.append((f"instance-construction:{type(e).__name__}", runner.exc_text(e)))
                continue
            strs = _strings(neutral)
            xml_ok = not any(_XML_BAD.search(z) for z in strs)
            nt = (_has(neutral, lambda v: isinstance(v, list)) or _has(neutral, lambda v: isinstance(v, float))
                  or _has(neutral, lambda v: isinstance(v, dict) and "bytes" in v) or any("\r" in z for z in strs))
            if ctx is not None:
                ctx.case(nt, key=[text, neutral], sample={"instance": neutral, "model_tail": text[-300:]},
                         classes=["instance", "xml-representable" if xml_ok else "json-only"])
            # ---- JSON round trip ----
            doc = None
            try:
                jsonable = s.jsonization.to_jsonable(x)
                doc = json.loads(json.dumps(jsonable))
                y = from_jsonable_fn(s, cname)(doc)
                d = same(spec, s, t_cls, x, y, "")
                if d:
                    fails.append(("json-roundtrip-differs", f"{d}\ninstance={neutral!r}\njson={json.dumps(jsonable)[:600]}"))
            except BaseException as e:  # noqa
                cause = type(e).__name__
                if isinstance(e, jexc) and "Expected the property modelType" in str(e) and _no_model_type_with_descendants(spec, neutral):
                    cause = "modelType-demanded-but-not-written(class-with-descendants-without-with_model_type)"
                fails.append((f"json-roundtrip-raises:{cause}", f"instance={neutral!r}\n{runner.exc_text(e)}"))
            # ---- XML round trip ----
            xml = None
            if xml_ok:
                try:
                    xml = s.xmlization.to_str(x)
                    y = s.xmlization.from_str(xml)
                    d = same(spec, s, t_cls, x, y, "")
                    if d:
                        cause = "carriage-return" if ("'\\r" in d or "\\r'" in d or "\\r" in d) else "other"
                        fails.append((f"xml-roundtrip-differs:{cause}", f"{d}\ninstance={neutral!r}\nxml={xml[:600]}"))
                except BaseException as e:  # noqa
                    cause = type(e).__name__
                    if isinstance(e, xexc) and "Expected an element with text" in str(e):
                        if _has(neutral, lambda v: isinstance(v, dict) and v.get("bytes") == []):
                            cause = "empty-bytes-element-has-no-text"
                        elif _has(neutral, lambda v: v == ""):
                            cause = "empty-string-element-has-no-text"
                    elif isinstance(e, xexc) and "Expected the property modelType" in str(e):
                        cause = "modelType"
                    fails.append((f"xml-roundtrip-raises:{cause}", f"instance={neutral!r}\n{runner.exc_text(e)}"))
            # ---- negative: mutated documents ----
            required = set()
            prim_list_tags = set()
            for c in spec.classes:
                for p in c.props:
                    if not p.type.optional:
                        required.add(_json_name(p.name))
                    core = p.type.core
                    if core.kind == "list" and core.item.kind in ("prim", "cp", "enum"):
                        prim_list_tags.add(_json_name(p.name))
            for a, b in muts[idx * 4: idx * 4 + 4]:
                if doc is not None:
                    jm = json_mutation(doc, a, b, required)
                    if jm is not None:
                        name, invalid, mdoc = jm
                        if ctx is not None:
                            ctx.classes[f"json-mut:{name}"] += 1
                        try:
                            from_jsonable_fn(s, cname)(mdoc)
                            if invalid:
                                fails.append((f"json-accepted-invalid:{name}", f"doc={json.dumps(mdoc)[:600]}\noriginal={json.dumps(doc)[:600]}"))
                        except jexc:
                            pass
                        except BaseException as e:  # noqa
                            fails.append((f"json-other-exception:{type(e).__name__}", f"mutation={name} doc={json.dumps(mdoc)[:600]}\n{runner.exc_text(e)}"))
                if xml is not None:
                    xm = xml_mutation(xml, a, b, prim_list_tags)
                    if xm is not None:
                        name, invalid, mxml = xm
                        if ctx is not None:
                            ctx.classes[f"xml-mut:{name}"] += 1
                        try:
                            s.xmlization.from_str(mxml)
                            if invalid:
                                fails.append((f"xml-accepted-invalid:{name}", f"xml={mxml[:600]}\noriginal={xml[:600]}"))
                        except xexc:
                            pass
                        except BaseException as e:  # noqa
                            fails.append((f"xml-other-exception:{type(e).__name__}", f"mutation={name} xml={mxml[:600]}\n{runner.exc_text(e)}"))
    return fails


def _no_model_type_with_descendants(spec: mmgen.Spec, neutral: Any) -> bool:
    """Some class in the instance has descendants but no (inherited) with_model_type."""
    def wmt(name: str) -> bool:
        return any(spec.cls(k).with_model_type for k in [name] + spec.ancestors(name))

    def walk(v: Any) -> bool:
        if isinstance(v, dict) and "cls" in v:
            c = v["cls"]
            if spec.descendants(c) and not wmt(c):
                return True
            return any(walk(x) for x in v["props"].values())
        if isinstance(v, list):
            return any(walk(x) for x in v)
        return False

    return walk(neutral)


def _json_name(identifier: str) -> str:
    parts = identifier.split("_")
    return parts[0].lower() + "".join(p.capitalize() for p in parts[1:])


def shard(ctx: runner.Ctx) -> None:
    n = ctx.n(200, 15_000)
    n_inst = N_INST_QUICK if ctx.quick else N_INST_THOROUGH

    def one(case: Dict[str, Any]) -> None:
        ctx.classes["models"] += 1
        for b, m in evaluate(case, ctx.scratch, ctx):
            ctx.fail(b, case, m)

    runner.hyp_run(cases(n_inst), one, n, ctx.seed)


def replay(case: Any) -> List[Tuple[str, str]]:
    if not isinstance(case, dict) or "spec" not in case:
        return []
    base = runner.make_scratch("c10-replay")
    try:
        case = dict(case)
        case.setdefault("instances", [])
        case.setdefault("muts", [])
        return evaluate(case, base, None)
    except (KeyError, TypeError, AttributeError, IndexError, AssertionError, StopIteration):
        return []
    finally:
        shutil.rmtree(base, ignore_errors=True)


def health(m: Any, tier: str) -> Any:
    models = m["classes"].get("models", 0)
    skipped = sum(v for k, v in m["excluded"].items())
    if models and skipped > 0.3 * models:
        return f"{skipped} of {models} models skipped: {m['excluded']}"
    return None


if __name__ == "__main__":
    runner.main(sys.modules[__name__])
