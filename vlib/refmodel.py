"""
Reference semantics of a meta-model, independent of the repository:

* the meta-model source is *executed as Python* with recording stubs for the markers
  (``invariant``, ``abstract``, ``serialization``, ``verification``, ``constant_*`` ...), which
  yields real Python classes, the original invariant lambdas and the original functions;
* instances are walked by the ``Spec`` graph; the expected verification errors are the
  (path, description) pairs of all invariants that evaluate to False.
"""
from __future__ import annotations

import enum
import re
import typing
from typing import Any, Dict, List, Optional, Tuple

from vlib.mmgen import Spec, TRef


class RefModel:
    def __init__(self, ns: Dict[str, Any], invs: Dict[str, List[Tuple[Any, str]]], fns: Dict[str, Any]) -> None:
        self.ns = ns
        self.invs = invs  # type name -> [(lambda, description)] (own invariants only)
        self.fns = fns


def load(text: str) -> RefModel:
    """Execute the meta-model text with recording stubs."""
    invs = {}  # type: Dict[str, List[Tuple[Any, str]]]
    fns = {}  # type: Dict[str, Any]
    pending = []  # type: List[Tuple[Any, str]]

    class _DBC:
        pass

    def invariant(condition: Any = None, description: Any = None, **kw: Any) -> Any:
        def deco(cls: Any) -> Any:
            invs.setdefault(cls.__name__, []).append((condition, description))
            return cls

        return deco

    def abstract(cls: Any) -> Any:
        cls.__is_abstract__ = True
        return cls

    def serialization(**kw: Any) -> Any:
        def deco(cls: Any) -> Any:
            return cls

        return deco

    def verification(fn: Any) -> Any:
        fns[fn.__name__] = fn
        return fn

    def implementation_specific(x: Any) -> Any:
        return x

    def non_mutating(x: Any) -> Any:
        return x

    def constant_set(values: Any = None, description: Any = None, superset_of: Any = None) -> Any:
        out = set(values or [])
        for s in superset_of or []:
            out |= set(s)
        return out

    def constant(value: Any = None, description: Any = None) -> Any:
        return value

    def require(*a: Any, **k: Any) -> Any:
        return lambda f: f

    ns = {
        "__name__": "meta_model",
        "invariant": invariant, "abstract": abstract, "serialization": serialization,
        "verification": verification, "implementation_specific": implementation_specific,
        "non_mutating": non_mutating, "constant_set": constant_set,
        "constant_str": constant, "constant_int": constant, "constant_float": constant,
        "constant_bool": constant, "constant_bytearray": constant,
        "DBC": _DBC, "Enum": enum.Enum, "List": typing.List, "Optional": typing.Optional,
        "Set": typing.Set, "match": re.match, "require": require, "ensure": require,
        # ``class X(bool, DBC)`` is a legal constrained primitive of the meta-model but not executable
        # Python (bool cannot be subclassed); constrained-primitive classes are never instantiated by
        # the reference (values stay raw primitives), so a subclassable stand-in is enough.
        "bool": type("bool", (int,), {}),
    }  # type: Dict[str, Any]
    # the import statements of the meta-model are not executable here (aas_core_meta is not
    # installed): strip them, every imported name is pre-bound above
    lines = []
    skipping = False
    for ln in text.split("\n"):
        if skipping:
            if ")" in ln:
                skipping = False
            lines.append("")
            continue
        if ln.startswith("from ") or ln.startswith("import "):
            if "(" in ln and ")" not in ln:
                skipping = True
            lines.append("")
            continue
        lines.append(ln)
    exec(compile("\n".join(lines), "<meta-model>", "exec"), ns)  # noqa: S102 (our own generated text)
    return RefModel(ns, invs, fns)


# ---- SDK naming convention (written from the SDK's documented style, not imported) ----


def py_class(name: str) -> str:
    return "".join(p if p == p.upper() else p.capitalize() for p in name.split("_"))


def py_prop(name: str) -> str:
    return name.lower()


def py_upper(name: str) -> str:
    return name.upper()


# ---- instances ----
# neutral form: {"cls": name, "props": {prop: value}}; value: None | bool | int | float | str |
# {"bytes": [..]} | {"enum": E, "lit": L} | {"cls": ...} | [values]


def to_ref(spec: Spec, rm: RefModel, v: Any) -> Any:
    """Build an instance of the exec'd reference classes."""
    if isinstance(v, dict):
        if "cls" in v:
            cls = rm.ns[v["cls"]]
            kwargs = {k: to_ref(spec, rm, x) for k, x in v["props"].items()}
            obj = cls.__new__(cls)
            if kwargs:
                cls.__init__(obj, **kwargs)
            else:
                # classes without properties have no constructor in the meta-model
                pass
            return obj
        if "enum" in v:
            return getattr(rm.ns[v["enum"]], v["lit"])
        if "bytes" in v:
            return bytearray(v["bytes"])
    if isinstance(v, list):
        return [to_ref(spec, rm, x) for x in v]
    return v


def expected_errors(spec: Spec, rm: RefModel, neutral: Any, ref: Any, path: str = "") -> List[Tuple[str, str]]:
    """All (path, description) of false invariants; exceptions of the lambdas propagate."""
    out = []  # type: List[Tuple[str, str]]
    cname = neutral["cls"]
    for k in [cname] + list(reversed(spec.ancestors(cname))):
        for cond, desc in rm.invs.get(k, []):
            if not cond(ref):
                out.append((path, desc))
    for p in spec.all_props(cname):
        nv = neutral["props"].get(p.name)
        if nv is None:
            continue
        rv = getattr(ref, p.name)
        out.extend(_value_errors(spec, rm, p.type.core, nv, rv, f"{path}.{py_prop(p.name)}"))
    return out


def _value_errors(spec: Spec, rm: RefModel, t: TRef, nv: Any, rv: Any, path: str) -> List[Tuple[str, str]]:
    out = []  # type: List[Tuple[str, str]]
    if t.kind == "cp":
        for k in [t.name] + list(reversed(spec.cp_ancestors(t.name))):
            for cond, desc in rm.invs.get(k, []):
                if not cond(rv):
                    out.append((path, desc))
    elif t.kind == "class":
        out.extend(expected_errors(spec, rm, nv, rv, path))
    elif t.kind == "list":
        assert t.item is not None
        for i, (ni, ri) in enumerate(zip(nv, rv)):
            out.extend(_value_errors(spec, rm, t.item, ni, ri, f"{path}[{i}]"))
    return out
