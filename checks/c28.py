"""C28 — Smoke check agrees with the real generators."""
from __future__ import annotations

import io
import os
import pathlib
import random
import re
import shutil
import sys
import zlib
from typing import Any, Dict, List, Optional, Tuple

from hypothesis import strategies as st

from vlib import c03_gen as g
from vlib import mmgen, mmmut, runner, sut

PID = "C28"
RULE = (
    "Hypothesis: a meta-model in one of three kinds - accepted (vlib.mmgen, general or schema-form invariants, with or "
    "without implementation-specific verification functions), mutated (1-2 near-miss mutations of vlib.mmmut: the C01 "
    "grammar layer, ~50 % rejected by the front end) and late (an accepted model with ONE injected error that only the "
    "later stages see: contradictory length bounds on a property or on a constrained primitive [schema inference], "
    "len() of a number / unknown member in an invariant / unknown callee in a verification function [type inference in "
    "C# verification], a second class whose C# name collides [C# types]). Observed independently: fe = run.load_model "
    "returns a symbol table; inf = the jsonschema target succeeds (ok) or jsonschema AND xsd both fail with the same "
    "bullets (failed; both start with infer_constraints_by_class); cs = the csharp target run with the complete dummy "
    "snippet set (namespace + every implementation-specific key computed from the text with Python's ast) succeeds "
    "(ok) or fails with the headline of verify_for_types / 'Failed to generate <ns>/types.cs|verification.cs' (failed); "
    "anything else is 'unknown' and not used. Oracle: smoke.main.execute returns 0 or 1; rc==0 => fe and not inf-failed "
    "and not cs-failed; fe-failed or inf-failed or cs-failed => rc==1; rc==1 => stderr is a non-empty well-formed "
    "report (C03 shape); an exception escaping smoke is a violation unless load_model / jsonschema / csharp raise the "
    "same exception (bucket) on that model (then C01/C02's: excluded). Replay tier: the recorded cases under "
    "dev/test_data/smoke must reproduce expected_stderr.txt after replacing the model path by '<meta_model.py>'. "
    "Non-trivial = accepted by the front end but inf-failed or cs-failed; distinct by text."
)
ASSUMPTIONS = [
    "'C# types and verification generation' = csharp_lib.verify_for_types + types.cs + verification.cs as reported by the csharp target; a csharp failure in another file (generated before them) leaves cs unknown",
    "schema-inference failure is recognised by jsonschema and xsd reporting the same first-level bullets (both call infer_constraints_by_class first); a jsonschema-only failure leaves inf unknown",
    "only the implication 'exit 0 => all three succeed' is asserted; a smoke that is stricter than the generators is counted (class smoke-stricter), not flagged",
    "the recorded expectations are compared after str(model_path) -> '<meta_model.py>' (the normalisation the recorded files show; the repository contains no recording script for them)",
]

HEAD_VERIFY_TYPES = "Failed to verify the intermediate symbol table for generation of C# code"


# ---------------------------------------------------------------------------
# Generation
# ---------------------------------------------------------------------------


def _insert_before_version(text: str, stmt: str) -> str:
    i = text.find("__version__")
    if i < 0:
        return text + "\n" + stmt
    return text[:i] + stmt + "\n\n\n" + text[i:]


def _decorate(src: g.Src, cls_name: str, decos: List[str]) -> Optional[str]:
    c = src.cls(cls_name)
    if c is None:
        return None
    a, _ = src.span(c)
    if c.decorator_list:
        ats = src.decorator_ats(c)
        a = src.offs[ats[0][0] - 1] + ats[0][1] - 1
    return src.text[:a] + "".join(d + "\n" for d in decos) + src.text[a:]


def inject_late(text: str, rng: random.Random) -> Tuple[str, Optional[str]]:
    """Inject one late error; returns (kind, new text or None)."""
    src = g.Src(text)
    kind = rng.choice(["contradictory-len-prop", "contradictory-len-prop", "contradictory-len-cp", "len-of-number",
                       "unknown-member", "unknown-callee", "csharp-name-collision", "csharp-name-collision"])
    model_classes = [c for c in src.classes() if not g.Src.is_enum(c) and not g.Src.is_cp(c)]
    if kind == "contradictory-len-prop":
        sites = []
        for c in model_classes:
            for p in g.Src.props(c):
                t = src.get(p.annotation)
                core = t[len("Optional["):-1] if t.startswith("Optional[") else t
                if core in ("str", "bytearray") or core.startswith("List["):
                    sites.append((c.name, p.target.id, t.startswith("Optional[")))  # type: ignore
        if not sites:
            return kind, None
        cn, pn, opt = rng.choice(sites)
        guard = f"self.{pn} is None or " if opt else ""
        lo, hi = rng.choice([(5, 3), (2, 1), (10, 9)])
        return kind, _decorate(src, cn, [
            f'@invariant(lambda self: {guard}len(self.{pn}) >= {lo}, "Zq lower bound of {pn}")',
            f'@invariant(lambda self: {guard}len(self.{pn}) <= {hi}, "Zq upper bound of {pn}")'])
    if kind == "contradictory-len-cp":
        cp = ('@invariant(lambda self: len(self) >= 5, "Zq lower bound")\n'
              '@invariant(lambda self: len(self) <= 3, "Zq upper bound")\n'
              'class Zq_contradictory_str(str, DBC):\n    pass')
        return kind, _insert_before_version(text, cp)
    if kind == "len-of-number":
        op = g.OPS_BY_NAME["len-of-number"]
        sites = op.sites(src)
        if not sites:
            return kind, None
        return kind, op.apply(src, rng.choice(sites))
    if kind == "unknown-member":
        if not model_classes:
            return kind, None
        c = rng.choice(model_classes)
        return kind, _decorate(src, c.name, ['@invariant(lambda self: self.zq_missing_member > 0, "Zq unknown member")'])
    if kind == "unknown-callee":
        fn = "@verification\ndef zq_verify(x: int) -> bool:\n    return zq_unknown_callee(x)"
        return kind, _insert_before_version(text, fn)
    if kind == "csharp-name-collision":
        names = [c.name for c in src.classes() if "_" in c.name]
        if not names:
            return kind, None
        n = rng.choice(names)
        i = n.index("_")
        variant = n[:i + 1] + n[i + 1:i + 2].swapcase() + n[i + 2:]
        if variant == n or src.cls(variant) is not None:
            return kind, None
        return kind, _insert_before_version(text, f"class {variant}(DBC):\n    pass")
    return kind, None


@st.composite
def cases(draw: Any) -> Dict[str, Any]:
    kind = draw(st.sampled_from(["accepted", "mutated", "mutated", "late", "late", "late"]))
    opts = mmgen.Opts(max_classes=draw(st.integers(1, 5)), max_props=draw(st.integers(0, 3)),
                      invariants=draw(st.sampled_from(["general", "schema", "schema", "none"])),
                      impl_fns=draw(st.booleans()))
    spec = draw(mmgen.specs(opts))
    text = mmgen.render(spec)
    case = {"kind": kind, "text": text}  # type: Dict[str, Any]
    if draw(st.integers(0, 7)) == 0:
        # the same text under a different file encoding / line-ending convention: both tools read the file themselves
        case["file_variant"] = draw(st.sampled_from(sut.FILE_VARIANTS))
    if kind == "mutated":
        names = []
        for _ in range(draw(st.sampled_from([1, 1, 2]))):
            name, text = mmmut.mutate(draw, text, None)
            names.append(name)
        case["text"] = text
        case["mutations"] = names
    elif kind == "late":
        rng = random.Random(draw(st.integers(0, 2 ** 32 - 1)) ^ zlib.crc32(text.encode("utf-8")))
        try:
            inj, new = inject_late(text, rng)
        except (SyntaxError, ValueError, IndexError):
            inj, new = "none", None
        if new is None:
            case["kind"] = "accepted"
        else:
            case["text"] = new
            case["injected"] = inj
    return case


# ---------------------------------------------------------------------------
# Observation
# ---------------------------------------------------------------------------


def bullets(err: str) -> List[str]:
    """First-level bullet messages without locations."""
    return [g.LOC_RE.sub("", ln[2:], count=1) for ln in err.split("\n") if ln.startswith("* ")]


def dummy_snippets_csharp(text: str) -> Dict[str, str]:
    sn = dict(sut.BASE_SNIPPETS["csharp"])
    try:
        sn.update(g.impl_specific_keys_csharp(g.Src(text)))
    except (SyntaxError, ValueError):
        pass
    return sn


def _run_target(text: str, target: str, base: pathlib.Path, extra: Optional[Dict[str, str]] = None) -> Tuple[Any, str, Optional[str]]:
    """(rc, stderr, exception bucket)."""
    try:
        rc, _, err, _ = sut.generate(text, target, base, extra_snippets=extra)
        return rc, err, None
    except BaseException as e:  # noqa
        if type(e).__name__ in ("KeyboardInterrupt", "SystemExit", "MemoryError"):
            raise
        return None, "", runner.exc_bucket(e)


def run_smoke(text: Any, base: pathlib.Path) -> Tuple[Any, str, Optional[str], Optional[str]]:
    from aas_core_codegen.smoke import main as smoke_main

    d = sut.fresh_dir(base, "c28")
    try:
        mp = d / "meta_model.py"
        sut.write_model(mp, text)
        err = io.StringIO()
        try:
            rc = smoke_main.execute(model_path=mp, stderr=err)
        except BaseException as e:  # noqa
            if type(e).__name__ in ("KeyboardInterrupt", "SystemExit", "MemoryError"):
                raise
            return None, err.getvalue(), runner.exc_bucket(e), runner.exc_text(e)
        return rc, err.getvalue().replace(str(mp), "<meta_model.py>"), None, None
    finally:
        shutil.rmtree(d, ignore_errors=True)


def evaluate(text: Any, base: pathlib.Path, file_variant: Optional[str] = None) -> Dict[str, Any]:
    res = {"fails": [], "classes": [], "nt": False, "excluded": []}  # type: Dict[str, Any]
    exc_buckets = set()
    src_text = text
    if file_variant is not None:
        text = sut.file_bytes(text, file_variant)
        res["classes"].append(f"file-variant:{file_variant}")

    # fe
    try:
        _, _, fe_err = sut.load_text(text, base)
        fe = "ok" if fe_err is None else "failed"
    except BaseException as e:  # noqa
        if type(e).__name__ in ("KeyboardInterrupt", "SystemExit", "MemoryError"):
            raise
        fe = "crash"
        exc_buckets.add(runner.exc_bucket(e))

    inf = cs = "unknown"
    if fe == "ok":
        rc_j, err_j, ex_j = _run_target(text, "jsonschema", base)
        if ex_j is not None:
            exc_buckets.add(ex_j)
        if rc_j == 0:
            inf = "ok"
        else:
            rc_x, err_x, ex_x = _run_target(text, "xsd", base)
            if ex_x is not None:
                exc_buckets.add(ex_x)
            if rc_x == 0:
                inf = "ok"
            elif rc_j is not None and rc_x is not None:
                bj, bx = bullets(err_j), bullets(err_x)
                if bj and set(bj) <= set(bx):
                    inf = "failed"
        sn = dummy_snippets_csharp(src_text)
        rc_c, err_c, ex_c = _run_target(text, "csharp", base, extra=sn)
        if ex_c is not None:
            exc_buckets.add(ex_c)
        if rc_c == 0:
            cs = "ok"
        elif rc_c is not None:
            h = g.headline(err_c)
            if h.startswith(HEAD_VERIFY_TYPES) or re.match(r"Failed to generate \S+/(types|verification)\.cs ", h):
                cs = "failed"
    res["classes"] += [f"fe:{fe}", f"inf:{inf}", f"cs:{cs}"]

    rc, err, ex, ex_text = run_smoke(text, base)
    if ex is not None:
        if ex in exc_buckets or (fe == "crash" and ex.split("@")[0] in {b.split("@")[0] for b in exc_buckets}):
            # the second case: the smoke tool reads and parses the file itself, so the same front-end crash
            # (e.g. UnicodeDecodeError for a file that is not UTF-8) surfaces in its own frame (C01's)
            res["excluded"].append(f"exception-also-in-generators:{ex}")
            res["classes"].append("smoke:crash-shared")
        else:
            res["fails"].append((f"smoke-raises:{ex}", f"fe={fe} inf={inf} cs={cs} (exceptions of load_model/jsonschema/xsd/csharp: "
                                                       f"{sorted(exc_buckets)})\n{ex_text}"))
            res["classes"].append("smoke:crash")
        return res
    res["classes"].append(f"smoke:{rc}")
    if not isinstance(rc, int) or isinstance(rc, bool) or rc not in (0, 1):
        res["fails"].append(("smoke-status-not-0-or-1", repr(rc)))
        return res
    failed = [n for n, v in (("front-end", fe), ("schema-inference", inf), ("csharp-types-verification", cs)) if v == "failed"]
    if fe == "crash":
        res["excluded"].append("front-end-crash")
    if rc == 0:
        for what in failed:
            res["fails"].append((f"smoke-exits-0-but-{what}-fails", f"fe={fe} inf={inf} cs={cs}"))
    else:
        if err.strip() == "":
            res["fails"].append(("smoke-exits-1-with-empty-report", f"fe={fe} inf={inf} cs={cs}"))
        for k, msg in g.shape_violations(err):
            res["fails"].append((f"smoke-report-shape:{k}", msg))
        if fe == "ok" and inf == "ok" and cs == "ok":
            res["classes"].append("smoke-stricter")
    res["nt"] = fe == "ok" and (inf == "failed" or cs == "failed")
    return res


def replay_recorded(repo: pathlib.Path) -> List[Tuple[str, List[Tuple[str, str]]]]:
    """The recorded cases: (relative dir, fails)."""
    from aas_core_codegen.smoke import main as smoke_main

    out = []
    for mp in sorted(repo.glob("dev/test_data/smoke/**/meta_model.py")):
        rel = str(mp.parent.relative_to(repo / "dev/test_data/smoke"))
        fails = []  # type: List[Tuple[str, str]]
        exp_p = mp.parent / "expected_stderr.txt"
        if not exp_p.exists():
            out.append((rel, fails))
            continue
        err = io.StringIO()
        try:
            rc = smoke_main.execute(model_path=mp, stderr=err)
        except BaseException as e:  # noqa
            if type(e).__name__ in ("KeyboardInterrupt", "SystemExit", "MemoryError"):
                raise
            out.append((rel, [(f"recorded:smoke-raises:{runner.exc_bucket(e)}", f"{rel}\n{runner.exc_text(e)}")]))
            continue
        got = err.getvalue().replace(str(mp), "<meta_model.py>")
        exp = exp_p.read_text(encoding="utf-8")
        if "unexpected" in mp.parts and rc != 1:
            fails.append(("recorded:unexpected-case-exits-0", f"{rel}: rc={rc}"))
        if got != exp:
            only_columns = re.sub(r"column \d+", "column X", got) == re.sub(r"column \d+", "column X", exp)
            fails.append(("recorded:stderr-differs" + ("-in-columns-only" if only_columns else ""),
                          f"{rel}\n--- got:\n{got}\n--- expected:\n{exp}"))
        out.append((rel, fails))
    return out


# ---------------------------------------------------------------------------
# Shard / replay / health
# ---------------------------------------------------------------------------


def shard(ctx: runner.Ctx) -> None:
    n = ctx.n(800, 40_000)

    def one(case: Dict[str, Any]) -> None:
        res = evaluate(case["text"], ctx.scratch, case.get("file_variant"))
        for r in res["excluded"]:
            ctx.exclude(r)
        classes = [f"kind:{case['kind']}"] + res["classes"]
        if "injected" in case:
            classes.append(f"late:{case['injected']}")
        ctx.case(res["nt"], key=[case["text"], case.get("file_variant")],
                 sample={"kind": case["kind"], "file_variant": case.get("file_variant"), "injected": case.get("injected"), "mutations": case.get("mutations"),
                         "classes": res["classes"], "text_tail": case["text"][-400:]},
                 classes=classes)
        for b, m in res["fails"]:
            ctx.fail(b, {"text": case["text"], "file_variant": case.get("file_variant")}, m)

    runner.hyp_run(cases(), one, n, ctx.seed)

    if ctx.shard == 0:
        repo = pathlib.Path(os.environ.get("VERIF_REPO", "/repo"))
        recorded = replay_recorded(repo)
        ctx.notes["recorded_cases"] = len(recorded)
        for rel, fails in recorded:
            ctx.case(True, key=["recorded", rel], classes=["recorded"])
            for b, m in fails:
                ctx.fail(b, {"recorded": rel}, m)


def replay(case: Any) -> List[Tuple[str, str]]:
    if not isinstance(case, dict):
        return []
    if isinstance(case.get("recorded"), str):
        repo = pathlib.Path(os.environ.get("VERIF_REPO", "/repo"))
        return [f for rel, fails in replay_recorded(repo) if rel == case["recorded"] for f in fails]
    if not isinstance(case.get("text"), str):
        return []
    base = runner.make_scratch("c28-replay")
    try:
        fv = case.get("file_variant")
        return evaluate(case["text"], base, fv if fv in sut.FILE_VARIANTS else None)["fails"]
    finally:
        shutil.rmtree(base, ignore_errors=True)


def health(m: Any, tier: str) -> Any:
    ev = max(1, m["evaluations"])
    cl = m["classes"]
    if m["notes"].get("recorded_cases", 0) < 5:
        return f"only {m['notes'].get('recorded_cases', 0)} recorded smoke cases found"
    for k, frac in (("fe:failed", 0.1), ("inf:failed", 0.04), ("cs:failed", 0.06), ("smoke:0", 0.1), ("smoke:1", 0.25)):
        if cl.get(k, 0) < frac * ev:
            return f"class {k} holds only {cl.get(k, 0)} of {ev}"
    if m["nontrivial_n"] < 0.1 * ev:
        return f"only {m['nontrivial_n']} non-trivial of {ev}"
    return None


if __name__ == "__main__":
    runner.main(sys.modules[__name__])
